//! Script vocabulary of the C15 driver: requests as data, the structural generator, JSON (replay) and
//! Gallina (cases.v) printers.
use kvh::rng::Rng;
use serde_json::{json, Value};

pub const U32MAX: u64 = 4294967295;
pub const POOL: [u64; 7] = [1, 2, 3, 4, 5, 6, U32MAX];

/// run-length encoded f32 vector: (bits, count)
#[derive(Clone, Debug, PartialEq)]
pub struct Vecr(pub Vec<(u32, u32)>);
impl Vecr {
    pub fn of(v: &[f32]) -> Vecr {
        let mut out: Vec<(u32, u32)> = vec![];
        for x in v {
            let b = x.to_bits();
            match out.last_mut() {
                Some((lb, n)) if *lb == b => *n += 1,
                _ => out.push((b, 1)),
            }
        }
        Vecr(out)
    }
    pub fn expand(&self) -> Vec<f32> {
        let mut v = vec![];
        for (b, n) in &self.0 {
            for _ in 0..*n {
                v.push(f32::from_bits(*b));
            }
        }
        v
    }
    pub fn len(&self) -> usize {
        self.0.iter().map(|(_, n)| *n as usize).sum()
    }
    pub fn json(&self) -> Value {
        json!(self.0.iter().map(|(b, n)| json!([b, n])).collect::<Vec<_>>())
    }
    pub fn from(v: &Value) -> Vecr {
        Vecr(v.as_array().map(|a| a.iter().map(|p| (p[0].as_u64().unwrap_or(0) as u32, p[1].as_u64().unwrap_or(0) as u32)).collect()).unwrap_or_default())
    }
}

/// value class of one f32 (Model/ReqBase.v fclass); panics on a value outside every class
pub fn fclass(x: f32) -> &'static str {
    if x.is_nan() {
        "NaN"
    } else if x == f32::INFINITY {
        "PInf"
    } else if x == f32::NEG_INFINITY {
        "NInf"
    } else if x == 0.0 {
        "Zero"
    } else if x.abs() < f32::MIN_POSITIVE {
        "Sub"
    } else if x.abs() > 1.9e19 {
        "Huge"
    } else if x.abs() >= 0.0009765625 && x.abs() <= 1024.0 {
        "FinNZ"
    } else {
        panic!("f32 {} is outside the value classes of the model", x)
    }
}
pub fn cls_gallina(v: &Vecr) -> String {
    if v.0.is_empty() {
        return "[]".into();
    }
    let parts: Vec<String> = v
        .0
        .iter()
        .map(|(b, n)| {
            let c = fclass(f32::from_bits(*b));
            if *n <= 4 {
                format!("[{}]", vec![c; *n as usize].join("; "))
            } else {
                format!("nrepeat {} {}", c, n)
            }
        })
        .collect();
    if parts.len() == 1 {
        format!("({})", parts[0])
    } else {
        format!("({})", parts.join(" ++ "))
    }
}

pub type Meta = Vec<(String, String)>;

#[derive(Clone, Debug, PartialEq)]
pub enum F {
    Empty, // MetadataFilter { filter_type: None }
    Exact(String, String),
    Range(String, Option<String>), // bound: Some(v) = gte v
    In(String, Vec<String>),
    And(Vec<F>),
    Or(Vec<F>),
    Not(Option<Box<F>>),
}
pub fn chain(kind: &str, depth: usize) -> F {
    let mut f = F::Exact("a".into(), "b".into());
    for _ in 0..depth {
        f = match kind {
            "not" => F::Not(Some(Box::new(f))),
            "and" => F::And(vec![f]),
            _ => F::Or(vec![f]),
        };
    }
    f
}
pub fn f_json(f: &F) -> Value {
    // chains are encoded iteratively so that deep filters do not overflow serde's recursion limit
    let mut cur = f;
    let mut wrappers: Vec<&'static str> = vec![];
    loop {
        match cur {
            F::Not(Some(g)) => {
                wrappers.push("not");
                cur = g;
            }
            F::And(v) if v.len() == 1 => {
                wrappers.push("and");
                cur = &v[0];
            }
            F::Or(v) if v.len() == 1 => {
                wrappers.push("or");
                cur = &v[0];
            }
            _ => break,
        }
    }
    let core = match cur {
        F::Empty => json!({"t": "empty"}),
        F::Exact(k, v) => json!({"t": "exact", "k": k, "v": v}),
        F::Range(k, b) => json!({"t": "range", "k": k, "b": b}),
        F::In(k, vs) => json!({"t": "in", "k": k, "vs": vs}),
        F::And(v) => json!({"t": "and", "fs": v.iter().map(f_json).collect::<Vec<_>>()}),
        F::Or(v) => json!({"t": "or", "fs": v.iter().map(f_json).collect::<Vec<_>>()}),
        F::Not(None) => json!({"t": "not_none"}),
        F::Not(Some(_)) => unreachable!(),
    };
    if wrappers.is_empty() {
        core
    } else {
        json!({"t": "chain", "w": wrappers, "core": core})
    }
}
pub fn f_from(v: &Value) -> F {
    let s = |k: &str| v[k].as_str().unwrap_or("").to_string();
    match v["t"].as_str().unwrap_or("") {
        "exact" => F::Exact(s("k"), s("v")),
        "range" => F::Range(s("k"), v["b"].as_str().map(|x| x.to_string())),
        "in" => F::In(s("k"), v["vs"].as_array().map(|a| a.iter().map(|x| x.as_str().unwrap_or("").to_string()).collect()).unwrap_or_default()),
        "and" => F::And(v["fs"].as_array().map(|a| a.iter().map(f_from).collect()).unwrap_or_default()),
        "or" => F::Or(v["fs"].as_array().map(|a| a.iter().map(f_from).collect()).unwrap_or_default()),
        "not_none" => F::Not(None),
        "chain" => {
            let mut f = f_from(&v["core"]);
            if let Some(w) = v["w"].as_array() {
                for k in w.iter().rev() {
                    f = match k.as_str().unwrap_or("") {
                        "not" => F::Not(Some(Box::new(f))),
                        "and" => F::And(vec![f]),
                        _ => F::Or(vec![f]),
                    };
                }
            }
            f
        }
        _ => F::Empty,
    }
}

#[derive(Clone, Debug, PartialEq)]
pub struct It {
    pub id: u64,
    pub vec: Vecr,
    pub meta: Meta,
}
#[derive(Clone, Debug, PartialEq)]
pub struct Sq {
    pub q: Vecr,
    pub k: u32,
    pub ef: u32,
    pub ns: String,
    pub filter: Option<F>,
}
/// run-length encoded list (identical neighbours)
pub type Rl<T> = Vec<(T, u32)>;

#[derive(Clone, Debug, PartialEq)]
pub enum Op {
    Insert(It),
    BulkInsert(Rl<It>),
    BulkLoad(Rl<It>),
    Query(u64),
    BulkQuery(Rl<u64>),
    Search(Sq),
    BulkSearch(Rl<Sq>),
    Update(u64, Meta, bool),
    Delete(u64),
    BatchDeleteIds(Rl<u64>),
    BatchDeleteFilter(F),
    BatchDeleteNone,
    Flush(bool),
    Restart,
}
#[derive(Clone, Debug)]
pub struct Step {
    pub op: Op,
    /// (rpc, field, value kind): the structural coordinates of this request
    pub label: (String, String, String),
}
#[derive(Clone, Debug)]
pub struct Script {
    pub name: String,
    pub metric: String,
    pub dim: usize,
    pub steps: Vec<Step>,
}

pub fn rl_len<T>(r: &Rl<T>) -> usize {
    r.iter().map(|(_, n)| *n as usize).sum()
}
pub fn rl_expand<T: Clone>(r: &Rl<T>) -> Vec<T> {
    let mut v = vec![];
    for (x, n) in r {
        for _ in 0..*n {
            v.push(x.clone());
        }
    }
    v
}
pub fn opname(op: &Op) -> &'static str {
    match op {
        Op::Insert(_) => "Insert",
        Op::BulkInsert(_) => "BulkInsert",
        Op::BulkLoad(_) => "BulkLoadHnsw",
        Op::Query(_) => "Query",
        Op::BulkQuery(_) => "BulkQuery",
        Op::Search(_) => "Search",
        Op::BulkSearch(_) => "BulkSearch",
        Op::Update(..) => "UpdateMetadata",
        Op::Delete(_) => "Delete",
        Op::BatchDeleteIds(_) => "BatchDelete(ids)",
        Op::BatchDeleteFilter(_) => "BatchDelete(filter)",
        Op::BatchDeleteNone => "BatchDelete(none)",
        Op::Flush(_) => "FlushHotTier",
        Op::Restart => "restart",
    }
}

// ------------------------------------------------------------------------------------------ JSON
fn meta_json(m: &Meta) -> Value {
    json!(m.iter().map(|(k, v)| json!([k, v])).collect::<Vec<_>>())
}
fn meta_from(v: &Value) -> Meta {
    v.as_array().map(|a| a.iter().map(|p| (p[0].as_str().unwrap_or("").to_string(), p[1].as_str().unwrap_or("").to_string())).collect()).unwrap_or_default()
}
fn it_json(i: &It) -> Value {
    json!({"id": i.id.to_string(), "vec": i.vec.json(), "meta": meta_json(&i.meta)})
}
fn u64_from(v: &Value) -> u64 {
    v.as_str().and_then(|s| s.parse().ok()).or(v.as_u64()).unwrap_or(0)
}
fn it_from(v: &Value) -> It {
    It { id: u64_from(&v["id"]), vec: Vecr::from(&v["vec"]), meta: meta_from(&v["meta"]) }
}
fn sq_json(s: &Sq) -> Value {
    json!({"q": s.q.json(), "k": s.k, "ef": s.ef, "ns": s.ns, "filter": s.filter.as_ref().map(f_json)})
}
fn sq_from(v: &Value) -> Sq {
    Sq {
        q: Vecr::from(&v["q"]),
        k: v["k"].as_u64().unwrap_or(0) as u32,
        ef: v["ef"].as_u64().unwrap_or(0) as u32,
        ns: v["ns"].as_str().unwrap_or("").to_string(),
        filter: if v["filter"].is_null() { None } else { Some(f_from(&v["filter"])) },
    }
}
fn rl_json<T, G: Fn(&T) -> Value>(r: &Rl<T>, g: G) -> Value {
    json!(r.iter().map(|(x, n)| json!([g(x), n])).collect::<Vec<_>>())
}
fn rl_from<T, G: Fn(&Value) -> T>(v: &Value, g: G) -> Rl<T> {
    v.as_array().map(|a| a.iter().map(|p| (g(&p[0]), p[1].as_u64().unwrap_or(1) as u32)).collect()).unwrap_or_default()
}
pub fn op_json(op: &Op) -> Value {
    match op {
        Op::Insert(i) => json!({"op": "insert", "item": it_json(i)}),
        Op::BulkInsert(v) => json!({"op": "bulk_insert", "items": rl_json(v, it_json)}),
        Op::BulkLoad(v) => json!({"op": "bulk_load", "items": rl_json(v, it_json)}),
        Op::Query(id) => json!({"op": "query", "id": id.to_string()}),
        Op::BulkQuery(v) => json!({"op": "bulk_query", "ids": rl_json(v, |x| json!(x.to_string()))}),
        Op::Search(s) => json!({"op": "search", "req": sq_json(s)}),
        Op::BulkSearch(v) => json!({"op": "bulk_search", "reqs": rl_json(v, sq_json)}),
        Op::Update(id, m, merge) => json!({"op": "update", "id": id.to_string(), "meta": meta_json(m), "merge": merge}),
        Op::Delete(id) => json!({"op": "delete", "id": id.to_string()}),
        Op::BatchDeleteIds(v) => json!({"op": "bdel_ids", "ids": rl_json(v, |x| json!(x.to_string()))}),
        Op::BatchDeleteFilter(f) => json!({"op": "bdel_filter", "filter": f_json(f)}),
        Op::BatchDeleteNone => json!({"op": "bdel_none"}),
        Op::Flush(f) => json!({"op": "flush", "force": f}),
        Op::Restart => json!({"op": "restart"}),
    }
}
pub fn op_from(v: &Value) -> Op {
    match v["op"].as_str().unwrap_or("") {
        "insert" => Op::Insert(it_from(&v["item"])),
        "bulk_insert" => Op::BulkInsert(rl_from(&v["items"], it_from)),
        "bulk_load" => Op::BulkLoad(rl_from(&v["items"], it_from)),
        "query" => Op::Query(u64_from(&v["id"])),
        "bulk_query" => Op::BulkQuery(rl_from(&v["ids"], u64_from)),
        "search" => Op::Search(sq_from(&v["req"])),
        "bulk_search" => Op::BulkSearch(rl_from(&v["reqs"], sq_from)),
        "update" => Op::Update(u64_from(&v["id"]), meta_from(&v["meta"]), v["merge"].as_bool().unwrap_or(false)),
        "delete" => Op::Delete(u64_from(&v["id"])),
        "bdel_ids" => Op::BatchDeleteIds(rl_from(&v["ids"], u64_from)),
        "bdel_filter" => Op::BatchDeleteFilter(f_from(&v["filter"])),
        "bdel_none" => Op::BatchDeleteNone,
        "flush" => Op::Flush(v["force"].as_bool().unwrap_or(false)),
        _ => Op::Restart,
    }
}
pub fn script_json(s: &Script) -> Value {
    json!({"name": s.name, "metric": s.metric, "dim": s.dim,
           "steps": s.steps.iter().map(|st| json!({"label": [st.label.0, st.label.1, st.label.2], "op": op_json(&st.op)})).collect::<Vec<_>>()})
}
pub fn script_from(v: &Value) -> Script {
    Script {
        name: v["name"].as_str().unwrap_or("replay").to_string(),
        metric: v["metric"].as_str().unwrap_or("euclidean").to_string(),
        dim: v["dim"].as_u64().unwrap_or(4) as usize,
        steps: v["steps"]
            .as_array()
            .map(|a| {
                a.iter()
                    .map(|s| Step {
                        op: op_from(&s["op"]),
                        label: (
                            s["label"][0].as_str().unwrap_or("").to_string(),
                            s["label"][1].as_str().unwrap_or("").to_string(),
                            s["label"][2].as_str().unwrap_or("").to_string(),
                        ),
                    })
                    .collect()
            })
            .unwrap_or_default(),
    }
}

// ------------------------------------------------------------------------------------------ generator
pub fn big_string(c: char) -> String {
    std::iter::repeat(c).take(10 * 1024).collect()
}

/// pathological / boundary vectors: (kind, vector)
pub fn vec_kinds(dim: usize) -> Vec<(String, Vec<f32>)> {
    let base: Vec<f32> = (0..dim).map(|i| if i == 0 { 1.0 } else { 0.5 }).collect();
    let at = |pos: usize, x: f32| {
        let mut v = base.clone();
        v[pos] = x;
        v
    };
    let mid = dim / 2;
    let last = dim - 1;
    let mut out: Vec<(String, Vec<f32>)> = vec![
        ("empty".into(), vec![]),
        ("dim-1".into(), base[..dim - 1].to_vec()),
        ("dim+1".into(), [base.clone(), vec![0.5]].concat()),
        ("10xdim".into(), vec![0.5; 10 * dim]),
        ("max-dim-4096".into(), vec![0.5; 4096]),
        ("max-dim+1-4097".into(), vec![0.5; 4097]),
        ("65536-floats".into(), vec![0.5; 65536]),
        ("all-zero".into(), vec![0.0; dim]),
        ("all-negative-zero".into(), vec![-0.0; dim]),
        ("overflowing-3e38-first".into(), at(0, 3e38)),
        ("overflowing-all-3e38".into(), vec![3e38; dim]),
        ("overflowing-negative".into(), at(last, -3e38)),
        ("subnormal-only".into(), {
            let mut v = vec![0.0; dim];
            v[0] = 1e-40;
            v
        }),
        ("subnormal-mixed".into(), at(mid, 1e-40)),
        ("f32-max".into(), at(mid, f32::MAX)),
    ];
    for (nm, x) in [("nan", f32::NAN), ("+inf", f32::INFINITY), ("-inf", f32::NEG_INFINITY)] {
        out.push((format!("{}-first", nm), at(0, x)));
        out.push((format!("{}-middle", nm), at(mid, x)));
        out.push((format!("{}-last", nm), at(last, x)));
    }
    out.push(("nan-with-overflowing".into(), {
        let mut v = at(0, 3e38);
        v[last] = f32::NAN;
        v
    }));
    out.push(("inf-at-4097th".into(), {
        let mut v = vec![0.5; 4097];
        v[4096] = f32::INFINITY;
        v
    }));
    out
}
pub fn good_vecs(dim: usize) -> Vec<Vec<f32>> {
    let mut out = vec![];
    let mut a = vec![0.0; dim];
    a[0] = 1.0;
    out.push(a);
    let mut b = vec![0.0; dim];
    b[1] = 1.0;
    out.push(b);
    out.push(vec![0.5; dim]); // dim 4: unit norm
    let mut d = vec![0.0; dim];
    d[0] = 3.0;
    d[1] = 4.0;
    out.push(d); // normalised by cosine
    let mut e = vec![0.0; dim];
    e[dim - 2] = 0.6;
    e[dim - 1] = 0.8;
    out.push(e);
    out
}
fn lab(a: &str, b: &str, c: &str) -> (String, String, String) {
    (a.to_string(), b.to_string(), c.to_string())
}

pub struct Limits {
    pub max_batch: u64,
    pub decode_depth: u64,
}

/// The structural grid: every RPC x every field x boundary / pathological values, singly and in streams
/// mixing valid and invalid items.  The seed shuffles the order of the probes and picks the ids / good
/// vectors they use; seeding steps keep the collection populated between destructive probes.
pub fn gen_script(r: &mut Rng, name: &str, metric: &str, dim: usize, lim: &Limits, thorough: bool) -> Script {
    let good = good_vecs(dim);
    let kinds = vec_kinds(dim);
    // 2^32 + l for a live local id l: out of range, and an alias of document l if the range check is lost
    let ids_boundary: [(u64, &str); 7] = [(0, "0"), (1, "1"), (U32MAX, "2^32-1"), (U32MAX + 1, "2^32"), (U32MAX + 2, "2^32+1"), (U32MAX + 4, "2^32+3"), (u64::MAX, "u64::MAX")];
    let metas: Vec<Meta> = vec![vec![], vec![("a".into(), "b".into())], vec![("a".into(), "c".into()), ("t".into(), "x".into())]];
    let gv = |r: &mut Rng| Vecr::of(r.pick::<Vec<f32>>(&good[..]));
    let gm = |r: &mut Rng| r.pick(&metas[..]).clone();
    let live_id = |r: &mut Rng| *r.pick(&[1u64, 2, 3, 4]);
    let item = |id: u64, v: Vecr, m: Meta| It { id, vec: v, meta: m };
    let sq = |q: Vecr, k: u32| Sq { q, k, ef: 0, ns: String::new(), filter: None };
    let mut probes: Vec<Step> = vec![];
    let mut p = |op: Op, l: (String, String, String)| probes.push(Step { op, label: l });

    // ---- Insert
    for (id, nm) in ids_boundary {
        p(Op::Insert(item(id, gv(r), gm(r))), lab("Insert", "doc_id", nm));
    }
    for (nm, v) in &kinds {
        // over an EXISTING document: a refusal must leave the old version in place
        p(Op::Insert(item(live_id(r), Vecr::of(v), gm(r))), lab("Insert", "embedding", nm));
    }
    p(Op::Insert(item(5, gv(r), vec![(big_string('k'), big_string('v'))])), lab("Insert", "metadata", "10kB-key-and-value"));
    p(Op::Insert(item(6, gv(r), vec![("".into(), "".into())])), lab("Insert", "metadata", "empty-key-and-value"));
    // ---- BulkInsert / BulkLoadHnsw
    for bulk in ["BulkInsert", "BulkLoadHnsw"] {
        let mk = |v: Rl<It>| if bulk == "BulkInsert" { Op::BulkInsert(v) } else { Op::BulkLoad(v) };
        p(mk(vec![]), lab(bulk, "stream", "empty"));
        p(mk(vec![(item(live_id(r), gv(r), gm(r)), 1)]), lab(bulk, "stream", "one-valid"));
        for (id, nm) in ids_boundary {
            p(mk(vec![(item(5, gv(r), gm(r)), 1), (item(id, gv(r), gm(r)), 1), (item(6, gv(r), gm(r)), 1)]), lab(bulk, "doc_id-in-mixed-stream", nm));
        }
        for (nm, v) in &kinds {
            // [valid new/overwrite, INVALID over a live doc, valid]
            let bad = item(live_id(r), Vecr::of(v), gm(r));
            p(mk(vec![(item(5, gv(r), gm(r)), 1), (bad.clone(), 1), (item(6, gv(r), gm(r)), 1)]), lab(bulk, "embedding-in-mixed-stream", nm));
            if r.chance(1, 3) {
                p(mk(vec![(bad, 1)]), lab(bulk, "embedding-single-item-stream", nm));
            }
        }
        // batch sizes: limit and limit+1 (the padding items are refused cheaply: doc_id 0)
        let pad = item(0, Vecr::of(&good[0]), vec![]);
        p(mk(vec![(pad.clone(), (lim.max_batch - 1) as u32), (item(5, gv(r), gm(r)), 1)]), lab(bulk, "batch-size", "limit"));
        p(mk(vec![(pad.clone(), lim.max_batch as u32), (item(6, gv(r), gm(r)), 1)]), lab(bulk, "batch-size", "limit+1"));
        p(mk(vec![(pad, 1)]), lab(bulk, "batch-size", "1-invalid"));
    }
    // ---- Query / BulkQuery
    for (id, nm) in ids_boundary {
        p(Op::Query(id), lab("Query", "doc_id", nm));
    }
    p(Op::BulkQuery(vec![]), lab("BulkQuery", "doc_ids", "empty"));
    p(Op::BulkQuery(vec![(0, 1)]), lab("BulkQuery", "doc_ids", "[0]"));
    p(Op::BulkQuery(vec![(1, 1), (U32MAX + 1, 1), (2, 1)]), lab("BulkQuery", "doc_ids", "one-beyond-range"));
    p(Op::BulkQuery(vec![(1, 1), (u64::MAX, 1)]), lab("BulkQuery", "doc_ids", "u64::MAX"));
    p(Op::BulkQuery(vec![(1, 1), (U32MAX, 1)]), lab("BulkQuery", "doc_ids", "2^32-1"));
    p(Op::BulkQuery(vec![(2, lim.max_batch as u32)]), lab("BulkQuery", "batch-size", "limit"));
    p(Op::BulkQuery(vec![(2, lim.max_batch as u32 + 1)]), lab("BulkQuery", "batch-size", "limit+1"));
    // ---- Search
    for (nm, v) in &kinds {
        p(Op::Search(sq(Vecr::of(v), 3)), lab("Search", "query_embedding", nm));
    }
    for k in [0u32, 1, 1000, 1001, u32::MAX] {
        p(Op::Search(sq(gv(r), k)), lab("Search", "k", &k.to_string()));
    }
    for ef in [0u32, 1, 10000, 10001, u32::MAX] {
        let mut s = sq(gv(r), 2);
        s.ef = ef;
        p(Op::Search(s), lab("Search", "ef_search", &ef.to_string()));
    }
    let half = (lim.decode_depth as usize - 2) / 2; // deepest chain that still decodes
    let mut filters: Vec<(String, F)> = vec![
        ("filter_type-none".into(), F::Empty),
        ("and-empty".into(), F::And(vec![])),
        ("or-empty".into(), F::Or(vec![])),
        ("not-none".into(), F::Not(None)),
        ("not-of-empty".into(), F::Not(Some(Box::new(F::Empty)))),
        ("in-empty".into(), F::In("a".into(), vec![])),
        ("in-6-values".into(), F::In("a".into(), (0..6).map(|i| format!("v{}", i)).collect())),
        ("range-no-bound".into(), F::Range("a".into(), None)),
        ("range-on-absent-key".into(), F::Range("zz".into(), Some("5".into()))),
        ("exact-10kB-strings".into(), F::Exact(big_string('k'), big_string('v'))),
        ("exact-empty-strings".into(), F::Exact("".into(), "".into())),
        ("and-of-empties".into(), F::And(vec![F::Empty, F::Empty])),
        ("or-wide-64".into(), F::Or((0..64).map(|i| F::Exact("a".into(), format!("w{}", i))).collect())),
    ];
    for kind in ["not", "and", "or"] {
        for (nm, d) in [("limit-1", half - 1), ("limit", half), ("limit+1", half + 1), ("2xlimit", 2 * half)] {
            filters.push((format!("{}-nesting-{}", kind, nm), chain(kind, d)));
        }
    }
    for (nm, f) in &filters {
        let mut s = sq(gv(r), 2);
        s.filter = Some(f.clone());
        if r.chance(1, 4) {
            s.ns = "n1".into();
        }
        p(Op::Search(s), lab("Search", "filter", nm));
    }
    {
        let mut s = sq(gv(r), 1000);
        s.ns = "n1".into();
        s.filter = Some(F::Not(Some(Box::new(F::Exact("a".into(), "b".into())))));
        p(Op::Search(s.clone()), lab("Search", "k-x-oversampling", "k=1000,ns,not"));
        // the same extreme-but-valid request, and the overflowing query, five times back to back inside ONE
        // step (no census / probe in between): whatever they make the tiers do must not add up (failure
        // counters, breakers) to a server that stops serving
        p(Op::Search(s.clone()), lab("Search", "k-x-oversampling-burst", "k=1000,ns,not x5"));
        if let Some((_, v)) = kinds.iter().find(|(nm, _)| nm.contains("overflow")) {
            p(Op::Search(sq(Vecr::of(v), 3)), lab("Search", "overflowing-query-burst", "x5"));
        }
    }
    // ---- BulkSearch
    let ok = sq(Vecr::of(&good[0]), 1);
    p(Op::BulkSearch(vec![]), lab("BulkSearch", "stream", "empty"));
    p(Op::BulkSearch(vec![(ok.clone(), 3)]), lab("BulkSearch", "stream", "three-valid"));
    p(Op::BulkSearch(vec![(ok.clone(), 1), (sq(gv(r), 0), 1), (ok.clone(), 1)]), lab("BulkSearch", "k-in-mixed-stream", "0"));
    p(Op::BulkSearch(vec![(sq(gv(r), 1001), 1), (ok.clone(), 1)]), lab("BulkSearch", "k-in-mixed-stream", "1001-first"));
    p(Op::BulkSearch(vec![(ok.clone(), 2), (sq(gv(r), u32::MAX), 1)]), lab("BulkSearch", "k-in-mixed-stream", "u32::MAX-last"));
    {
        let mut s = ok.clone();
        s.ef = 10001;
        p(Op::BulkSearch(vec![(ok.clone(), 1), (s, 1), (ok.clone(), 1)]), lab("BulkSearch", "ef-in-mixed-stream", "10001"));
    }
    for nm in ["nan-middle", "+inf-last", "empty", "max-dim+1-4097", "dim+1", "all-zero", "overflowing-all-3e38", "subnormal-only"] {
        let v = &kinds.iter().find(|(n, _)| n == nm).unwrap().1;
        // unique k for the probe so that an engine-level refusal cannot spread to the valid neighbours
        p(Op::BulkSearch(vec![(ok.clone(), 1), (sq(Vecr::of(v), 7), 1), (ok.clone(), 1)]), lab("BulkSearch", "query-in-mixed-stream", nm));
    }
    {
        let v = &kinds.iter().find(|(n, _)| n == "dim+1").unwrap().1;
        p(Op::BulkSearch(vec![(sq(Vecr::of(&good[1]), 7), 1), (sq(Vecr::of(v), 7), 1)]), lab("BulkSearch", "query-in-mixed-stream", "dim+1-sharing-the-group-of-a-valid-request"));
        let mut s = ok.clone();
        s.filter = Some(chain("not", half + 1));
        p(Op::BulkSearch(vec![(ok.clone(), 1), (s, 1), (ok.clone(), 1)]), lab("BulkSearch", "filter-in-mixed-stream", "not-nesting-limit+1"));
        let mut s2 = ok.clone();
        s2.filter = Some(chain("and", half));
        p(Op::BulkSearch(vec![(ok.clone(), 1), (s2, 1), (ok.clone(), 1)]), lab("BulkSearch", "filter-in-mixed-stream", "and-nesting-limit"));
    }
    p(Op::BulkSearch(vec![(ok.clone(), 200)]), lab("BulkSearch", "batch-size", "200-valid"));
    if thorough {
        p(Op::BulkSearch(vec![(ok.clone(), lim.max_batch as u32)]), lab("BulkSearch", "batch-size", "limit"));
        p(Op::BulkSearch(vec![(ok.clone(), lim.max_batch as u32 + 1)]), lab("BulkSearch", "batch-size", "limit+1"));
    }
    // ---- UpdateMetadata / Delete
    for (id, nm) in ids_boundary {
        p(Op::Update(id, gm(r), r.chance(1, 2)), lab("UpdateMetadata", "doc_id", nm));
        p(Op::Delete(id), lab("Delete", "doc_id", nm));
    }
    p(Op::Update(live_id(r), vec![(big_string('k'), big_string('v'))], true), lab("UpdateMetadata", "metadata", "10kB-merge"));
    p(Op::Update(live_id(r), vec![], false), lab("UpdateMetadata", "metadata", "empty-replace"));
    p(Op::Update(live_id(r), vec![("a".into(), "z".into())], true), lab("UpdateMetadata", "metadata", "merge-override"));
    p(Op::Update(6, vec![("a".into(), "z".into())], false), lab("UpdateMetadata", "doc_id", "maybe-absent"));
    p(Op::Delete(live_id(r)), lab("Delete", "doc_id", "live"));
    // ---- BatchDelete
    p(Op::BatchDeleteIds(vec![]), lab("BatchDelete(ids)", "doc_ids", "empty"));
    p(Op::BatchDeleteIds(vec![(0, 1)]), lab("BatchDelete(ids)", "doc_ids", "[0]"));
    p(Op::BatchDeleteIds(vec![(1, 1), (U32MAX + 1, 1), (2, 1)]), lab("BatchDelete(ids)", "doc_ids", "live-ids-and-one-beyond-range"));
    p(Op::BatchDeleteIds(vec![(2, 1), (u64::MAX, 1)]), lab("BatchDelete(ids)", "doc_ids", "live-id-and-u64::MAX"));
    p(Op::BatchDeleteIds(vec![(3, 2), (U32MAX, 1)]), lab("BatchDelete(ids)", "doc_ids", "duplicate-and-2^32-1"));
    p(Op::BatchDeleteIds(vec![(77, lim.max_batch as u32)]), lab("BatchDelete(ids)", "batch-size", "limit"));
    p(Op::BatchDeleteIds(vec![(1, lim.max_batch as u32 + 1)]), lab("BatchDelete(ids)", "batch-size", "limit+1-of-a-live-id"));
    p(Op::BatchDeleteNone, lab("BatchDelete(none)", "criteria", "none"));
    for (nm, f) in &filters {
        if nm.contains("or-wide") || nm.contains("in-6") {
            continue;
        }
        p(Op::BatchDeleteFilter(f.clone()), lab("BatchDelete(filter)", "filter", nm));
    }
    p(Op::BatchDeleteFilter(F::Exact("a".into(), "b".into())), lab("BatchDelete(filter)", "filter", "exact"));
    p(Op::Flush(false), lab("FlushHotTier", "force", "false"));
    p(Op::Flush(true), lab("FlushHotTier", "force", "true"));

    // ---- shuffle (seeded) and interleave with seeding steps
    for i in (1..probes.len()).rev() {
        let j = r.below(i as u64 + 1) as usize;
        probes.swap(i, j);
    }
    let mut steps: Vec<Step> = vec![];
    let seed_docs = |r: &mut Rng, steps: &mut Vec<Step>| {
        let items: Rl<It> = [1u64, 2, 3, 4].iter().map(|id| (It { id: *id, vec: Vecr::of(r.pick::<Vec<f32>>(&good[..])), meta: r.pick(&metas[..]).clone() }, 1)).collect();
        if r.chance(1, 2) {
            steps.push(Step { op: Op::BulkInsert(items), label: lab("BulkInsert", "seed", "valid") });
        } else {
            for (it, _) in items {
                steps.push(Step { op: Op::Insert(it), label: lab("Insert", "seed", "valid") });
            }
        }
    };
    seed_docs(r, &mut steps);
    for (i, st) in probes.into_iter().enumerate() {
        let destructive = matches!(st.op, Op::Delete(_) | Op::BatchDeleteIds(_) | Op::BatchDeleteFilter(_));
        steps.push(st);
        if destructive || i % 40 == 39 {
            seed_docs(r, &mut steps);
        }
        if i % 97 == 96 {
            steps.push(Step { op: Op::Restart, label: lab("restart", "-", "mid-script") });
        }
    }
    // ---- durability of refused stream items: every streaming write path x every non-finite class and
    // position, over ids that hold an ACKNOWLEDGED document (1,2,3) and over fresh ids (4,5,6), followed
    // IMMEDIATELY by a restart and re-census (no re-seeding in between: a later insert of the same id
    // would hide a WAL that replays the refused item / its compensating delete).
    let mid = dim / 2;
    steps.push(Step { op: Op::Restart, label: lab("restart", "-", "before-the-durability-groups") });
    for bulk in ["BulkInsert", "BulkLoadHnsw"] {
        for (cls, x) in [("nan", f32::NAN), ("+inf", f32::INFINITY), ("-inf", f32::NEG_INFINITY)] {
            for id in [1u64, 2, 3] {
                steps.push(Step { op: Op::Insert(It { id, vec: Vecr::of(r.pick::<Vec<f32>>(&good[..])), meta: r.pick(&metas[..]).clone() }), label: lab("Insert", "seed", "acknowledged-before-refused-item") });
            }
            steps.push(Step { op: Op::BatchDeleteIds(vec![(4, 1), (5, 1), (6, 1)]), label: lab("BatchDelete(ids)", "seed", "make-ids-fresh") });
            let base: Vec<f32> = (0..dim).map(|i| if i == 0 { 1.0 } else { 0.5 }).collect();
            let at = |pos: usize| {
                let mut v = base.clone();
                v[pos] = x;
                Vecr::of(&v)
            };
            let items: Rl<It> = vec![
                (It { id: 1, vec: at(0), meta: vec![] }, 1),
                (It { id: 4, vec: at(0), meta: vec![] }, 1),
                (It { id: 2, vec: at(mid), meta: vec![("a".into(), "b".into())] }, 1),
                (It { id: 5, vec: at(mid), meta: vec![] }, 1),
                (It { id: 3, vec: at(dim - 1), meta: vec![] }, 1),
                (It { id: 6, vec: at(dim - 1), meta: vec![] }, 1),
            ];
            let single: Rl<It> = vec![(It { id: 1, vec: at(mid), meta: vec![] }, 1)];
            let mk = |v: Rl<It>| if bulk == "BulkInsert" { Op::BulkInsert(v) } else { Op::BulkLoad(v) };
            steps.push(Step { op: mk(single), label: lab(bulk, "non-finite-single-item-over-acknowledged-id-then-restart", cls) });
            steps.push(Step { op: mk(items), label: lab(bulk, "non-finite-first-middle-last-over-acknowledged-and-fresh-ids-then-restart", cls) });
            steps.push(Step { op: Op::Restart, label: lab("restart", "after-refused-non-finite-items", &format!("{}-{}", bulk, cls)) });
        }
    }
    steps.push(Step { op: Op::Restart, label: lab("restart", "-", "final") });
    Script { name: name.to_string(), metric: metric.to_string(), dim, steps }
}
