//! C03, the other write path reachable through the engine API: `TieredEngine::bulk_load_cold_tier`
//! (per-item `cold_tier.insert`).  An item of an invalid input class must fail WITHOUT touching the
//! document it would have overwritten — live and after restart — and without affecting its neighbours.
use kvh::rng::Rng;
use kvh_pers::eng;
use kvh_pers::hist::*;
use kyrodb_engine::{LruCacheStrategy, QueryHashCache, TieredEngine, TieredEngineConfig};
use serde::{Deserialize, Serialize};
use std::collections::HashMap;
use std::path::Path;
use std::process::Command;
use std::sync::Arc;
use std::time::Duration;

#[derive(Clone, Debug, Serialize, Deserialize)]
pub struct BPlan {
    pub cfg: Cfg,
    /// valid documents loaded first: (id, vector)
    pub first: Vec<(u64, Vec<f32>)>,
    /// second bulk load: (id, f32 bit patterns, invalid-class label or "" for a valid item)
    pub second: Vec<(u64, Vec<u32>, String)>,
    pub kind: String,
}

#[derive(Clone, Debug, Serialize, Deserialize, Default)]
pub struct BOut {
    pub started: bool,
    pub first: Option<(u64, u64)>,
    pub second: Option<(u64, u64)>,
    pub live_first: Census,
    pub live_second: Census,
    pub restart_ok: bool,
    pub restart_err: Option<String>,
    pub after_restart: Census,
}

fn tiered_cfg(cfg: &Cfg, dir: &Path) -> TieredEngineConfig {
    TieredEngineConfig {
        hot_tier_max_size: 10_000,
        hot_tier_hard_limit: 20_000,
        hot_tier_max_age: Duration::from_secs(3600),
        hnsw_max_elements: cfg.capacity,
        embedding_dimension: cfg.dim,
        hnsw_distance: eng::metric_of(&cfg.metric),
        data_dir: Some(dir.to_string_lossy().to_string()),
        fsync_policy: eng::fsync_of(&cfg.fsync),
        snapshot_interval: cfg.snapshot_interval,
        max_wal_size_bytes: cfg.max_wal_bytes,
        flush_interval: Duration::from_secs(3600),
        ..Default::default()
    }
}

pub fn bchild(plan_path: &str, dir: &str) {
    let p: BPlan = serde_json::from_str(&std::fs::read_to_string(plan_path).unwrap()).unwrap();
    let dirp = Path::new(dir);
    let mut out = BOut::default();
    let engine = match TieredEngine::new(Box::new(LruCacheStrategy::new(16)), Arc::new(QueryHashCache::new(16, 0.85)), vec![], vec![], tiered_cfg(&p.cfg, dirp)) {
        Ok(e) => e,
        Err(_) => { println!("{}", serde_json::to_string(&out).unwrap()); return }
    };
    out.started = true;
    let docs: Vec<(u64, Vec<f32>, HashMap<String, String>)> = p.first.iter().map(|(id, v)| (*id, v.clone(), HashMap::new())).collect();
    out.first = engine.bulk_load_cold_tier(docs).ok().map(|(l, f, _, _)| (l, f));
    out.live_first = eng::census(engine.cold_tier());
    let docs: Vec<(u64, Vec<f32>, HashMap<String, String>)> = p.second.iter().map(|(id, b, _)| (*id, b.iter().map(|x| f32::from_bits(*x)).collect(), HashMap::new())).collect();
    out.second = engine.bulk_load_cold_tier(docs).ok().map(|(l, f, _, _)| (l, f));
    out.live_second = eng::census(engine.cold_tier());
    drop(engine);
    match eng::start(&p.cfg, dirp) {
        Ok(b) => { out.restart_ok = true; out.after_restart = eng::census(&b) }
        Err(e) => out.restart_err = Some(format!("{:#}", e)),
    }
    println!("{}", serde_json::to_string(&out).unwrap());
}

pub fn run_bchild(p: &BPlan, work: &Path, tag: &str, shim_so: &str) -> Option<BOut> {
    let dir = work.join(format!("{}_data", tag));
    let _ = std::fs::remove_dir_all(&dir);
    std::fs::create_dir_all(&dir).unwrap();
    let pp = work.join(format!("{}_plan.json", tag));
    std::fs::write(&pp, serde_json::to_string(p).unwrap()).unwrap();
    let o = Command::new(std::env::current_exe().unwrap())
        .arg("bchild").arg(&pp).arg(&dir)
        .env("LD_PRELOAD", shim_so)
        .env("FSSHIM_PREFIX", dir.to_str().unwrap())
        .env("RUST_LOG", "off")
        .stderr(std::process::Stdio::null())
        .output().ok()?;
    let _ = std::fs::remove_dir_all(&dir);
    let _ = std::fs::remove_file(&pp);
    let s = String::from_utf8_lossy(&o.stdout);
    s.lines().last().and_then(|l| serde_json::from_str(l).ok())
}

/// The property over observations: invalid items fail and change nothing (live, after restart);
/// valid items are loaded; nothing else moves.
pub fn boracle(p: &BPlan, o: &BOut) -> Option<String> {
    if !o.started { return Some("tiered engine did not start on an empty directory".into()) }
    if o.first != Some((p.first.len() as u64, 0)) { return Some(format!("first (valid) bulk load reported {:?}", o.first)) }
    let invalid = p.second.iter().filter(|x| !x.2.is_empty()).count() as u64;
    let valid = p.second.len() as u64 - invalid;
    if o.second != Some((valid, invalid)) { return Some(format!("second bulk load reported {:?}, expected loaded {} failed {}", o.second, valid, invalid)) }
    // expected live state: first, overwritten by the VALID items of the second load only
    let mut expect = o.live_first.clone();
    for (id, _, label) in &p.second {
        if label.is_empty() {
            match o.live_second.get(id) { Some(v) => { expect.insert(*id, v.clone()); } None => return Some(format!("valid bulk item {} is not live", id)) }
        }
    }
    if o.live_second != expect { return Some("an invalid bulk item changed the live collection".into()) }
    if !o.restart_ok { return Some(format!("restart failed: {}", o.restart_err.clone().unwrap_or_default().chars().take(160).collect::<String>())) }
    if o.after_restart != o.live_second { return Some("collection after restart differs from the live collection after a bulk load with invalid items".into()) }
    None
}

pub fn gen_bplans(rng: &mut Rng, n: usize, special: &dyn Fn(usize, &str) -> Vec<(String, Vec<u32>)>) -> Vec<BPlan> {
    let mut plans = vec![];
    for k in 0..n {
        let mut r = rng.fork(0xB0_0000 + k as u64);
        let mut cfg = gen_cfg(&mut r, "always");
        cfg.capacity = if k % 5 == 4 { 3 } else { 64 };
        let nfirst = if cfg.capacity == 3 { 3 } else { r.range(2, 4) as usize };
        let first: Vec<(u64, Vec<f32>)> = (1..=nfirst as u64).map(|id| (id, gen_vec(&mut r, cfg.dim))).collect();
        let sv = special(cfg.dim, &cfg.metric);
        let mut second = vec![];
        let mut kinds = vec![];
        for _ in 0..r.range(2, 4) {
            let id = r.range(1, nfirst as u64 + 1);
            if cfg.capacity == 3 {
                // index full: every further item (valid vector!) must fail without effect
                second.push((id, bits(&gen_vec(&mut r, cfg.dim)), "index-full".to_string()));
                kinds.push("index-full".to_string());
            } else if r.chance(2, 3) {
                let (label, b) = r.pick(&sv).clone();
                // a huge but finite vector is a VALID euclidean document (only normalisation overflows)
                let label = if label == "overflowing" && cfg.metric == "euclidean" { String::new() } else { label };
                if !label.is_empty() { kinds.push(label.clone()) }
                second.push((id, b, label));
            } else if !second.iter().any(|x: &(u64, Vec<u32>, String)| x.0 == id) {
                second.push((id, bits(&gen_vec(&mut r, cfg.dim)), String::new()));
            }
        }
        // an id must not appear twice when one occurrence is valid (keeps the expectation simple)
        let mut seen_valid = std::collections::HashSet::new();
        for x in &second { if x.2.is_empty() { seen_valid.insert(x.0); } }
        second.retain(|x| x.2.is_empty() || !seen_valid.contains(&x.0));
        kinds.sort(); kinds.dedup();
        plans.push(BPlan { cfg, first, second, kind: format!("bulk:{}", kinds.join("+")) });
    }
    plans
}
