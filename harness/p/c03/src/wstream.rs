//! C03 writer-level correspondence stream: the REAL `WalWriter` (created with the error handler
//! exactly as `HnswBackend` constructs it) is driven in a child process under the fsshim with seeded
//! fault specs; what every system call actually returned (the shim's log) is translated into the
//! model's fault oracle, and `Model/WalWriter.v` is run against the observations inside coqc.
use kvh::rng::Rng;
use kvh_pers::{shim, vfs};
use kyrodb_engine::circuit_breaker::CircuitState;
use kyrodb_engine::persistence::WalErrorHandler;
use kyrodb_engine::{FsyncPolicy, MetricsCollector, WalEntry, WalOp, WalReader, WalWriter};
use serde::{Deserialize, Serialize};
use serde_json::json;
use std::collections::{BTreeMap, HashMap};
use std::path::Path;
use std::process::Command;
use std::sync::Arc;

pub const KNOWN_CLASS: &str = "C03-rollback-failed-after-complete-frame";

#[derive(Clone, Debug, Serialize, Deserialize)]
pub struct WEntry {
    pub op: u8, // 0 insert, 1 delete, 2 update-metadata
    pub id: u64,
    pub emb: Vec<f32>,
    pub meta: BTreeMap<String, String>,
    pub seq: u64,
}

#[derive(Clone, Debug, Serialize, Deserialize)]
pub struct WCall {
    pub entries: Vec<WEntry>,
    pub batch: bool,
    /// fsshim fault spec armed (after a counter reset) for this call only
    pub fault: String,
}

#[derive(Clone, Debug, Serialize, Deserialize)]
pub struct WPlan {
    pub policy: String, // "always" | "periodic:0" | "never"
    pub calls: Vec<WCall>,
    pub kind: String,
}

#[derive(Clone, Debug, Serialize, Deserialize)]
pub struct WObs {
    pub err: Option<String>,
    pub file: Vec<u8>,
    pub bytes_written: u64,
    pub entry_count: u64,
    pub breaker_open: bool,
    pub payloads: Vec<Vec<u8>>,
    /// WalReader::open + read_all on the file after the call: (entries, corrupted)
    pub reader: Option<(u64, u64)>,
}

#[derive(Clone, Debug, Serialize, Deserialize, Default)]
pub struct WChildOut {
    pub created: bool,
    pub obs: Vec<WObs>,
}

fn policy_of(s: &str) -> FsyncPolicy {
    match s {
        "always" => FsyncPolicy::Always,
        "never" => FsyncPolicy::Never,
        _ => FsyncPolicy::Periodic(0),
    }
}

fn entry_of(e: &WEntry) -> WalEntry {
    WalEntry {
        op: match e.op { 0 => WalOp::Insert, 1 => WalOp::Delete, _ => WalOp::UpdateMetadata },
        doc_id: e.id,
        embedding: e.emb.clone(),
        metadata: e.meta.clone().into_iter().collect::<HashMap<_, _>>(),
        seq_no: e.seq,
        timestamp: 1_700_000_000,
    }
}

pub fn wchild(plan_path: &str, dir: &str) {
    let p: WPlan = serde_json::from_str(&std::fs::read_to_string(plan_path).unwrap()).unwrap();
    let path = Path::new(dir).join("wal_1.wal");
    let mut out = WChildOut::default();
    // exactly as hnsw_backend.rs constructs it (with_persistence / recover / rotate)
    let handler = Arc::new(WalErrorHandler::with_metrics(MetricsCollector::new()));
    let mut w = match WalWriter::create_with_error_handler(&path, policy_of(&p.policy), Some(Arc::clone(&handler))) {
        Ok(w) => w,
        Err(_) => { println!("{}", serde_json::to_string(&out).unwrap()); return }
    };
    out.created = true;
    for (i, c) in p.calls.iter().enumerate() {
        let entries: Vec<WalEntry> = c.entries.iter().map(entry_of).collect();
        let payloads: Vec<Vec<u8>> = entries.iter().map(|e| bincode::serialize(e).unwrap()).collect();
        shim::reset();
        shim::set_fault(&c.fault);
        shim::mark(&format!("call {}", i));
        let r = if c.batch { w.append_batch(&entries) } else { w.append(&entries[0]) };
        shim::set_fault("");
        shim::mark(&format!("end {}", i));
        let file = std::fs::read(&path).unwrap_or_default();
        let reader = WalReader::open(&path).ok().and_then(|mut r| {
            let es = r.read_all().ok()?;
            Some((es.len() as u64, r.corrupted_entries() as u64))
        });
        out.obs.push(WObs {
            err: r.err().map(|e| format!("{:#}", e)),
            file,
            bytes_written: w.bytes_written(),
            entry_count: w.entry_count() as u64,
            breaker_open: handler.circuit_breaker().state() == CircuitState::Open,
            payloads,
            reader,
        });
    }
    println!("{}", serde_json::to_string(&out).unwrap());
}

/// One system call on the segment as the shim saw it.
#[derive(Clone, Debug, Serialize, Deserialize)]
pub struct Sys {
    pub kind: String,
    pub len: i64,
    pub ret: i64,
    pub errno: i64,
}

pub struct WRun {
    pub out: WChildOut,
    /// per call: the system calls issued during it
    pub sys: Vec<Vec<Sys>>,
}

pub fn run_wchild(p: &WPlan, work: &Path, tag: &str, shim_so: &str) -> Option<WRun> {
    let dir = work.join(format!("{}_data", tag));
    let _ = std::fs::remove_dir_all(&dir);
    std::fs::create_dir_all(&dir).unwrap();
    let pp = work.join(format!("{}_plan.json", tag));
    let log = work.join(format!("{}.log", tag));
    let _ = std::fs::remove_file(&log);
    std::fs::write(&pp, serde_json::to_string(p).unwrap()).unwrap();
    let o = Command::new(std::env::current_exe().unwrap())
        .arg("wchild").arg(&pp).arg(&dir)
        .env("LD_PRELOAD", shim_so)
        .env("FSSHIM_PREFIX", dir.to_str().unwrap())
        .env("FSSHIM_LOG", log.to_str().unwrap())
        .env("RUST_LOG", "off")
        .stderr(std::process::Stdio::null())
        .output().ok()?;
    let s = String::from_utf8_lossy(&o.stdout);
    let out: Option<WChildOut> = s.lines().last().and_then(|l| serde_json::from_str(l).ok());
    let tr = vfs::parse(&log, dir.to_str().unwrap());
    let _ = std::fs::remove_dir_all(&dir);
    let _ = std::fs::remove_file(&pp);
    let _ = std::fs::remove_file(&log);
    let out = out?;
    let mut sys = vec![];
    for i in 0..p.calls.len() {
        let a = tr.markers.iter().find(|m| m.text == format!("call {}", i)).map(|m| m.after);
        let b = tr.markers.iter().find(|m| m.text == format!("end {}", i)).map(|m| m.after);
        let mut v = vec![];
        if let (Some(a), Some(b)) = (a, b) {
            for ev in &tr.evs[a..b.min(tr.evs.len())] {
                if !ev.path.ends_with(".wal") { continue }
                if !matches!(ev.kind.as_str(), "write" | "fsync" | "fdatasync" | "ftruncate") { continue }
                // a `:0` partial is logged twice by the shim (short ret=0, then the error): keep the error
                if ev.kind == "write" && ev.short && ev.ret <= 0 { continue }
                v.push(Sys { kind: ev.kind.clone(), len: ev.len, ret: ev.ret, errno: ev.errno });
            }
        }
        sys.push(v);
    }
    Some(WRun { out, sys })
}

// ------------------------------------------------------------------------------------------------
// translation into Gallina
// ------------------------------------------------------------------------------------------------
fn errno_name(e: i64) -> &'static str {
    match e { 28 => "ENOSPC", 5 => "EIO", 122 => "EDQUOT", 4 => "EINTR", 13 => "EACCES", _ => "EOTHER" }
}

pub fn sysres(s: &Sys) -> String {
    if s.ret < 0 { return format!("SErr {}", errno_name(s.errno)) }
    if s.kind == "write" && s.ret < s.len { return format!("SShort {}", s.ret) }
    "SOk".to_string()
}

fn call_code(k: &str) -> u64 {
    match k { "write" => 1, "fsync" => 2, "fdatasync" => 3, _ => 4 }
}

pub fn result_code(err: &Option<String>) -> u64 {
    match err {
        None => 0,
        Some(e) => {
            if e.contains("circuit breaker is open") { 1 }
            else if e.starts_with("Disk full") { 2 }
            else if e.starts_with("Permission denied: ") { 3 }
            else if e.contains("is poisoned") { 4 }
            else { 5 }
        }
    }
}

fn bytes_lit(b: &[u8]) -> String {
    let parts: Vec<String> = b.iter().map(|x| x.to_string()).collect();
    format!("[{}]", parts.join(";"))
}

fn policy_lit(s: &str) -> &'static str {
    match s { "always" => "PAlways", "never" => "PNever", _ => "PPeriodic0" }
}

/// Gallina terms for one plan: (ops, oracle, observed, calls, reader observations)
pub fn case_lit(id: usize, p: &WPlan, r: &WRun) -> String {
    let mut ops = vec![];
    let mut obs = vec![];
    let mut rds = vec![];
    for (c, o) in p.calls.iter().zip(r.out.obs.iter()) {
        let pl: Vec<String> = o.payloads.iter().map(|b| bytes_lit(b)).collect();
        ops.push(if c.batch { format!("WBatch [{}]", pl.join(";")) } else { format!("WAppend {}", pl[0]) });
        obs.push(format!("({},{},{},{},{})", result_code(&o.err), bytes_lit(&o.file), o.bytes_written, o.entry_count, if o.breaker_open { "true" } else { "false" }));
        rds.push(match o.reader { Some((n, c)) => format!("Some ({},{})", n, c), None => "None".to_string() });
    }
    let orc: Vec<String> = r.sys.iter().flatten().map(sysres).collect();
    let calls: Vec<String> = r.sys.iter().flatten().map(|s| call_code(&s.kind).to_string()).collect();
    format!("({}, mkC {} [{}] [{}] [{}] [{}] [{}])", id, policy_lit(&p.policy), ops.join(";"), orc.join(";"), obs.join(";"), calls.join(";"), rds.join(";"))
}

pub fn cases_file(body: &[String]) -> String {
    format!("From Coq Require Import List NArith Bool.\nFrom Kyro Require Import Model.WalBytes Proofs.WalBytesProofs Model.WalWriter Proofs.WalWriterProofs.\nImport ListNotations.\nOpen Scope N_scope.\n\
Record wcase := mkC {{ c_pol : policy; c_ops : list wop; c_orc : oracle; c_obs : list wobs; c_calls : list N; c_rd : list (option (N * N)) }}.\n\
(* model of WalWriter vs the real writer: per-call result class, file bytes, counters, breaker, sequence of system calls *)\n\
Definition ok (c : wcase) : bool := plan_ok crc32m (c_pol c) (c_ops c) (c_orc c) (c_obs c) (c_calls c).\n\
(* model of WalReader::read_all on the OBSERVED file after each call vs what the real reader returned *)\n\
Definition rd1 (o : wobs) (r : option (N * N)) : bool := let '(_, f, _, _, _) := o in\n  match read_all crc32m (fun _ => true) f, r with\n  | Some (es, c), Some (n, c') => (N.of_nat (length es) =? n) && (c =? c')\n  | None, None => true | _, _ => false end.\n\
Fixpoint rdl (os : list wobs) (rs : list (option (N * N))) : bool := match os, rs with [], [] => true | o :: os', r :: rs' => rd1 o r && rdl os' rs' | _, _ => false end.\n\
(* payload header = bincode prefix assumed by the engine layer of the model: every observed payload decodes *)\n\
Definition hdr_ok (c : wcase) : bool := forallb (fun o => forallb (fun p => match dec p with Some (t, _) => t <? 3 | None => false end) (wpayloads o)) (c_ops c).\n\
Definition known (c : wcase) : bool := any_known crc32m (c_pol c) init (c_ops c) (c_orc c).\n\
Definition cases : list (N * wcase) := [\n {}\n].\n\
Definition bad : list N := map fst (filter (fun c => negb (ok (snd c) && rdl (c_obs (snd c)) (c_rd (snd c)) && hdr_ok (snd c))) cases).\n\
Definition knowns : list N := map fst (filter (fun c => known (snd c)) cases).\n\
Goal True. idtac \"@@bad\". Abort.\nEval vm_compute in bad.\nGoal True. idtac \"@@known\". Abort.\nEval vm_compute in knowns.\nGoal True. idtac \"@@count\". Abort.\nEval vm_compute in (N.of_nat (length cases)).\n", body.join(";\n "))
}

// ------------------------------------------------------------------------------------------------
// direct property oracle at the writer level (implementation observations only)
// ------------------------------------------------------------------------------------------------
/// Returns (why, class) for the first call that violates the property.
pub fn woracle(p: &WPlan, r: &WRun) -> Option<(String, Option<String>)> {
    if !r.out.created || r.out.obs.len() != p.calls.len() { return Some(("writer could not be created / child incomplete".into(), None)) }
    let mut entries = 0u64; // what the real reader returned before the call
    let mut poisoned_seen = false;
    for (i, (c, o)) in p.calls.iter().zip(r.out.obs.iter()).enumerate() {
        let (n, corrupted) = match o.reader { Some(x) => x, None => return Some((format!("segment unreadable after call {}", i), None)) };
        if corrupted != 0 { return Some((format!("strict reader reports {} corrupted frames after call {}", corrupted, i), None)) }
        if o.err.is_none() {
            if poisoned_seen { return Some((format!("call {} acknowledged after a failed rollback", i), None)) }
            if n != entries + c.entries.len() as u64 { return Some((format!("acknowledged call {}: reader returns {} entries, expected {}", i, n, entries + c.entries.len() as u64), None)) }
        } else if n != entries {
            // the recorded class, tightly: this call's rollback (ftruncate / its fdatasync) failed while >= 1
            // complete frame of this very call was in the file; only a prefix of ITS entries appeared
            let rollback_failed = r.sys[i].iter().any(|s| (s.kind == "ftruncate" || s.kind == "fdatasync") && s.ret < 0 && s.errno != 4);
            let prefix = n > entries && n <= entries + c.entries.len() as u64;
            let class = if rollback_failed && prefix { Some(KNOWN_CLASS.to_string()) } else { None };
            return Some((format!("failed call {} changed what the reader returns: {} -> {} entries", i, entries, n), class));
        }
        if o.err.as_deref().map(|e| e.contains("is poisoned") || e.contains("rollback to offset")).unwrap_or(false) { poisoned_seen = true }
        entries = n;
    }
    None
}

// ------------------------------------------------------------------------------------------------
// generator
// ------------------------------------------------------------------------------------------------
const ERRNOS: [&str; 5] = ["ENOSPC", "EIO", "EDQUOT", "EINTR", "EACCES"];

fn gen_entry(r: &mut Rng, seq: &mut u64, op: Option<u8>) -> WEntry {
    *seq += 1;
    let op = op.unwrap_or_else(|| *r.pick(&[0u8, 0, 0, 1, 2]));
    let id = r.range(1, 5);
    let emb: Vec<f32> = if op == 0 { (0..r.range(1, 2)).map(|_| *r.pick(&[0.5f32, -1.0, 2.0, 0.25])).collect() } else { vec![] };
    let mut meta = BTreeMap::new();
    if op != 1 && r.chance(1, 2) { meta.insert(r.pick(&["k", "c"]).to_string(), r.pick(&["a", "", "red"]).to_string()); }
    WEntry { op, id, emb, meta, seq: *seq }
}

fn clean_call(r: &mut Rng, seq: &mut u64) -> WCall {
    if r.chance(1, 4) {
        let k = r.range(2, 3);
        WCall { entries: (0..k).map(|_| gen_entry(r, seq, Some(1))).collect(), batch: true, fault: String::new() }
    } else {
        WCall { entries: vec![gen_entry(r, seq, None)], batch: false, fault: String::new() }
    }
}

/// The fault grid for ONE call: (label, spec). `shape` = number of frames of the call.
pub fn fault_grid(policy: &str, shape: usize) -> Vec<(String, String)> {
    let mut primaries: Vec<(String, String, bool)> = vec![]; // (label, spec with {E}, is the failure in the sync?)
    for n in 1..=3usize {
        for partial in ["", ":0", ":1", ":5", ":17"] {
            primaries.push((format!("write{}{}", n, partial), format!("write:{}:{{E}}{}", n, partial), false));
        }
    }
    match policy {
        "always" => primaries.push(("fsync1".into(), "fsync:1:{E}".into(), true)),
        "never" => {}
        _ => primaries.push(("fdatasync1".into(), "fdatasync:1:{E}".into(), true)),
    }
    // persistent write failure (outlives the 5 retries)
    primaries.push(("write-persistent".into(), (1..=7).map(|n| format!("write:{}:{{E}}", n)).collect::<Vec<_>>().join(","), false));
    let _ = shape;
    let mut out = vec![];
    for (pl, ps, in_sync) in &primaries {
        for e in ERRNOS {
            let p = ps.replace("{E}", e);
            out.push((format!("{}:{}", pl, e), p.clone()));
            for e2 in ERRNOS {
                // rollback faults: the ftruncate, or the fdatasync that follows it
                out.push((format!("{}:{}+ftruncate:{}", pl, e, e2), format!("{},ftruncate:1:{}", p, e2)));
                let k = if *in_sync && policy != "always" { 2 } else { 1 };
                out.push((format!("{}:{}+rollback-fdatasync:{}", pl, e, e2), format!("{},fdatasync:{}:{}", p, k, e2)));
            }
        }
    }
    out
}

pub fn gen_wplans(rng: &mut Rng, n: usize, thorough: bool) -> Vec<WPlan> {
    let mut plans = vec![];
    let policies = ["always", "always", "periodic:0", "never"];
    let mk = |r: &mut Rng, policy: &str, shape: usize, label: &str, spec: &str| -> WPlan {
        let mut seq = 0u64;
        let mut calls = vec![];
        if r.chance(3, 4) { calls.push(clean_call(r, &mut seq)) }
        let faulted = if shape == 1 {
            WCall { entries: vec![gen_entry(r, &mut seq, None)], batch: r.chance(1, 5), fault: spec.to_string() }
        } else {
            WCall { entries: (0..shape).map(|_| gen_entry(r, &mut seq, Some(1))).collect(), batch: true, fault: spec.to_string() }
        };
        calls.push(faulted);
        calls.push(clean_call(r, &mut seq));
        if r.chance(1, 2) { calls.push(clean_call(r, &mut seq)) }
        WPlan { policy: policy.to_string(), calls, kind: format!("{}|{}f|{}", policy, shape, label) }
    };
    if thorough {
        for policy in ["always", "periodic:0", "never"] {
            for shape in 1..=3usize {
                for (label, spec) in fault_grid(policy, shape) {
                    let mut r = rng.fork(plans.len() as u64);
                    { let pl = mk(&mut r, policy, shape, &label, &spec); plans.push(pl); }
                }
            }
        }
    } else {
        for k in 0..n {
            let mut r = rng.fork(k as u64);
            let policy = *r.pick(&policies);
            let shape = *r.pick(&[1usize, 1, 2, 3]);
            let grid = fault_grid(policy, shape);
            // bias: half of the plans pair a late failure (sync, or a write after a complete frame)
            // with a rollback fault, so that the recorded class is exercised on every run
            let late: Vec<&(String, String)> = grid.iter().filter(|(l, _)| l.contains('+') && (l.starts_with("fsync1") || l.starts_with("fdatasync1") || (shape > 1 && (l.starts_with("write2") || l.starts_with("write3"))))).collect();
            let (label, spec) = if !late.is_empty() && k % 4 == 0 { (*r.pick(&late)).clone() } else { r.pick(&grid).clone() };
            { let pl = mk(&mut r, policy, shape, &label, &spec); plans.push(pl); }
        }
    }
    // breaker plans: consecutive permission failures open the breaker at the third; disk full opens at once
    let nb = if thorough { 12 } else { 4 };
    for k in 0..nb {
        let mut r = rng.fork(0xB00 + k as u64);
        let mut seq = 0u64;
        let e = if k % 2 == 0 { "EACCES" } else { *r.pick(&["EIO", "EDQUOT", "ENOSPC"]) };
        let spec = (1..=7).map(|n| format!("write:{}:{}", n, e)).collect::<Vec<_>>().join(",");
        let mut calls = vec![clean_call(&mut r, &mut seq)];
        for j in 0..4 {
            let mut c = clean_call(&mut r, &mut seq);
            if j < 3 { c.fault = spec.clone() }
            calls.push(c);
        }
        plans.push(WPlan { policy: "always".into(), calls, kind: format!("always|breaker|{}", e) });
    }
    plans
}

pub fn shrink_summary(p: &WPlan, r: &WRun) -> serde_json::Value {
    json!({
        "plan": p,
        "observed": r.out.obs.iter().map(|o| json!({"err": o.err, "file_len": o.file.len(), "bytes_written": o.bytes_written, "entry_count": o.entry_count, "breaker_open": o.breaker_open, "reader": o.reader})).collect::<Vec<_>>(),
        "syscalls": r.sys,
    })
}
