//! C03 driver: a write that reports failure changes nothing, now or after restart.
//!
//!   c03 child <plan.json> <dir>     run one plan under the LD_PRELOAD fsshim; prints one JSON line
//!   c03 --out DIR --n N [--tier T]  generate plans (history x failing position x invalid input class
//!                                   or storage fault), run each in a child process, check the oracle
//!   c03 --out DIR --replay FILE     (engine plan, writer plan {"wplan":..} or bulk plan {"bplan":..})
//!   c03 wchild|bchild <plan> <dir>  children of the writer-level correspondence stream / bulk-load stream
//! Streams: (1) engine-level direct property oracle (plans above); (2) writer-level correspondence:
//! the real WalWriter under seeded faults vs Model/WalWriter.v, compared inside coqc (cases_<k>.v);
//! (3) TieredEngine::bulk_load_cold_tier with invalid items.
mod bulk;
mod seg;
mod wstream;
use kvh::rng::Rng;
use kvh_pers::eng;
use kvh_pers::hist::*;
use kvh_pers::shim;
use serde::{Deserialize, Serialize};
use serde_json::json;
use std::collections::BTreeMap;
use std::path::{Path, PathBuf};
use std::process::Command;
use std::sync::Mutex;

const SHIM: &str = "/verif/shims/fsshim.so";

#[derive(Clone, Debug, Serialize, Deserialize)]
struct Plan {
    hist: History,
    /// index of the operation during which the fault plan is armed (None: input-class plan only)
    fault_at: Option<usize>,
    /// fsshim fault spec, e.g. "write:1:ENOSPC:5,ftruncate:1:EIO"
    fault: String,
    kind: String, // human label of the plan
}

#[derive(Clone, Debug, Serialize, Deserialize)]
struct StepObs {
    out: Out,
    live: Census,
}

#[derive(Clone, Debug, Serialize, Deserialize)]
struct ChildOut {
    started: bool,
    steps: Vec<StepObs>,
    degraded_after: Vec<bool>,
    restart_ok: bool,
    restart_err: Option<String>,
    after_restart: Census,
    effects_in_faulted_op: i64,
}

fn child(plan_path: &str, dir: &str) {
    let p: Plan = serde_json::from_str(&std::fs::read_to_string(plan_path).unwrap()).unwrap();
    let dirp = Path::new(dir);
    let mut out = ChildOut { started: false, steps: vec![], degraded_after: vec![], restart_ok: false, restart_err: None, after_restart: Census::new(), effects_in_faulted_op: -1 };
    let mut be = match eng::start(&p.hist.cfg, dirp) {
        Ok(b) => Some(b),
        Err(_) => { println!("{}", serde_json::to_string(&out).unwrap()); return }
    };
    out.started = true;
    for (i, op) in p.hist.ops.iter().enumerate() {
        let armed = p.fault_at == Some(i) && !p.fault.is_empty();
        if armed { shim::reset(); shim::set_fault(&p.fault); }
        let o = eng::apply(&mut be, &p.hist.cfg, dirp, op);
        if armed { out.effects_in_faulted_op = shim::count(); shim::set_fault(""); }
        if armed && matches!(op, Op::Restart) && be.is_none() {
            // a start-up refused under an injected fault: the operator starts again (no fault now)
            be = eng::start(&p.hist.cfg, dirp).ok();
        }
        let live = be.as_ref().map(eng::census).unwrap_or_default();
        out.degraded_after.push(be.as_ref().map(|b| b.is_wal_inconsistent()).unwrap_or(false));
        out.steps.push(StepObs { out: o, live });
    }
    drop(be);
    match eng::start(&p.hist.cfg, dirp) {
        Ok(b) => { out.restart_ok = true; out.after_restart = eng::census(&b); }
        Err(e) => { out.restart_err = Some(format!("{:#}", e)); }
    }
    println!("{}", serde_json::to_string(&out).unwrap());
}

fn run_child(p: &Plan, work: &Path, tag: &str) -> Option<ChildOut> {
    let dir = work.join(format!("{}_data", tag));
    let _ = std::fs::remove_dir_all(&dir);
    std::fs::create_dir_all(&dir).unwrap();
    let pp = work.join(format!("{}_plan.json", tag));
    std::fs::write(&pp, serde_json::to_string(p).unwrap()).unwrap();
    let o = Command::new(std::env::current_exe().unwrap())
        .arg("child").arg(&pp).arg(&dir)
        .env("LD_PRELOAD", SHIM)
        .env("FSSHIM_PREFIX", dir.to_str().unwrap())
        .env("RUST_LOG", "off")
        .stderr(std::process::Stdio::null())
        .output().ok()?;
    let _ = std::fs::remove_dir_all(&dir);
    let _ = std::fs::remove_file(&pp);
    let s = String::from_utf8_lossy(&o.stdout);
    s.lines().last().and_then(|l| serde_json::from_str(l).ok())
}

/// The property over observations only. Returns (why, class).
fn oracle(p: &Plan, c: &ChildOut) -> Option<(String, Option<String>)> {
    if !c.started { return Some(("engine did not start on an empty directory".into(), None)) }
    let mut shadow = Census::new();
    let mut failed_overwrite_nonfinite: Option<u64> = None;
    for (i, (op, st)) in p.hist.ops.iter().zip(c.steps.iter()).enumerate() {
        let before = shadow.clone();
        if eng::is_ok(&st.out) {
            // the stored (normalised) vector is whatever the live census shows for that id
            let stored = match op { Op::Insert { id, .. } | Op::InsertBits { id, .. } => st.live.get(id).map(|x| x.0.clone()), _ => None };
            shadow_apply(&mut shadow, op, stored);
            if matches!(op, Op::Restart | Op::Snapshot) { /* no content change */ }
        }
        if st.live != shadow {
            let what = if eng::is_ok(&st.out) { "after a successful operation the live collection differs from the specification" } else { "a failed operation changed the live collection" };
            return Some((format!("{} (op {} {:?} -> {:?})", what, i, op, st.out), None));
        }
        if let Out::Err(e) = &st.out {
            if let Op::InsertBits { id, .. } | Op::Insert { id, .. } = op {
                if before.contains_key(id) && e.starts_with("after-wal-append") { failed_overwrite_nonfinite = Some(*id) }
            }
        }
        let _ = before;
    }
    if !c.restart_ok {
        return Some((format!("restart after the history failed: {}", c.restart_err.clone().unwrap_or_default().chars().take(160).collect::<String>()), None));
    }
    if c.after_restart != shadow {
        // classification of recorded defect classes (specific input classes only)
        let mut class = None;
        if let Some(id) = failed_overwrite_nonfinite {
            let mut exp = shadow.clone();
            exp.remove(&id);
            if c.after_restart == exp && p.fault.is_empty() {
                class = Some("C03-index-rejects-after-wal-append".to_string());
            }
        }
        if class.is_none() {
            if let Some(alts) = phantom_alternatives(p, c) {
                if alts.iter().any(|a| *a == c.after_restart) { class = Some(wstream::KNOWN_CLASS.to_string()) }
            }
        }
        return Some(("collection recovered after restart differs from the acknowledged operations".into(), class));
    }
    None
}

/// Recorded class C03-rollback-failed-after-complete-frame, tightly: the plan injects a rollback fault
/// (ftruncate or fdatasync) on one operation, that operation reported failure, every later operation
/// failed too (poisoned writer), and the collection after restart is the specification plus a
/// NON-EMPTY PREFIX of that operation's own log entries.  Returns the admissible restart states.
fn phantom_alternatives(p: &Plan, c: &ChildOut) -> Option<Vec<Census>> {
    let at = p.fault_at?;
    if !(p.fault.contains("ftruncate:") || p.fault.contains("fdatasync:")) { return None }
    if p.hist.cfg.metric != "euclidean" { return None }
    if eng::is_ok(&c.steps.get(at)?.out) { return None }
    if c.steps.iter().enumerate().skip(at + 1).any(|(i, s)| eng::is_ok(&s.out) && !matches!(s.out, Out::OkBool(false) | Out::OkCount(0)) && !matches!(p.hist.ops[i], Op::Snapshot)) { return None }
    if p.hist.ops.iter().skip(at).any(|o| matches!(o, Op::Restart)) { return None }
    // specification state before the faulted operation = live census observed after it (unchanged by failures)
    let before = c.steps[at].live.clone();
    let mut alts = vec![];
    match &p.hist.ops[at] {
        op @ (Op::Insert { .. } | Op::InsertBits { .. } | Op::UpdateMeta { .. }) => { let mut a = before.clone(); shadow_apply(&mut a, op, None); alts.push(a) }
        Op::Delete { id } => { let mut a = before.clone(); a.remove(id); alts.push(a) }
        Op::BatchDelete { ids } => {
            let mut a = before.clone();
            for id in ids { if a.remove(id).is_some() { alts.push(a.clone()) } }
        }
        _ => {}
    }
    alts.retain(|a| *a != before);
    Some(alts)
}

fn special_vectors(dim: usize, metric: &str) -> Vec<(String, Vec<u32>)> {
    let f = |v: Vec<f32>| v.iter().map(|x| x.to_bits()).collect::<Vec<u32>>();
    let mut out = vec![];
    let mut nan = vec![1.0f32; dim]; nan[0] = f32::NAN; out.push(("non-finite-nan".to_string(), f(nan)));
    let mut inf = vec![1.0f32; dim]; inf[dim - 1] = f32::INFINITY; out.push(("non-finite-inf".to_string(), f(inf)));
    out.push(("wrong-dimension".to_string(), f(vec![1.0f32; dim + 1])));
    if dim > 1 { out.push(("wrong-dimension-short".to_string(), f(vec![1.0f32; dim - 1]))); }
    out.push(("overflowing".to_string(), f(vec![3.0e38f32; dim])));
    if metric != "euclidean" {
        out.push(("zero-norm".to_string(), f(vec![0.0f32; dim])));
        out.push(("tiny-norm".to_string(), f(vec![1.0e-30f32; dim])));
    }
    out
}

fn gen_plans(rng: &mut Rng, n: usize, tier: &str) -> Vec<Plan> {
    let errnos = ["ENOSPC", "EIO", "EDQUOT", "EINTR", "EACCES"];
    let mut plans = vec![];
    for k in 0..n {
        let mut r = rng.fork(k as u64);
        let mut cfg = gen_cfg(&mut r, "always");
        if k % 4 == 3 { cfg.capacity = 2 } // index-full class
        // every 9th plan pairs a LATE failure (the fsync after a complete frame, or a write after the
        // first frame of a batch) with a fault in the engine's rollback: the recorded class
        let late_double = k % 3 == 1 && (k / 3) % 3 == 0;
        if late_double { cfg.metric = "euclidean".into(); cfg.capacity = 64 }
        let gp = GenParams { max_ops: 9, allow_restart: k % 5 == 0 && !late_double, ..Default::default() };
        let h = gen_history(&mut r, cfg.clone(), &gp);
        let pos = r.below(h.ops.len() as u64) as usize;
        match k % 3 {
            0 => {
                // invalid-input class at `pos` (replaces the op there), on an id that often exists
                let sv = special_vectors(cfg.dim, &cfg.metric);
                let (label, b) = r.pick(&sv).clone();
                let mut h2 = h.clone();
                let id = match h.ops.iter().take(pos).filter_map(|o| if let Op::Insert { id, .. } = o { Some(*id) } else { None }).last() { Some(i) if r.chance(3, 4) => i, _ => r.range(1, 5) };
                h2.ops[pos] = Op::InsertBits { id, bits: b, meta: gen_meta(&mut r) };
                plans.push(Plan { hist: h2, fault_at: None, fault: String::new(), kind: format!("input:{}", label) });
            }
            _ => {
                // arm the fault on an operation that performs I/O (insert / live delete / snapshot ...)
                let io_pos: Vec<usize> = h.ops.iter().enumerate().filter(|(_, o)| matches!(o, Op::Insert { .. } | Op::Snapshot | Op::Restart | Op::BatchDelete { .. } | Op::Delete { .. } | Op::UpdateMeta { .. })).map(|(i, _)| i).collect();
                let pos = if io_pos.is_empty() { pos } else { *r.pick(&io_pos) };
                let kinds = ["write", "write", "write", "fsync", "fdatasync", "ftruncate", "rename", "open"];
                let kind = *r.pick(&kinds);
                let e = *r.pick(&errnos);
                let pos = if late_double {
                    // prefer an operation that logs something: insert, or a batch delete
                    let c: Vec<usize> = h.ops.iter().enumerate().filter(|(_, o)| matches!(o, Op::Insert { .. } | Op::BatchDelete { .. })).map(|(i, _)| i).collect();
                    if c.is_empty() { pos } else { *r.pick(&c) }
                } else { pos };
                let spec = if late_double {
                    let e2 = *r.pick(&["ENOSPC", "EIO", "EDQUOT", "EACCES"]);
                    let e1 = *r.pick(&["ENOSPC", "EIO", "EDQUOT", "EACCES"]);
                    let rb = if r.chance(3, 4) { format!("ftruncate:1:{}", e2) } else { format!("fdatasync:1:{}", e2) };
                    match (&h.ops[pos], r.below(3)) {
                        (Op::BatchDelete { .. }, 0 | 1) => format!("write:2:{},{}", e1, rb),
                        (_, 2) => format!("write:1:{}:{},write:2:{},{}", e1, r.pick(&[1u64, 5, 17]), e1, rb),
                        _ => format!("fsync:1:{},{}", e1, rb),
                    }
                } else { match r.below(6) {
                    // single fault on the n-th call
                    0 | 1 => format!("{}:{}:{}", kind, r.range(1, 3), e),
                    // persistent fault: the first 7 calls of that kind fail (outlives the retries)
                    2 | 3 => (1..=7).map(|n| format!("{}:{}:{}", kind, n, e)).collect::<Vec<_>>().join(","),
                    // short write, then failure of the continuation
                    4 => format!("write:1:{}:{},write:2:{},write:3:{},write:4:{},write:5:{},write:6:{},write:7:{},write:8:{}", e, r.pick(&[0u64, 1, 3, 5, 17]), e, e, e, e, e, e, e),
                    // double fault: the write fails persistently and so does the engine's rollback
                    _ => {
                        let w = (1..=7).map(|n| format!("write:{}:{}", n, e)).collect::<Vec<_>>().join(",");
                        let t = (1..=7).map(|n| format!("ftruncate:{}:{}", n, r.pick(&errnos))).collect::<Vec<_>>().join(",");
                        if tier == "thorough" || r.chance(1, 2) { format!("write:1:{}:{},{}", e, r.pick(&[1u64, 5, 17]), format!("{},{}", w.replacen("write:1:", "write:9:", 1), t)) } else { format!("{},{}", w, t) }
                    }
                } };
                plans.push(Plan { hist: h, fault_at: Some(pos), fault: spec.clone(), kind: format!("fault:{}", spec) });
            }
        }
    }
    plans
}

fn par_map<T: Sync, R: Send>(items: &[T], f: impl Fn(usize, &T) -> R + Sync) -> Vec<R> {
    let results: Mutex<Vec<(usize, R)>> = Mutex::new(vec![]);
    let next = std::sync::atomic::AtomicUsize::new(0);
    std::thread::scope(|s| {
        for _ in 0..16 {
            s.spawn(|| loop {
                let j = next.fetch_add(1, std::sync::atomic::Ordering::SeqCst);
                if j >= items.len() { break }
                let r = f(j, &items[j]);
                results.lock().unwrap().push((j, r));
            });
        }
    });
    let mut v = results.into_inner().unwrap();
    v.sort_by_key(|x| x.0);
    v.into_iter().map(|x| x.1).collect()
}

fn out_class(o: &Out) -> String {
    match o { Out::Err(e) => format!("err:{}", e.split(':').next().unwrap_or("")), Out::OkBool(false) | Out::OkCount(0) => "noop".into(), _ => "ok".into() }
}

fn main() {
    let args: Vec<String> = std::env::args().collect();
    if args.len() >= 4 && args[1] == "child" { child(&args[2], &args[3]); return }
    if args.len() >= 4 && args[1] == "wchild" { wstream::wchild(&args[2], &args[3]); return }
    if args.len() >= 4 && args[1] == "bchild" { bulk::bchild(&args[2], &args[3]); return }
    if args.len() >= 4 && args[1] == "schild" { seg::schild(&args[2], &args[3]); return }
    let mut out = String::from("/verif/.cache/run/C03");
    let (mut n, mut wn, mut bn) = (150usize, 240usize, 40usize);
    let (mut sh, mut scap) = (5usize, 60usize);
    let mut tier = String::from("quick");
    let mut replay: Option<String> = None;
    let mut i = 1;
    while i < args.len() {
        match args[i].as_str() {
            "--out" => { out = args[i + 1].clone(); i += 1 }
            "--n" => { n = args[i + 1].parse().unwrap(); i += 1 }
            "--wn" => { wn = args[i + 1].parse().unwrap(); i += 1 }
            "--bn" => { bn = args[i + 1].parse().unwrap(); i += 1 }
            "--sh" => { sh = args[i + 1].parse().unwrap(); i += 1 }
            "--scap" => { scap = args[i + 1].parse().unwrap(); i += 1 }
            "--tier" => { tier = args[i + 1].clone(); i += 1 }
            "--replay" => { replay = Some(args[i + 1].clone()); i += 1 }
            _ => {}
        }
        i += 1;
    }
    let work = PathBuf::from(&out);
    std::fs::create_dir_all(&work).unwrap();
    for f in std::fs::read_dir(&work).unwrap().flatten() { if f.file_name().to_string_lossy().starts_with("cases_") || f.file_name().to_string_lossy().starts_with("segcases_") { let _ = std::fs::remove_file(f.path()); } }
    let mut plans: Vec<Plan> = vec![];
    let mut wplans: Vec<wstream::WPlan> = vec![];
    let mut bplans: Vec<bulk::BPlan> = vec![];
    let mut splans: Vec<seg::SPlan> = vec![];
    if let Some(p) = &replay {
        let v: serde_json::Value = serde_json::from_str(&std::fs::read_to_string(p).unwrap()).unwrap();
        if v.get("wplan").is_some() { wplans.push(serde_json::from_value(v["wplan"].clone()).unwrap()) }
        else if v.get("bplan").is_some() { bplans.push(serde_json::from_value(v["bplan"].clone()).unwrap()) }
        else if v.get("splan").is_some() { splans.push(serde_json::from_value(v["splan"].clone()).unwrap()) }
        else {
            let pv = if v.get("plan").is_some() { v["plan"].clone() } else { v };
            plans.push(serde_json::from_value(pv).unwrap());
        }
    } else {
        if let Ok(rd) = std::fs::read_dir("/verif/corpus/C03") {
            let mut ps: Vec<_> = rd.filter_map(|e| e.ok()).map(|e| e.path()).collect();
            ps.sort();
            for p in ps {
                if let Ok(s) = std::fs::read_to_string(&p) {
                    if let Ok(v) = serde_json::from_str::<serde_json::Value>(&s) {
                        if v.get("wplan").is_some() { if let Ok(w) = serde_json::from_value(v["wplan"].clone()) { wplans.push(w) } }
                        else if v.get("bplan").is_some() { if let Ok(b) = serde_json::from_value(v["bplan"].clone()) { bplans.push(b) } }
                        else if v.get("splan").is_some() { if let Ok(b) = serde_json::from_value(v["splan"].clone()) { splans.push(b) } }
                        else if let Ok(pl) = serde_json::from_value::<Plan>(if v.get("plan").is_some() { v["plan"].clone() } else { v }) { plans.push(pl) }
                    }
                }
            }
        }
        let mut rng = Rng::from_env();
        plans.extend(gen_plans(&mut rng, n, &tier));
        let mut wrng = rng.fork(0x57);
        wplans.extend(wstream::gen_wplans(&mut wrng, wn, tier == "thorough"));
        let mut brng = rng.fork(0xB1);
        bplans.extend(bulk::gen_bplans(&mut brng, bn, &special_vectors));
        // stream 4: every single-fault position of rotation / snapshot heavy histories
        let mut srng = rng.fork(0x5E6);
        let hists: Vec<History> = (0..sh).map(|k| seg::gen_hist(&mut srng.fork(k as u64), k)).collect();
        let counts = par_map(&hists, |j, h| seg::effect_counts(&seg::SPlan { hist: h.clone(), fault_at: None, fault: String::new(), kind: "dry".into() }, &work, &format!("sd{}", j), SHIM));
        for (j, h) in hists.iter().enumerate() {
            if let Some(c) = &counts[j] { splans.extend(seg::plans_for(h, c, &mut srng.fork(1000 + j as u64), scap)) }
        }
        // the same plans also go through the direct property oracle of stream 1
        for sp in &splans {
            let at = match sp.fault_at { Some(a) if a >= 0 => Some(a as usize), None => None, _ => continue };
            plans.push(Plan { hist: sp.hist.clone(), fault_at: at, fault: sp.fault.clone(), kind: format!("fault:{}", sp.kind) });
        }
    }

    // ---------------- stream 1: engine-level direct property oracle ----------------
    let results = par_map(&plans, |j, p| run_child(p, &work, &format!("p{}", j)));
    let mut fails = vec![];
    let mut kinds: BTreeMap<String, u64> = BTreeMap::new();
    let mut outcome_hist: BTreeMap<String, u64> = BTreeMap::new();
    let mut errno_hist: BTreeMap<String, u64> = BTreeMap::new();
    let (mut fault_hit, mut op_failed) = (0u64, 0u64);
    let mut distinct = std::collections::HashSet::new();
    for (j, r) in results.iter().enumerate() {
        let p = &plans[j];
        *kinds.entry(p.kind.split(':').take(2).collect::<Vec<_>>().join(":")).or_insert(0) += 1;
        for e in ["ENOSPC", "EIO", "EDQUOT", "EINTR", "EACCES"] { if p.fault.contains(e) { *errno_hist.entry(e.to_string()).or_insert(0) += 1 } }
        match r {
            None => fails.push(json!({"stream": "engine", "plan_index": j, "why": "child produced no output (crash/abort)", "class": null, "plan": p})),
            Some(c) => {
                for st in &c.steps { *outcome_hist.entry(out_class(&st.out)).or_insert(0) += 1; }
                let failed_here = c.steps.iter().any(|s| !eng::is_ok(&s.out));
                if failed_here {
                    op_failed += 1;
                    distinct.insert(format!("E{:?}{:?}{:?}", p.hist.ops, p.fault, c.steps.iter().map(|s| out_class(&s.out)).collect::<Vec<_>>()));
                }
                if c.effects_in_faulted_op > 0 { fault_hit += 1 }
                if let Some((why, class)) = oracle(p, c) {
                    fails.push(json!({"stream": "engine", "plan_index": j, "why": why, "class": class, "plan": p, "observed": c}));
                }
            }
        }
    }

    // ---------------- stream 2: writer-level correspondence + writer-level oracle ----------------
    let wres = par_map(&wplans, |j, p| wstream::run_wchild(p, &work, &format!("w{}", j), SHIM));
    let mut wkinds: BTreeMap<String, u64> = BTreeMap::new();
    let mut wres_hist: BTreeMap<String, u64> = BTreeMap::new();
    let mut werrno: BTreeMap<String, u64> = BTreeMap::new();
    let (mut w_failed_call, mut w_sys) = (0u64, 0u64);
    let mut body: Vec<String> = vec![];
    let mut wall = vec![];
    let mut shards = 0usize;
    let names = ["acked", "breaker-open", "disk-full", "permission", "poisoned", "error"];
    for (j, r) in wres.iter().enumerate() {
        let p = &wplans[j];
        let kk: Vec<&str> = p.kind.split('|').collect();
        let lab = kk.get(2).map(|l| l.split(':').next().unwrap_or("").to_string() + if l.contains('+') { "+rollback-fault" } else { "" }).unwrap_or_default();
        *wkinds.entry(format!("{}|{}|{}", kk.first().unwrap_or(&""), kk.get(1).unwrap_or(&""), lab)).or_insert(0) += 1;
        match r {
            None => fails.push(json!({"stream": "writer", "plan_index": j, "why": "writer child produced no output (crash/abort)", "class": null, "wplan": p})),
            Some(run) => {
                let mut failed_here = false;
                for o in &run.out.obs { let c = wstream::result_code(&o.err); *wres_hist.entry(names[c as usize].to_string()).or_insert(0) += 1; if c != 0 { failed_here = true } }
                for s in run.sys.iter().flatten() { w_sys += 1; if s.ret < 0 { *werrno.entry(format!("{}:{}", s.kind, s.errno)).or_insert(0) += 1 } }
                if failed_here {
                    w_failed_call += 1;
                    distinct.insert(format!("W{}{:?}{:?}", p.policy, run.sys.iter().map(|v| v.iter().map(wstream::sysres).collect::<Vec<_>>()).collect::<Vec<_>>(), run.out.obs.iter().map(|o| wstream::result_code(&o.err)).collect::<Vec<_>>()));
                }
                if let Some((why, class)) = wstream::woracle(p, run) {
                    fails.push(json!({"stream": "writer", "plan_index": j, "why": why, "class": class, "wplan": p, "observed": wstream::shrink_summary(p, run)}));
                }
                body.push(wstream::case_lit(j, p, run));
                wall.push(json!({"id": j, "wplan": p}));
                if body.len() >= 40 {
                    std::fs::write(work.join(format!("cases_{}.v", shards)), wstream::cases_file(&body)).unwrap();
                    shards += 1;
                    body.clear();
                }
            }
        }
    }
    if !body.is_empty() { std::fs::write(work.join(format!("cases_{}.v", shards)), wstream::cases_file(&body)).unwrap(); shards += 1 }

    // ---------------- stream 3: bulk_load_cold_tier with invalid items ----------------
    let bres = par_map(&bplans, |j, p| bulk::run_bchild(p, &work, &format!("b{}", j), SHIM));
    let mut bkinds: BTreeMap<String, u64> = BTreeMap::new();
    let mut b_failed_item = 0u64;
    for (j, r) in bres.iter().enumerate() {
        let p = &bplans[j];
        for (_, _, l) in &p.second { if !l.is_empty() { *bkinds.entry(format!("bulk:{}", l)).or_insert(0) += 1 } }
        match r {
            None => fails.push(json!({"stream": "bulk", "plan_index": j, "why": "bulk child produced no output (crash/abort)", "class": null, "bplan": p})),
            Some(o) => {
                if o.second.map(|x| x.1 > 0).unwrap_or(false) { b_failed_item += 1; distinct.insert(format!("B{:?}{:?}", p.cfg, p.second)); }
                if let Some(why) = bulk::boracle(p, o) {
                    fails.push(json!({"stream": "bulk", "plan_index": j, "why": why, "class": null, "bplan": p, "observed": o}));
                }
            }
        }
    }

    // ---------------- stream 4: segment-level correspondence (Model/Segments.v) ----------------
    let sres = par_map(&splans, |j, p| seg::run_schild(p, &work, &format!("s{}", j), SHIM));
    let mut skinds: BTreeMap<String, u64> = BTreeMap::new();
    let mut smicro: BTreeMap<String, u64> = BTreeMap::new();
    let (mut s_events, mut s_faults, mut s_ran) = (0u64, 0u64, 0u64);
    let mut sbody: Vec<String> = vec![];
    let mut sall = vec![];
    let mut sshards = 0usize;
    for (j, r) in sres.iter().enumerate() {
        let p = &splans[j];
        *skinds.entry(p.kind.split(':').take(2).collect::<Vec<_>>().join(":")).or_insert(0) += 1;
        match r {
            None => fails.push(json!({"stream": "segments", "plan_index": j, "why": "segment child produced no output / incomplete markers (crash/abort)", "class": null, "splan": p})),
            Some(run) => {
                s_ran += 1;
                s_events += run.events as u64;
                if run.faults_hit > 0 { s_faults += 1 }
                for ms in &run.steps { for m in ms {
                    let k = match m {
                        seg::Micro::Append(_) => "append".to_string(),
                        seg::Micro::Rotate(_, c, v) => format!("rotate:{}:{}", c, if *c == "COk" { v } else { "-" }),
                        seg::Micro::Start(_, c, v) => format!("start:{}:{}", c, if *c == "COk" { v } else { "-" }),
                        seg::Micro::Stop => "stop".to_string(),
                        seg::Micro::Snapshot(_, s, u) => format!("snapshot:{}:unlinks={}{}", s.join(","), u.len(), if u.iter().any(|b| !*b) { ":unlink-failed" } else { "" }),
                    };
                    *smicro.entry(k).or_insert(0) += 1;
                } }
                sbody.push(seg::case_lit(j, run));
                sall.push(json!({"id": j, "splan": p}));
                if sbody.len() >= 60 {
                    std::fs::write(work.join(format!("segcases_{}.v", sshards)), seg::cases_file(&sbody)).unwrap();
                    sshards += 1;
                    sbody.clear();
                }
            }
        }
    }
    if !sbody.is_empty() { std::fs::write(work.join(format!("segcases_{}.v", sshards)), seg::cases_file(&sbody)).unwrap(); sshards += 1 }
    std::fs::write(work.join("seg_cases.json"), serde_json::to_string(&sall).unwrap()).unwrap();

    let summary = json!({
        "segment_plans": splans.len(), "segment_plans_run": s_ran, "segment_plan_kinds": skinds, "segment_micro_steps": smicro,
        "segment_effects_translated": s_events, "segment_plans_with_an_injected_error": s_faults, "segment_shards": sshards,
        "plans": plans.len(), "plan_kinds": kinds, "outcomes": outcome_hist, "errno_in_engine_plans": errno_hist,
        "plans_with_a_failed_operation": op_failed, "fault_plans_that_reached_io": fault_hit,
        "writer_plans": wplans.len(), "writer_plan_kinds": wkinds, "writer_results": wres_hist,
        "writer_plans_with_a_failed_call": w_failed_call, "writer_syscalls_translated": w_sys, "writer_injected_errors": werrno,
        "bulk_plans": bplans.len(), "bulk_invalid_items": bkinds, "bulk_plans_with_a_failed_item": b_failed_item,
        "distinct_nontrivial": distinct.len(), "failures": fails.len(), "shards": shards,
        "samples": [json!({"engine_plan": plans.get(1)}), json!({"writer_plan": wplans.first()})],
    });
    std::fs::write(work.join("summary.json"), serde_json::to_string_pretty(&summary).unwrap()).unwrap();
    std::fs::write(work.join("failures.json"), serde_json::to_string(&fails).unwrap()).unwrap();
    std::fs::write(work.join("all_cases.json"), serde_json::to_string(&wall).unwrap()).unwrap();
    println!("c03: {} engine plans ({} with a failed op), {} writer plans ({} with a failed call, {} shards), {} bulk plans, {} failures",
        plans.len(), op_failed, wplans.len(), w_failed_call, shards, bplans.len(), fails.len());
}
