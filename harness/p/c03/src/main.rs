//! C03 driver: a write that reports failure changes nothing, now or after restart.
//!
//!   c03 child <plan.json> <dir>     run one plan under the LD_PRELOAD fsshim; prints one JSON line
//!   c03 --out DIR --n N [--tier T]  generate plans (history x failing position x invalid input class
//!                                   or storage fault), run each in a child process, check the oracle
//!   c03 --out DIR --replay FILE
use kvh::rng::Rng;
use kvh_pers::eng;
use kvh_pers::hist::*;
use kvh_pers::shim;
use serde::{Deserialize, Serialize};
use serde_json::json;
use std::collections::BTreeMap;
use std::path::{Path, PathBuf};
use std::process::Command;
use std::sync::Mutex;

const SHIM: &str = "/verif/shims/fsshim.so";

#[derive(Clone, Debug, Serialize, Deserialize)]
struct Plan {
    hist: History,
    /// index of the operation during which the fault plan is armed (None: input-class plan only)
    fault_at: Option<usize>,
    /// fsshim fault spec, e.g. "write:1:ENOSPC:5,ftruncate:1:EIO"
    fault: String,
    kind: String, // human label of the plan
}

#[derive(Clone, Debug, Serialize, Deserialize)]
struct StepObs {
    out: Out,
    live: Census,
}

#[derive(Clone, Debug, Serialize, Deserialize)]
struct ChildOut {
    started: bool,
    steps: Vec<StepObs>,
    degraded_after: Vec<bool>,
    restart_ok: bool,
    restart_err: Option<String>,
    after_restart: Census,
    effects_in_faulted_op: i64,
}

fn child(plan_path: &str, dir: &str) {
    let p: Plan = serde_json::from_str(&std::fs::read_to_string(plan_path).unwrap()).unwrap();
    let dirp = Path::new(dir);
    let mut out = ChildOut { started: false, steps: vec![], degraded_after: vec![], restart_ok: false, restart_err: None, after_restart: Census::new(), effects_in_faulted_op: -1 };
    let mut be = match eng::start(&p.hist.cfg, dirp) {
        Ok(b) => Some(b),
        Err(_) => { println!("{}", serde_json::to_string(&out).unwrap()); return }
    };
    out.started = true;
    for (i, op) in p.hist.ops.iter().enumerate() {
        let armed = p.fault_at == Some(i) && !p.fault.is_empty();
        if armed { shim::reset(); shim::set_fault(&p.fault); }
        let o = eng::apply(&mut be, &p.hist.cfg, dirp, op);
        if armed { out.effects_in_faulted_op = shim::count(); shim::set_fault(""); }
        if armed && matches!(op, Op::Restart) && be.is_none() {
            // a start-up refused under an injected fault: the operator starts again (no fault now)
            be = eng::start(&p.hist.cfg, dirp).ok();
        }
        let live = be.as_ref().map(eng::census).unwrap_or_default();
        out.degraded_after.push(be.as_ref().map(|b| b.is_wal_inconsistent()).unwrap_or(false));
        out.steps.push(StepObs { out: o, live });
    }
    drop(be);
    match eng::start(&p.hist.cfg, dirp) {
        Ok(b) => { out.restart_ok = true; out.after_restart = eng::census(&b); }
        Err(e) => { out.restart_err = Some(format!("{:#}", e)); }
    }
    println!("{}", serde_json::to_string(&out).unwrap());
}

fn run_child(p: &Plan, work: &Path, tag: &str) -> Option<ChildOut> {
    let dir = work.join(format!("{}_data", tag));
    let _ = std::fs::remove_dir_all(&dir);
    std::fs::create_dir_all(&dir).unwrap();
    let pp = work.join(format!("{}_plan.json", tag));
    std::fs::write(&pp, serde_json::to_string(p).unwrap()).unwrap();
    let o = Command::new(std::env::current_exe().unwrap())
        .arg("child").arg(&pp).arg(&dir)
        .env("LD_PRELOAD", SHIM)
        .env("FSSHIM_PREFIX", dir.to_str().unwrap())
        .env("RUST_LOG", "off")
        .stderr(std::process::Stdio::null())
        .output().ok()?;
    let _ = std::fs::remove_dir_all(&dir);
    let _ = std::fs::remove_file(&pp);
    let s = String::from_utf8_lossy(&o.stdout);
    s.lines().last().and_then(|l| serde_json::from_str(l).ok())
}

/// The property over observations only. Returns (why, class).
fn oracle(p: &Plan, c: &ChildOut) -> Option<(String, Option<String>)> {
    if !c.started { return Some(("engine did not start on an empty directory".into(), None)) }
    let mut shadow = Census::new();
    let mut failed_overwrite_nonfinite: Option<u64> = None;
    for (i, (op, st)) in p.hist.ops.iter().zip(c.steps.iter()).enumerate() {
        let before = shadow.clone();
        if eng::is_ok(&st.out) {
            // the stored (normalised) vector is whatever the live census shows for that id
            let stored = match op { Op::Insert { id, .. } | Op::InsertBits { id, .. } => st.live.get(id).map(|x| x.0.clone()), _ => None };
            shadow_apply(&mut shadow, op, stored);
            if matches!(op, Op::Restart | Op::Snapshot) { /* no content change */ }
        }
        if st.live != shadow {
            let what = if eng::is_ok(&st.out) { "after a successful operation the live collection differs from the specification" } else { "a failed operation changed the live collection" };
            return Some((format!("{} (op {} {:?} -> {:?})", what, i, op, st.out), None));
        }
        if let Out::Err(e) = &st.out {
            if let Op::InsertBits { id, .. } | Op::Insert { id, .. } = op {
                if before.contains_key(id) && e.starts_with("after-wal-append") { failed_overwrite_nonfinite = Some(*id) }
            }
        }
        let _ = before;
    }
    if !c.restart_ok {
        return Some((format!("restart after the history failed: {}", c.restart_err.clone().unwrap_or_default().chars().take(160).collect::<String>()), None));
    }
    if c.after_restart != shadow {
        // classification of recorded defect classes (specific input classes only)
        let mut class = None;
        if let Some(id) = failed_overwrite_nonfinite {
            let mut exp = shadow.clone();
            exp.remove(&id);
            if c.after_restart == exp && p.fault.is_empty() {
                class = Some("C03-index-rejects-after-wal-append".to_string());
            }
        }
        if class.is_none() && p.fault.contains("write:") && p.fault.contains("ftruncate:") {
            class = Some("C03-double-fault-during-rollback".to_string());
        }
        return Some(("collection recovered after restart differs from the acknowledged operations".into(), class));
    }
    None
}

fn special_vectors(dim: usize, metric: &str) -> Vec<(String, Vec<u32>)> {
    let f = |v: Vec<f32>| v.iter().map(|x| x.to_bits()).collect::<Vec<u32>>();
    let mut out = vec![];
    let mut nan = vec![1.0f32; dim]; nan[0] = f32::NAN; out.push(("non-finite-nan".to_string(), f(nan)));
    let mut inf = vec![1.0f32; dim]; inf[dim - 1] = f32::INFINITY; out.push(("non-finite-inf".to_string(), f(inf)));
    out.push(("wrong-dimension".to_string(), f(vec![1.0f32; dim + 1])));
    if dim > 1 { out.push(("wrong-dimension-short".to_string(), f(vec![1.0f32; dim - 1]))); }
    out.push(("overflowing".to_string(), f(vec![3.0e38f32; dim])));
    if metric != "euclidean" {
        out.push(("zero-norm".to_string(), f(vec![0.0f32; dim])));
        out.push(("tiny-norm".to_string(), f(vec![1.0e-30f32; dim])));
    }
    out
}

fn gen_plans(rng: &mut Rng, n: usize, tier: &str) -> Vec<Plan> {
    let errnos = ["ENOSPC", "EIO", "EDQUOT", "EINTR", "EACCES"];
    let mut plans = vec![];
    for k in 0..n {
        let mut r = rng.fork(k as u64);
        let mut cfg = gen_cfg(&mut r, "always");
        if k % 4 == 3 { cfg.capacity = 2 } // index-full class
        let gp = GenParams { max_ops: 9, allow_restart: k % 5 == 0, ..Default::default() };
        let h = gen_history(&mut r, cfg.clone(), &gp);
        let pos = r.below(h.ops.len() as u64) as usize;
        match k % 3 {
            0 => {
                // invalid-input class at `pos` (replaces the op there), on an id that often exists
                let sv = special_vectors(cfg.dim, &cfg.metric);
                let (label, b) = r.pick(&sv).clone();
                let mut h2 = h.clone();
                let id = match h.ops.iter().take(pos).filter_map(|o| if let Op::Insert { id, .. } = o { Some(*id) } else { None }).last() { Some(i) if r.chance(3, 4) => i, _ => r.range(1, 5) };
                h2.ops[pos] = Op::InsertBits { id, bits: b, meta: gen_meta(&mut r) };
                plans.push(Plan { hist: h2, fault_at: None, fault: String::new(), kind: format!("input:{}", label) });
            }
            _ => {
                // arm the fault on an operation that performs I/O (insert / live delete / snapshot ...)
                let io_pos: Vec<usize> = h.ops.iter().enumerate().filter(|(_, o)| matches!(o, Op::Insert { .. } | Op::Snapshot | Op::Restart | Op::BatchDelete { .. } | Op::Delete { .. } | Op::UpdateMeta { .. })).map(|(i, _)| i).collect();
                let pos = if io_pos.is_empty() { pos } else { *r.pick(&io_pos) };
                let kinds = ["write", "write", "write", "fsync", "fdatasync", "ftruncate", "rename", "open"];
                let kind = *r.pick(&kinds);
                let e = *r.pick(&errnos);
                let spec = match r.below(6) {
                    // single fault on the n-th call
                    0 | 1 => format!("{}:{}:{}", kind, r.range(1, 3), e),
                    // persistent fault: the first 7 calls of that kind fail (outlives the retries)
                    2 | 3 => (1..=7).map(|n| format!("{}:{}:{}", kind, n, e)).collect::<Vec<_>>().join(","),
                    // short write, then failure of the continuation
                    4 => format!("write:1:{}:{},write:2:{},write:3:{},write:4:{},write:5:{},write:6:{},write:7:{},write:8:{}", e, r.pick(&[0u64, 1, 3, 5, 17]), e, e, e, e, e, e, e),
                    // double fault: the write fails persistently and so does the engine's rollback
                    _ => {
                        let w = (1..=7).map(|n| format!("write:{}:{}", n, e)).collect::<Vec<_>>().join(",");
                        let t = (1..=7).map(|n| format!("ftruncate:{}:{}", n, r.pick(&errnos))).collect::<Vec<_>>().join(",");
                        if tier == "thorough" || r.chance(1, 2) { format!("write:1:{}:{},{}", e, r.pick(&[1u64, 5, 17]), format!("{},{}", w.replacen("write:1:", "write:9:", 1), t)) } else { format!("{},{}", w, t) }
                    }
                };
                plans.push(Plan { hist: h, fault_at: Some(pos), fault: spec.clone(), kind: format!("fault:{}", spec) });
            }
        }
    }
    plans
}

fn main() {
    let args: Vec<String> = std::env::args().collect();
    if args.len() >= 4 && args[1] == "child" { child(&args[2], &args[3]); return }
    let mut out = String::from("/verif/.cache/run/C03");
    let mut n = 150usize;
    let mut tier = String::from("quick");
    let mut replay: Option<String> = None;
    let mut i = 1;
    while i < args.len() {
        match args[i].as_str() {
            "--out" => { out = args[i + 1].clone(); i += 1 }
            "--n" => { n = args[i + 1].parse().unwrap(); i += 1 }
            "--tier" => { tier = args[i + 1].clone(); i += 1 }
            "--replay" => { replay = Some(args[i + 1].clone()); i += 1 }
            _ => {}
        }
        i += 1;
    }
    let work = PathBuf::from(&out);
    std::fs::create_dir_all(&work).unwrap();
    let mut plans: Vec<Plan> = vec![];
    if let Some(p) = &replay {
        let v: serde_json::Value = serde_json::from_str(&std::fs::read_to_string(p).unwrap()).unwrap();
        let pv = if v.get("plan").is_some() { v["plan"].clone() } else { v };
        plans.push(serde_json::from_value(pv).unwrap());
    } else {
        if let Ok(rd) = std::fs::read_dir("/verif/corpus/C03") {
            let mut ps: Vec<_> = rd.filter_map(|e| e.ok()).map(|e| e.path()).collect();
            ps.sort();
            for p in ps { if let Ok(s) = std::fs::read_to_string(&p) { if let Ok(pl) = serde_json::from_str::<Plan>(&s) { plans.push(pl) } } }
        }
        let mut rng = Rng::from_env();
        plans.extend(gen_plans(&mut rng, n, &tier));
    }
    let results: Mutex<Vec<(usize, Option<ChildOut>)>> = Mutex::new(vec![]);
    let next = std::sync::atomic::AtomicUsize::new(0);
    std::thread::scope(|s| {
        for _ in 0..16 {
            s.spawn(|| loop {
                let j = next.fetch_add(1, std::sync::atomic::Ordering::SeqCst);
                if j >= plans.len() { break }
                let r = run_child(&plans[j], &work, &format!("p{}", j));
                results.lock().unwrap().push((j, r));
            });
        }
    });
    let mut results = results.into_inner().unwrap();
    results.sort_by_key(|x| x.0);
    let mut fails = vec![];
    let mut kinds: BTreeMap<String, u64> = BTreeMap::new();
    let mut outcome_hist: BTreeMap<String, u64> = BTreeMap::new();
    let (mut fault_hit, mut op_failed, mut nontrivial) = (0u64, 0u64, 0u64);
    let mut distinct = std::collections::HashSet::new();
    for (j, r) in &results {
        let p = &plans[*j];
        *kinds.entry(p.kind.split(':').take(2).collect::<Vec<_>>().join(":")).or_insert(0) += 1;
        match r {
            None => fails.push(json!({"plan_index": j, "why": "child produced no output (crash/abort)", "class": null, "plan": p})),
            Some(c) => {
                for st in &c.steps { let k = match &st.out { Out::Err(e) => format!("err:{}", e.split(':').next().unwrap_or("")), _ => "ok".to_string() }; *outcome_hist.entry(k).or_insert(0) += 1; }
                let failed_here = c.steps.iter().any(|s| !eng::is_ok(&s.out));
                if failed_here { op_failed += 1 }
                if c.effects_in_faulted_op > 0 { fault_hit += 1 }
                if failed_here && distinct.insert(format!("{:?}{:?}", p.kind, c.steps.iter().map(|s| &s.out).collect::<Vec<_>>())) { nontrivial += 1 }
                if let Some((why, class)) = oracle(p, c) {
                    fails.push(json!({"plan_index": j, "why": why, "class": class, "plan": p, "observed": c}));
                }
            }
        }
    }
    let summary = json!({
        "plans": plans.len(), "plan_kinds": kinds, "outcomes": outcome_hist,
        "plans_with_a_failed_operation": op_failed, "fault_plans_that_reached_io": fault_hit,
        "distinct_nontrivial": nontrivial, "failures": fails.len(),
        "samples": plans.iter().take(2).collect::<Vec<_>>(),
    });
    std::fs::write(work.join("summary.json"), serde_json::to_string_pretty(&summary).unwrap()).unwrap();
    std::fs::write(work.join("failures.json"), serde_json::to_string(&fails).unwrap()).unwrap();
    println!("c03: {} plans, {} with a failed op, {} failures", plans.len(), op_failed, fails.len());
}
