//! Stream 4: segment-level correspondence (Model/Segments.v).
//!
//! A plan = history (rotation / snapshot heavy configuration) + one storage fault at one position of
//! one operation.  The child runs it on the real HnswBackend under the fsshim with the effect log on and,
//! after the initial start and after every operation, observes the directory: the on-disk MANIFEST
//! (wal_segments, latest_snapshot_wal_seq), the wal_*.wal files and the sequence numbers each holds
//! (read with the engine's own WalReader), and the segment the live writer has open (/proc/self/fd).
//! The parent translates the effect log of every operation into the model's micro-steps
//! (MAppend / MRotate / MSnapshot / MStart / MStop with the outcome of every segment creation, every
//! Manifest::save — failed up to the rename / failed in the directory fsync after it — and every
//! unlink), and coqc runs the model on them and compares its state with every observation.
use kvh::rng::Rng;
use kvh_pers::eng;
use kvh_pers::hist::*;
use kvh_pers::shim;
use kvh_pers::vfs;
use kyrodb_engine::persistence::WalReader;
use serde::{Deserialize, Serialize};
use std::collections::BTreeMap;
use std::path::Path;
use std::process::Command;

#[derive(Clone, Debug, Serialize, Deserialize)]
pub struct SPlan {
    pub hist: History,
    /// operation during which the fault is armed; -1 = the initial start; None = no fault
    pub fault_at: Option<i64>,
    pub fault: String,
    pub kind: String,
}

#[derive(Clone, Debug, Default, Serialize, Deserialize, PartialEq)]
pub struct SObs {
    pub man: Vec<u64>,
    pub snap: u64,
    pub files: Vec<(u64, Vec<u64>)>,
    pub active: Option<u64>,
    pub ok: bool,
}

#[derive(Clone, Debug, Default, Serialize, Deserialize)]
pub struct SChildOut {
    /// observation after the initial start, then after every operation
    pub obs: Vec<SObs>,
}

fn seg_id(name: &str) -> Option<u64> {
    let n = name.strip_suffix(" (deleted)").unwrap_or(name);
    n.strip_prefix("wal_")?.strip_suffix(".wal")?.parse().ok()
}

fn observe(dir: &Path, engine_up: bool, ok: bool) -> SObs {
    let mut o = SObs { ok, ..Default::default() };
    if let Ok(s) = std::fs::read_to_string(dir.join("MANIFEST")) {
        if let Ok(v) = serde_json::from_str::<serde_json::Value>(&s) {
            if let Some(a) = v["wal_segments"].as_array() {
                o.man = a.iter().filter_map(|x| x.as_str().and_then(seg_id)).collect();
            }
            o.snap = v["latest_snapshot_wal_seq"].as_u64().unwrap_or(0);
        }
    }
    let mut files = BTreeMap::new();
    if let Ok(rd) = std::fs::read_dir(dir) {
        for e in rd.flatten() {
            let name = e.file_name().to_string_lossy().to_string();
            if let Some(id) = seg_id(&name) {
                let seqs: Vec<u64> = WalReader::open(e.path())
                    .ok()
                    .and_then(|mut r| r.read_all().ok())
                    .map(|es| es.iter().map(|x| x.seq_no).collect())
                    .unwrap_or_default();
                files.insert(id, seqs);
            }
        }
    }
    o.files = files.into_iter().collect();
    if engine_up {
        // the live writer's segment: the one wal file this process holds open
        let dirs = dir.to_string_lossy().to_string();
        if let Ok(rd) = std::fs::read_dir("/proc/self/fd") {
            for e in rd.flatten() {
                if let Ok(t) = std::fs::read_link(e.path()) {
                    let t = t.to_string_lossy().to_string();
                    if let Some(rest) = t.strip_prefix(&dirs) {
                        if let Some(id) = seg_id(rest.trim_start_matches('/')) {
                            o.active = Some(id);
                        }
                    }
                }
            }
        }
    }
    o
}

pub fn schild(plan_path: &str, dir: &str) {
    let p: SPlan = serde_json::from_str(&std::fs::read_to_string(plan_path).unwrap()).unwrap();
    let dirp = Path::new(dir);
    let mut out = SChildOut::default();
    let arm = |i: i64| {
        if p.fault_at == Some(i) && !p.fault.is_empty() {
            shim::reset();
            shim::set_fault(&p.fault);
            true
        } else {
            false
        }
    };
    shim::mark("op -1");
    let armed = arm(-1);
    let mut be = eng::start(&p.hist.cfg, dirp).ok();
    if armed {
        shim::set_fault("");
        if be.is_none() {
            be = eng::start(&p.hist.cfg, dirp).ok();
        }
    }
    out.obs.push(observe(dirp, be.is_some(), be.is_some()));
    for (i, op) in p.hist.ops.iter().enumerate() {
        shim::mark(&format!("op {}", i));
        let armed = arm(i as i64);
        let o = eng::apply(&mut be, &p.hist.cfg, dirp, op);
        if armed {
            shim::set_fault("");
            if matches!(op, Op::Restart) && be.is_none() {
                be = eng::start(&p.hist.cfg, dirp).ok();
            }
        } else if matches!(op, Op::Restart) && be.is_none() {
            // a start refused without any fault: leave it (the model will disagree)
        }
        out.obs.push(observe(dirp, be.is_some(), eng::is_ok(&o)));
    }
    shim::mark("end");
    println!("{}", serde_json::to_string(&out).unwrap());
}

// ------------------------------------------------------------------------------------------------
// effect log -> micro-steps
// ------------------------------------------------------------------------------------------------
#[derive(Clone, Debug, PartialEq)]
pub enum Micro {
    Append(Vec<u64>),
    Rotate(u64, &'static str, &'static str),
    Snapshot(u64, Vec<&'static str>, Vec<bool>),
    Start(u64, &'static str, &'static str),
    Stop,
}

fn is_eintr_retry(evs: &[vfs::Ev], i: usize) -> bool {
    // libstd retries EINTR in place for open / fsync / fdatasync / write_all: the failed call is
    // followed by the same call on the same path
    evs[i].ret < 0 && evs[i].errno == 4 && i + 1 < evs.len() && evs[i + 1].kind == evs[i].kind && evs[i + 1].path == evs[i].path && evs[i].kind != "rename"
}

/// Manifest::save starting at evs[*i] (first event on MANIFEST.tmp).  Consumes its events.
fn parse_save(evs: &[vfs::Ev], i: &mut usize) -> &'static str {
    let mut renamed = false;
    let mut dir_ok = false;
    while *i < evs.len() {
        let e = &evs[*i];
        let on_tmp = e.path == "MANIFEST.tmp";
        let dir_sync = renamed && e.path.is_empty() && (e.kind == "fsync" || e.kind == "fdatasync");
        if !(on_tmp || dir_sync) {
            break;
        }
        if e.ret < 0 {
            let retried = is_eintr_retry(evs, *i);
            *i += 1;
            if retried {
                continue;
            }
            break; // the save returned Err here
        }
        if e.kind == "rename" {
            renamed = true;
        }
        *i += 1;
        if dir_sync {
            dir_ok = true;
            break;
        }
    }
    if !renamed {
        "VPre"
    } else if dir_ok {
        "VOk"
    } else {
        "VPost"
    }
}

pub fn micro_of(evs: &[vfs::Ev], start_ctx: bool, is_restart: bool, before: &SObs, after: &SObs, hi_est: &mut u64) -> Vec<Micro> {
    let mut ms = vec![];
    if is_restart {
        ms.push(Micro::Stop);
    }
    let bf: BTreeMap<u64, Vec<u64>> = before.files.iter().cloned().collect();
    let af: BTreeMap<u64, Vec<u64>> = after.files.iter().cloned().collect();
    let gain = |id: u64| -> Vec<u64> {
        let b = bf.get(&id).cloned().unwrap_or_default();
        let a = af.get(&id).cloned().unwrap_or_default();
        if a.len() >= b.len() && a[..b.len()] == b[..] { a[b.len()..].to_vec() } else { a }
    };
    // every sequence number visible after the operation bounds the snapshot's last_wal_seq from below
    for (_, seqs) in &after.files {
        for s in seqs {
            *hi_est = (*hi_est).max(*s);
        }
    }
    let mut appended: Vec<u64> = vec![];
    let mut i = 0usize;
    while i < evs.len() {
        let e = &evs[i];
        if let Some(id) = seg_id(&e.path) {
            if e.kind == "open" {
                // creation of a fresh segment: open(O_CREAT), write of the 4-byte magic, fdatasync
                if is_eintr_retry(evs, i) {
                    i += 1;
                    continue;
                }
                let mut c = if e.ret < 0 { "CFailNoFile" } else { "COk" };
                i += 1;
                if c == "COk" {
                    let mut steps = 0;
                    while i < evs.len() && seg_id(&evs[i].path) == Some(id) && steps < 2 && matches!(evs[i].kind.as_str(), "write" | "fdatasync" | "fsync") {
                        if evs[i].ret < 0 {
                            if is_eintr_retry(evs, i) {
                                i += 1;
                                continue;
                            }
                            c = "CFailFile";
                            i += 1;
                            break;
                        }
                        if evs[i].kind == "write" && evs[i].ret < evs[i].len {
                            // short write of the header: write_all continues
                            i += 1;
                            continue;
                        }
                        steps += 1;
                        i += 1;
                    }
                }
                let mut v = "VPre";
                if c == "COk" {
                    // the MANIFEST save that publishes it (if the code got that far)
                    if i < evs.len() && evs[i].path == "MANIFEST.tmp" {
                        v = parse_save(evs, &mut i);
                    }
                }
                ms.push(if start_ctx { Micro::Start(id, c, v) } else { Micro::Rotate(id, c, v) });
                continue;
            }
            if matches!(e.kind.as_str(), "write" | "fsync" | "fdatasync" | "ftruncate") {
                if !appended.contains(&id) {
                    let g = gain(id);
                    if !g.is_empty() {
                        ms.push(Micro::Append(g));
                    }
                    appended.push(id);
                }
                i += 1;
                continue;
            }
            i += 1;
            continue;
        }
        if e.path.starts_with("snapshot_") {
            // Snapshot::save: tmp create/write/fsync, rename, directory fsync
            let mut renamed = false;
            let mut saved = false;
            while i < evs.len() {
                let x = &evs[i];
                let on_snap = x.path.starts_with("snapshot_");
                let dir_sync = renamed && x.path.is_empty() && (x.kind == "fsync" || x.kind == "fdatasync");
                if !(on_snap || dir_sync) {
                    break;
                }
                if x.ret < 0 {
                    if is_eintr_retry(evs, i) {
                        i += 1;
                        continue;
                    }
                    i += 1;
                    break;
                }
                if x.kind == "rename" {
                    renamed = true;
                }
                i += 1;
                if dir_sync {
                    saved = true;
                    break;
                }
            }
            if !saved {
                continue; // create_snapshot returned Err before touching the MANIFEST
            }
            let mut saves: Vec<&'static str> = vec![];
            let mut unl: Vec<bool> = vec![];
            while i < evs.len() {
                let x = &evs[i];
                if x.path == "MANIFEST.tmp" {
                    let v = parse_save(evs, &mut i);
                    saves.push(v);
                    if v != "VOk" {
                        break;
                    }
                    continue;
                }
                if x.kind == "unlink" && seg_id(&x.path).is_some() {
                    unl.push(x.ret == 0);
                    i += 1;
                    continue;
                }
                if seg_id(&x.path).is_some() || x.path.starts_with("snapshot_") {
                    break; // the next append / creation / snapshot
                }
                i += 1; // anything else (stale snapshot clean-up, ...) is not part of the model
            }
            if saves.is_empty() {
                continue; // MANIFEST missing / unreadable: outside the fault class
            }
            let l = if saves[0] != "VPre" { after.snap } else { *hi_est };
            *hi_est = (*hi_est).max(l);
            ms.push(Micro::Snapshot(l, saves, unl));
            continue;
        }
        i += 1;
    }
    ms
}

pub struct SRun {
    pub out: SChildOut,
    pub steps: Vec<Vec<Micro>>,
    pub events: usize,
    pub faults_hit: usize,
}

pub fn run_schild(p: &SPlan, work: &Path, tag: &str, shim_so: &str) -> Option<SRun> {
    let dir = work.join(format!("{}_data", tag));
    let _ = std::fs::remove_dir_all(&dir);
    std::fs::create_dir_all(&dir).unwrap();
    let pp = work.join(format!("{}_plan.json", tag));
    let log = work.join(format!("{}.log", tag));
    let _ = std::fs::remove_file(&log);
    std::fs::write(&pp, serde_json::to_string(p).unwrap()).unwrap();
    let o = Command::new(std::env::current_exe().unwrap())
        .arg("schild").arg(&pp).arg(&dir)
        .env("LD_PRELOAD", shim_so)
        .env("FSSHIM_PREFIX", dir.to_str().unwrap())
        .env("FSSHIM_LOG", log.to_str().unwrap())
        .env("RUST_LOG", "off")
        .stderr(std::process::Stdio::null())
        .output().ok()?;
    let s = String::from_utf8_lossy(&o.stdout);
    let out: Option<SChildOut> = s.lines().last().and_then(|l| serde_json::from_str(l).ok());
    let tr = vfs::parse(&log, dir.to_str().unwrap());
    let _ = std::fs::remove_dir_all(&dir);
    let _ = std::fs::remove_file(&pp);
    let _ = std::fs::remove_file(&log);
    let out = out?;
    if out.obs.len() != p.hist.ops.len() + 1 {
        return None;
    }
    let pos = |text: &str| tr.markers.iter().find(|m| m.text == text).map(|m| m.after);
    let mut steps = vec![];
    let mut hi_est = 0u64;
    let empty = SObs::default();
    for k in 0..out.obs.len() {
        let i = k as i64 - 1;
        let a = pos(&format!("op {}", i))?;
        let b = if k + 1 < out.obs.len() { pos(&format!("op {}", i + 1))? } else { pos("end").unwrap_or(tr.evs.len()) };
        let evs = &tr.evs[a.min(tr.evs.len())..b.min(tr.evs.len())];
        let is_restart = i >= 0 && matches!(p.hist.ops[i as usize], Op::Restart);
        let before = if k == 0 { &empty } else { &out.obs[k - 1] };
        steps.push(micro_of(evs, i < 0 || is_restart, is_restart, before, &out.obs[k], &mut hi_est));
    }
    let faults_hit = tr.evs.iter().filter(|e| e.ret < 0).count();
    Some(SRun { out, steps, events: tr.evs.len(), faults_hit })
}

/// Dry run (no fault) to learn how many effects of each kind every operation performs.
pub fn effect_counts(p: &SPlan, work: &Path, tag: &str, shim_so: &str) -> Option<Vec<BTreeMap<String, usize>>> {
    let dir = work.join(format!("{}_data", tag));
    let _ = std::fs::remove_dir_all(&dir);
    std::fs::create_dir_all(&dir).unwrap();
    let pp = work.join(format!("{}_plan.json", tag));
    let log = work.join(format!("{}.log", tag));
    let _ = std::fs::remove_file(&log);
    std::fs::write(&pp, serde_json::to_string(p).unwrap()).unwrap();
    let _ = Command::new(std::env::current_exe().unwrap())
        .arg("schild").arg(&pp).arg(&dir)
        .env("LD_PRELOAD", shim_so)
        .env("FSSHIM_PREFIX", dir.to_str().unwrap())
        .env("FSSHIM_LOG", log.to_str().unwrap())
        .env("RUST_LOG", "off")
        .stderr(std::process::Stdio::null())
        .output().ok()?;
    let tr = vfs::parse(&log, dir.to_str().unwrap());
    let _ = std::fs::remove_dir_all(&dir);
    let _ = std::fs::remove_file(&pp);
    let _ = std::fs::remove_file(&log);
    let pos = |text: &str| tr.markers.iter().find(|m| m.text == text).map(|m| m.after);
    let mut v = vec![];
    for k in 0..=p.hist.ops.len() {
        let i = k as i64 - 1;
        let a = pos(&format!("op {}", i))?;
        let b = if k < p.hist.ops.len() { pos(&format!("op {}", i + 1))? } else { pos("end").unwrap_or(tr.evs.len()) };
        let mut m = BTreeMap::new();
        for e in &tr.evs[a.min(tr.evs.len())..b.min(tr.evs.len())] {
            *m.entry(e.kind.clone()).or_insert(0usize) += 1;
        }
        v.push(m);
    }
    Some(v)
}

pub fn gen_hist(r: &mut Rng, k: usize) -> History {
    let cfg = Cfg {
        dim: *r.pick(&[1usize, 2, 3]),
        metric: "euclidean".to_string(),
        capacity: 64,
        snapshot_interval: if k % 4 == 1 { 2 } else { *r.pick(&[0usize, 0, 2, 3, 1000]) },
        // one frame of a tiny document is ~60-100 bytes: 1 => rotate after every frame
        max_wal_bytes: if k % 2 == 0 { 1 } else { *r.pick(&[1u64, 150, 300]) },
        fsync: "always".to_string(),
    };
    let n = r.range(3, 7) as usize;
    let mut ops = vec![];
    for _ in 0..n {
        let id = r.range(1, 4);
        ops.push(match r.below(20) {
            0..=8 => Op::Insert { id, vec: gen_vec(r, cfg.dim), meta: gen_meta(r) },
            9..=10 => Op::Delete { id },
            11..=12 => Op::BatchDelete { ids: (0..r.range(1, 3)).map(|_| r.range(1, 4)).collect() },
            13 => Op::UpdateMeta { id, meta: gen_meta(r), merge: r.chance(1, 2) },
            14..=17 => Op::Snapshot,
            _ => Op::Restart,
        });
    }
    // every history rotates or compacts something: at least two inserts before a snapshot, and one after
    if !ops.iter().any(|o| matches!(o, Op::Snapshot)) {
        let at = ops.len() / 2 + 1;
        ops.insert(at.min(ops.len()), Op::Snapshot);
    }
    ops.insert(0, Op::Insert { id: 1, vec: gen_vec(r, cfg.dim), meta: gen_meta(r) });
    ops.insert(1, Op::Insert { id: 2, vec: gen_vec(r, cfg.dim), meta: gen_meta(r) });
    ops.push(Op::Insert { id: 3, vec: gen_vec(r, cfg.dim), meta: gen_meta(r) });
    History { cfg, ops }
}

/// Every single-fault position of every operation of `h` (kind x n-th effect of that kind), one errno each.
pub fn plans_for(h: &History, counts: &[BTreeMap<String, usize>], r: &mut Rng, cap_per_hist: usize) -> Vec<SPlan> {
    let errnos = ["ENOSPC", "EIO", "EDQUOT", "EACCES"];
    let mut v = vec![SPlan { hist: h.clone(), fault_at: None, fault: String::new(), kind: "seg:none".into() }];
    let mut all = vec![];
    for (k, m) in counts.iter().enumerate() {
        for (kind, n) in m {
            if !matches!(kind.as_str(), "write" | "fsync" | "fdatasync" | "rename" | "open" | "unlink") {
                continue;
            }
            for j in 1..=*n {
                all.push((k as i64 - 1, kind.clone(), j));
            }
        }
    }
    // keep every position when they fit, otherwise a seeded sample
    while all.len() > cap_per_hist {
        let j = r.below(all.len() as u64) as usize;
        all.swap_remove(j);
    }
    for (at, kind, j) in all {
        let e = *r.pick(&errnos);
        v.push(SPlan { hist: h.clone(), fault_at: Some(at), fault: format!("{}:{}:{}", kind, j, e), kind: format!("seg:{}:{}", kind, j) });
    }
    v
}

// ------------------------------------------------------------------------------------------------
// Gallina
// ------------------------------------------------------------------------------------------------
fn nlist(v: &[u64]) -> String {
    format!("[{}]", v.iter().map(|x| x.to_string()).collect::<Vec<_>>().join("; "))
}

fn micro_lit(m: &Micro) -> String {
    match m {
        Micro::Append(s) => format!("MAppend {}", nlist(s)),
        Micro::Rotate(f, c, v) => format!("MRotate {} {} {}", f, c, v),
        Micro::Start(f, c, v) => format!("MStart {} {} {}", f, c, v),
        Micro::Stop => "MStop".to_string(),
        Micro::Snapshot(l, s, u) => format!("MSnapshot {} [{}] [{}]", l, s.join("; "), u.iter().map(|b| b.to_string()).collect::<Vec<_>>().join("; ")),
    }
}

fn obs_lit(o: &SObs) -> String {
    let files: Vec<String> = o.files.iter().map(|(f, s)| format!("({}, {})", f, nlist(s))).collect();
    format!("({}, {}, [{}], {})", nlist(&o.man), o.snap, files.join("; "), match o.active { Some(a) => format!("Some {}", a), None => "None".into() })
}

pub fn case_lit(id: usize, run: &SRun) -> String {
    let steps: Vec<String> = run.steps.iter().zip(run.out.obs.iter())
        .map(|(ms, o)| format!("([{}], {})", ms.iter().map(micro_lit).collect::<Vec<_>>().join("; "), obs_lit(o)))
        .collect();
    format!("({}, [{}])", id, steps.join(";\n    "))
}

pub fn cases_file(body: &[String]) -> String {
    format!(
        "From Coq Require Import List NArith Bool.\nFrom Kyro Require Import Model.Segments.\nImport ListNotations.\nOpen Scope N_scope.\n\
Definition cases : list (N * list (list micro * obs)) := [\n  {}\n].\n\
Definition res := Eval vm_compute in map (fun c => (fst c, first_diff 0 init (snd c))) cases.\n\
Definition bad := map fst (filter (fun r => match snd r with Some _ => true | None => false end) res).\n\
Definition badop := map (fun r => match snd r with Some k => k | None => 0 end) (filter (fun r => match snd r with Some _ => true | None => false end) res).\n\
Goal True. idtac \"@@segbad\". Abort.\nEval vm_compute in bad.\n\
Goal True. idtac \"@@segbadop\". Abort.\nEval vm_compute in badop.\n\
Goal True. idtac \"@@segcount\". Abort.\nEval vm_compute in (N.of_nat (length cases)).\n",
        body.join(";\n  ")
    )
}
