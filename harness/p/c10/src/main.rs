//! C10 driver: tenant isolation of the real kyrodb_server binary.
//! usage: c10 --out DIR --n N [--replay FILE] [--threads T]
//!
//! For every seeded script (2–3 tenants, colliding local ids, identical vectors/queries, spoofed
//! reserved keys, NOT/OR filters, namespaces, missing/wrong/disabled keys):
//!   run 1: the whole script against a fresh server;
//!   run 2: the same script with tenant B's calls removed against another fresh server;
//! every response is canonicalised and
//!   (i)  written, together with the calls, into cases_<k>.v where coqc evaluates
//!        Model/Server.v's `check_script` (both runs are model-checked);
//!   (ii) checked by the direct oracles below (implementation observations only).
use kvh::rng::Rng;
use kvh_srv::*;
use serde_json::{json, Value};
use std::collections::{BTreeMap, BTreeSet, HashSet};
use std::fmt::Write as _;

// ------------------------------------------------------------------------------------------ script
#[derive(Clone, Debug, PartialEq)]
enum F {
    Empty,
    Exact(String, String),
    In(String, Vec<String>),
    And(Vec<F>),
    Or(Vec<F>),
    Not(Option<Box<F>>),
}
#[derive(Clone, Debug, PartialEq)]
struct It {
    id: u64,
    v: Vec<i32>, // coordinates in eighths
    meta: Vec<(String, String)>,
    ns: String,
}
#[derive(Clone, Debug, PartialEq)]
struct Sq {
    q: Vec<i32>,
    k: u32,
    min_score: f32,
    ns: String,
    incl: bool,
    ef: u32,
    filter: Option<F>,
    legacy: Vec<(String, String)>,
}
#[derive(Clone, Debug, PartialEq)]
enum Op {
    Insert(It),
    BulkInsert(Vec<It>),
    BulkLoad(Vec<It>),
    Query(u64, bool, String),
    BulkQuery(Vec<u64>, bool, String),
    Search(Sq),
    BulkSearch(Vec<Sq>),
    Update(u64, Vec<(String, String)>, bool, String),
    Delete(u64, String),
    BatchDeleteIds(Vec<u64>, String),
    BatchDeleteFilter(F, String),
    BatchDeleteNone(String),
    Flush(bool),
    Usage(Option<String>),
    /// graceful stop + start on the same data dir; `true` = tenant "dax" is appended to the key file first
    Restart(bool),
}
#[derive(Clone, Copy, Debug, PartialEq, Eq)]
enum Who {
    T(usize), // tenant number: 0 acme, 1 bolt, 2 cato, 3 dax (dax exists only after Restart(true))
    Alt,      // tenant 0 through its SECOND enabled API key (key rotation)
    Sys,      // not a client call (Restart)
    NoKey,
    WrongKey,
    Disabled,
}
#[derive(Clone, Debug, PartialEq)]
struct Call {
    who: Who,
    op: Op,
    /// Search family only: is the engine expected to answer exactly here (see `Tracker`)?
    exact: bool,
}
#[derive(Clone, Debug)]
struct Script {
    nt: usize,
    calls: Vec<Call>,
    /// generator's suggestion for (victim, removed tenant) of the with/without oracle
    hint: Option<(usize, usize)>,
}

const TENANTS: [&str; 3] = ["acme", "bolt", "cato"]; // sorted => tenant index = position
const NEW_TENANT: &str = "dax"; // appended to the key file by Restart(true): index = map.len() = 3
const NAMES: [&str; 4] = ["acme", "bolt", "cato", "dax"];
const KEY_ALT: u64 = 11;
fn tenant_no(w: Who) -> Option<usize> {
    match w {
        Who::T(t) => Some(t),
        Who::Alt => Some(0),
        _ => None,
    }
}
/// per call: is the caller's key valid at that point of the script?
fn authed_flags(sc: &Script) -> Vec<bool> {
    let mut dax = false;
    sc.calls
        .iter()
        .map(|c| {
            if let Op::Restart(true) = c.op {
                dax = true;
            }
            match c.who {
                Who::T(3) => dax,
                Who::T(_) | Who::Alt => true,
                _ => false,
            }
        })
        .collect()
}
const DISABLED_TENANT: &str = "dis";
const KEY_DISABLED: u64 = 10;
const KEY_WRONG: u64 = 99;
const POOL_IDS: [u64; 5] = [1, 2, 3, 4, 5];
const LOAD_IDS: [u64; 3] = [6, 7, 8];

fn opname(op: &Op) -> &'static str {
    match op {
        Op::Insert(_) => "Insert",
        Op::BulkInsert(_) => "BulkInsert",
        Op::BulkLoad(_) => "BulkLoadHnsw",
        Op::Query(..) => "Query",
        Op::BulkQuery(..) => "BulkQuery",
        Op::Search(_) => "Search",
        Op::BulkSearch(_) => "BulkSearch",
        Op::Update(..) => "UpdateMetadata",
        Op::Delete(..) => "Delete",
        Op::BatchDeleteIds(..) => "BatchDeleteIds",
        Op::BatchDeleteFilter(..) => "BatchDeleteFilter",
        Op::BatchDeleteNone(_) => "BatchDeleteNone",
        Op::Flush(_) => "FlushHotTier",
        Op::Usage(_) => "Usage",
        Op::Restart(_) => "Restart",
    }
}

// ------------------------------------------------------------------------------------------ generator
/// Conservative bookkeeping that decides where the engine's two-tier k-NN is exact (so that the
/// model's "exact global top-search_k" is the specification): as long as no forced flush and no
/// bulk load happened, the hot tier mirrors every live document and its linear scan is exact; after
/// that, exactness needs "no tombstones" or "everything fetched" (2k >= slots).
#[derive(Default)]
struct Tracker {
    cold_only: bool,
    slots: u64,
    tombstones: u64,
    written: HashSet<(usize, u64)>,
    maybe_hot: HashSet<(usize, u64)>,
}
impl Tracker {
    fn write(&mut self, t: usize, id: u64) {
        self.slots += 1;
        if !self.written.insert((t, id)) {
            self.tombstones += 1;
        }
    }
    fn exact(&self, k: u32) -> bool {
        !self.cold_only || self.tombstones == 0 || 2 * (k as u64) >= self.slots
    }
}

fn vec_pool() -> Vec<Vec<i32>> {
    vec![vec![0, 0], vec![1, 0], vec![2, 0], vec![0, 3], vec![4, 4], vec![-5, 2], vec![7, -7], vec![3, 1], vec![1, 0], vec![-1, -1]]
}
fn gen_meta(r: &mut Rng, spoof: bool, nt: usize) -> Vec<(String, String)> {
    let mut m = BTreeMap::new();
    if r.chance(3, 4) {
        m.insert("color".to_string(), r.pick(&["red", "blue", "green"]).to_string());
    }
    if r.chance(1, 2) {
        m.insert("size".to_string(), r.pick(&["1", "2", "x"]).to_string());
    }
    if spoof {
        match r.below(4) {
            0 => {
                m.insert("__tenant_idx__".into(), r.below(nt as u64 + 1).to_string());
            }
            1 => {
                m.insert("__tenant_id__".into(), r.pick(&TENANTS).to_string());
            }
            2 => {
                m.insert("__namespace__".into(), r.pick(&["n1", "n2", "zz"]).to_string());
            }
            _ => {
                m.insert("__tenant_idx__".into(), r.below(nt as u64).to_string());
                m.insert("__tenant_id__".into(), r.pick(&TENANTS).to_string());
                m.insert("__namespace__".into(), "n1".into());
            }
        }
    }
    m.into_iter().collect()
}
fn gen_ns(r: &mut Rng) -> String {
    match r.below(5) {
        0 => "n1".into(),
        1 => "n2".into(),
        _ => String::new(),
    }
}
fn gen_filter(r: &mut Rng, depth: u32, nt: usize) -> F {
    let leaf = |r: &mut Rng| -> F {
        match r.below(8) {
            0 => F::Exact("__tenant_idx__".into(), r.below(nt as u64).to_string()),
            1 => F::Exact("__namespace__".into(), r.pick(&["n1", "n2"]).to_string()),
            2 => F::In("color".into(), vec!["red".into(), "green".into()]),
            3 => F::In("size".into(), vec!["1".into(), "2".into(), "x".into(), "y".into()]),
            4 => F::Exact("size".into(), r.pick(&["1", "2"]).to_string()),
            5 => F::Empty,
            _ => F::Exact("color".into(), r.pick(&["red", "blue"]).to_string()),
        }
    };
    if depth == 0 {
        return leaf(r);
    }
    match r.below(8) {
        0 | 1 => F::Not(Some(Box::new(gen_filter(r, depth - 1, nt)))),
        2 | 3 => F::Or((0..r.range(1, 3)).map(|_| gen_filter(r, depth - 1, nt)).collect()),
        4 => F::And((0..r.range(0, 2)).map(|_| gen_filter(r, depth - 1, nt)).collect()),
        5 => {
            if r.chance(1, 4) {
                F::Not(None)
            } else {
                F::Or(vec![])
            }
        }
        _ => leaf(r),
    }
}
/// out-of-range local ids aimed at other tenants' id ranges: 2^32, 2^32|l, (j<<32)|l, u64::MAX
fn evil_id(r: &mut Rng) -> u64 {
    let l = *r.pick(&[1u64, 2, 3, 6, 7]);
    match r.below(8) {
        0 => 1u64 << 32,
        1 => u64::MAX,
        2 => (1u64 << 32) - 1, // largest legal id
        3 => 0,
        _ => (r.range(1, 3) << 32) | l,
    }
}
fn gen_id(r: &mut Rng) -> u64 {
    match r.below(12) {
        0 => evil_id(r),
        _ => *r.pick(&[1u64, 2, 3, 1, 2, 3, 4, 5]),
    }
}
fn gen_item(r: &mut Rng, nt: usize, ids: &[u64]) -> It {
    let pool = vec_pool();
    let v = match r.below(30) {
        0 => vec![1, 2, 3], // wrong dimension
        1 => vec![],
        _ => r.pick(&pool).clone(),
    };
    let id = if r.chance(1, 8) { evil_id(r) } else { *r.pick(ids) };
    let spoof = r.chance(1, 3);
    It { id, v, meta: gen_meta(r, spoof, nt), ns: gen_ns(r) }
}
fn gen_sq(r: &mut Rng, nt: usize, ns: &str) -> Sq {
    let pool = vec_pool();
    let q = if r.chance(1, 40) { vec![1, 1, 1] } else { r.pick(&pool).clone() };
    Sq {
        q,
        k: *r.pick(&[1u32, 1, 1, 2, 2, 3, 5, 5, 10, 10, 0, 1001]),
        min_score: *r.pick(&[0.0f32, 0.0, 0.0, 0.0, 0.5, 0.75]),
        ns: ns.to_string(),
        incl: r.chance(1, 2),
        ef: 0,
        filter: if r.chance(2, 5) { Some(gen_filter(r, 2, nt)) } else { None },
        legacy: if r.chance(1, 8) { vec![("color".into(), "red".into())] } else { vec![] },
    }
}

fn gen_script(r: &mut Rng, idx: usize) -> Script {
    let restart_script = idx % 4 == 2;
    let attack_script = idx % 6 == 1;
    let nt = if restart_script || r.chance(1, 2) { 3 } else { 2 };
    let len = r.range(14, 22) as usize;
    let mut calls: Vec<Call> = vec![];
    let mut tr = Tracker::default();
    // directed prefix for a third of the scripts: the known crowding-out shape and colliding ids
    if idx % 3 == 0 {
        let n = r.range(2, 5) as u64;
        for i in 1..=n {
            calls.push(Call { who: Who::T(0), op: Op::Insert(It { id: i, v: vec![3 + i as i32, 0], meta: vec![("color".into(), "red".into())], ns: String::new() }), exact: true });
            tr.write(0, i);
            tr.maybe_hot.insert((0, i));
        }
        let close: Vec<It> = (1..=n).map(|i| It { id: i, v: vec![i as i32 - 3, 0], meta: vec![("color".into(), "red".into())], ns: String::new() }).collect();
        for it in &close {
            tr.write(1, it.id);
            tr.maybe_hot.insert((1, it.id));
        }
        calls.push(Call { who: Who::T(1), op: Op::BulkInsert(close), exact: true });
    }
    // seed: every tenant writes a few documents under the same local ids (partly identical vectors)
    if idx % 3 != 0 {
        let pool = vec_pool();
        for t in 0..nt {
            for _ in 0..r.range(1, 3) {
                let id = *r.pick(&[1u64, 2, 3]);
                let it = It { id, v: r.pick(&pool).clone(), meta: gen_meta(r, false, nt), ns: if r.chance(1, 4) { "n1".into() } else { String::new() } };
                tr.write(t, id);
                tr.maybe_hot.insert((t, id));
                calls.push(Call { who: Who::T(t), op: Op::Insert(it), exact: true });
            }
        }
    }
    // directed: one tenant aims every RPC kind at the other tenants' id ranges with out-of-range local
    // ids (j<<32)|l for colliding l; the closing census of every tenant shows whether anything moved
    let mut attacker: Option<usize> = None;
    if attack_script {
        let a = r.below(nt as u64) as usize;
        attacker = Some(a);
        let pool = vec_pool();
        for j in 0..3u64 {
            let ids: Vec<u64> = [1u64, 2, 3].iter().map(|l| (j << 32) | l).chain([(1u64 << 32) | 7, 1u64 << 32, u64::MAX]).filter(|x| *x > u32::MAX as u64).collect();
            let mk = |id: u64, r: &mut Rng| It { id, v: r.pick(&pool).clone(), meta: vec![("color".into(), "evil".into())], ns: String::new() };
            let mut load: Vec<It> = ids.iter().map(|id| mk(*id, r)).collect();
            load.push(mk(8, r));
            tr.write(a, 8);
            tr.cold_only = true;
            calls.push(Call { who: Who::T(a), op: Op::BulkLoad(load), exact: true });
            let mut ins: Vec<It> = ids.iter().map(|id| mk(*id, r)).collect();
            ins.push(mk(5, r));
            tr.write(a, 5);
            tr.maybe_hot.insert((a, 5));
            calls.push(Call { who: Who::T(a), op: Op::BulkInsert(ins), exact: true });
            let id = *r.pick(&ids);
            match r.below(3) {
                0 => calls.push(Call { who: Who::T(a), op: Op::Insert(mk(id, r)), exact: true }),
                1 => calls.push(Call { who: Who::T(a), op: Op::Update(id, vec![("color".into(), "evil".into())], false, String::new()), exact: true }),
                _ => calls.push(Call { who: Who::T(a), op: Op::Query(id, true, String::new()), exact: true }),
            }
            tr.tombstones += 4;
            calls.push(Call { who: Who::T(a), op: Op::BulkQuery(ids.clone(), true, String::new()), exact: true });
            match r.below(2) {
                0 => calls.push(Call { who: Who::T(a), op: Op::Delete(id, String::new()), exact: true }),
                _ => calls.push(Call { who: Who::T(a), op: Op::BatchDeleteIds(ids.clone(), String::new()), exact: true }),
            }
        }
        // the attacker re-labels its OWN documents with server-owned keys through UpdateMetadata, in merge
        // and in replace mode (a merge "keeps the stored keys anyway" only if the client's are stripped first)
        let victim = (a + 1) % nt;
        for (doc, merge) in [(5u64, true), (8u64, true), (5u64, false)] {
            let m = match r.below(3) {
                0 => vec![("__tenant_idx__".to_string(), victim.to_string()), ("__tenant_id__".to_string(), TENANTS[victim].to_string())],
                1 => vec![("__namespace__".to_string(), "n1".to_string())],
                _ => vec![("__tenant_idx__".to_string(), victim.to_string()), ("__namespace__".to_string(), "vault".to_string()), ("color".to_string(), "evil".to_string())],
            };
            calls.push(Call { who: Who::T(a), op: Op::BulkQuery(vec![1, 2, 3, 4, 5, 6, 7, 8, 4294967295], true, String::new()), exact: true });
            calls.push(Call { who: Who::T(a), op: Op::Update(doc, m, merge, String::new()), exact: true });
            calls.push(Call { who: Who::T(a), op: Op::BulkQuery(vec![1, 2, 3, 4, 5, 6, 7, 8, 4294967295], true, String::new()), exact: true });
            calls.push(Call { who: Who::T(victim), op: Op::BulkQuery(vec![1, 2, 3, 4, 5, 6, 7, 8, 4294967295], true, String::new()), exact: true });
        }
        // tombstone compaction under several tenants: the attacker's deleted documents sit AHEAD of the victim's
        // in slot order, then enough overwrites to fill the 48 physical slots (the canonical insert compacts and
        // renumbers every tenant's internal ids), then a filtered delete by the attacker and a census of both
        let pool2 = vec_pool();
        let mk2 = |id: u64, color: &str, r: &mut Rng| It { id, v: r.pick(&pool2).clone(), meta: vec![("color".into(), color.into())], ns: String::new() };
        // slot order: [attacker 1,2 (to be deleted)] [attacker 6,7 "evil"] [victim 6,7] ... churn at the end
        for id in [1u64, 2] {
            tr.write(a, id);
            tr.maybe_hot.insert((a, id));
            calls.push(Call { who: Who::T(a), op: Op::Insert(mk2(id, "gone", r)), exact: true });
        }
        for id in [6u64, 7] {
            tr.write(a, id);
            tr.maybe_hot.insert((a, id));
            calls.push(Call { who: Who::T(a), op: Op::Insert(mk2(id, "evil", r)), exact: true });
        }
        for id in [6u64, 7] {
            tr.write(victim, id);
            tr.maybe_hot.insert((victim, id));
            calls.push(Call { who: Who::T(victim), op: Op::Insert(mk2(id, "blue", r)), exact: true });
        }
        for id in [1u64, 2] {
            tr.tombstones += 1;
            calls.push(Call { who: Who::T(a), op: Op::Delete(id, String::new()), exact: true });
        }
        for _ in 0..52 {
            tr.write(a, 3);
            tr.maybe_hot.insert((a, 3));
            tr.tombstones += 1;
            calls.push(Call { who: Who::T(a), op: Op::Insert(mk2(3, "churn", r)), exact: true });
        }
        calls.push(Call { who: Who::T(a), op: Op::BatchDeleteFilter(F::Exact("color".into(), "evil".into()), String::new()), exact: true });
        calls.push(Call { who: Who::T(a), op: Op::BulkQuery(vec![1, 2, 3, 4, 5, 6, 7, 8, 4294967295], true, String::new()), exact: true });
        calls.push(Call { who: Who::T(victim), op: Op::BulkQuery(vec![1, 2, 3, 4, 5, 6, 7, 8, 4294967295], true, String::new()), exact: true });
    }
    let len = len + calls.len().min(6);
    let restart_at = if restart_script { Some(calls.len() + (len - calls.len()) * 3 / 5) } else { None };
    let mut dax = false;
    let mut restarted = false;
    while calls.len() < len {
        if let Some(at) = restart_at {
            if !restarted && calls.len() >= at {
                restarted = true;
                let add = r.chance(4, 5);
                calls.push(Call { who: Who::Sys, op: Op::Restart(add), exact: true });
                tr.cold_only = true;
                tr.maybe_hot.clear();
                if add {
                    // the brand-new tenant probes colliding local ids before writing anything
                    dax = true;
                    let d = Who::T(3);
                    let pool = vec_pool();
                    calls.push(Call { who: d, op: Op::BulkQuery(vec![1, 2, 3, 4, 5, 6, 7, 8, 4294967295], true, String::new()), exact: true });
                    let sq = Sq { q: r.pick(&pool).clone(), k: 10, min_score: 0.0, ns: String::new(), incl: true, ef: 0, filter: None, legacy: vec![] };
                    let ex = tr.exact(10);
                    calls.push(Call { who: d, op: Op::Search(sq), exact: ex });
                    calls.push(Call { who: d, op: Op::BulkQuery(vec![1, 2, 3, 4, 5, 6, 7, 8, 4294967295], true, String::new()), exact: true });
                    calls.push(Call { who: d, op: Op::Query(*r.pick(&[1u64, 2, 3]), true, String::new()), exact: true });
                    calls.push(Call { who: d, op: Op::Usage(None), exact: true });
                    match r.below(4) {
                        0 => calls.push(Call { who: d, op: Op::Delete(*r.pick(&[1u64, 2, 3]), String::new()), exact: true }),
                        1 => calls.push(Call { who: d, op: Op::BatchDeleteIds(vec![1, 2, 3], String::new()), exact: true }),
                        2 => calls.push(Call { who: d, op: Op::BatchDeleteFilter(F::Not(Some(Box::new(F::Exact("nokey".into(), "x".into())))), String::new()), exact: true }),
                        _ => calls.push(Call { who: d, op: Op::Update(*r.pick(&[1u64, 2, 3]), vec![("color".into(), "dax".into())], true, String::new()), exact: true }),
                    }
                    tr.tombstones += 8;
                    for t in 0..nt {
                        calls.push(Call { who: Who::T(t), op: Op::BulkQuery(vec![1, 2, 3, 4, 5, 6, 7, 8, 4294967295], true, String::new()), exact: true });
                    }
                }
                continue;
            }
        }
        let who = match r.below(36) {
            0 => Who::NoKey,
            1 => Who::WrongKey,
            2 => Who::Disabled,
            3 | 4 => Who::Alt,
            5 => Who::T(3),
            6..=9 if dax => Who::T(3),
            _ => Who::T(r.below(nt as u64) as usize),
        };
        let t = tenant_no(who).unwrap_or(0);
        let authed = match who {
            Who::T(3) => dax,
            Who::T(_) | Who::Alt => true,
            _ => false,
        };
        let op = match r.below(100) {
            0..=21 => {
                let it = gen_item(r, nt, &POOL_IDS);
                if authed {
                    tr.write(t, it.id);
                    tr.maybe_hot.insert((t, it.id));
                }
                Op::Insert(it)
            }
            22..=27 => {
                let its: Vec<It> = (0..r.range(1, 4)).map(|_| gen_item(r, nt, &POOL_IDS)).collect();
                if authed {
                    for it in &its {
                        tr.write(t, it.id);
                        tr.maybe_hot.insert((t, it.id));
                    }
                }
                Op::BulkInsert(its)
            }
            28..=31 => {
                // ids that cannot be mirrored in the hot tier right now (see Model/Server.v st_hot)
                let mut ids: Vec<u64> = LOAD_IDS.to_vec();
                ids.extend(POOL_IDS.iter().filter(|i| !tr.maybe_hot.contains(&(t, **i))));
                let its: Vec<It> = (0..r.range(1, 3)).map(|_| gen_item(r, nt, &ids)).filter(|it| !tr.maybe_hot.contains(&(t, it.id))).collect();
                if authed {
                    for it in &its {
                        tr.write(t, it.id);
                    }
                    tr.cold_only = true;
                }
                Op::BulkLoad(its)
            }
            32..=41 => Op::Query(gen_id(r), r.chance(1, 2), gen_ns(r)),
            42..=47 => Op::BulkQuery((0..r.range(0, 5)).map(|_| if r.chance(1, 30) { gen_id(r) } else { *r.pick(&[1u64, 2, 3, 4, 5, 6, 7, 0]) }).collect(), r.chance(1, 2), gen_ns(r)),
            48..=61 => {
                let ns = gen_ns(r);
                Op::Search(gen_sq(r, nt, &ns))
            }
            62..=65 => {
                let ns = gen_ns(r);
                let mut v: Vec<Sq> = (0..r.range(1, 3)).map(|_| gen_sq(r, nt, &ns)).collect();
                // only valid requests inside a stream (an invalid one aborts the response stream)
                for s in v.iter_mut() {
                    if s.k == 0 || s.k > 1000 {
                        s.k = 2;
                    }
                    if s.q.len() != 2 {
                        s.q = vec![0, 0];
                    }
                }
                Op::BulkSearch(v)
            }
            66..=72 => {
                let spoof = r.chance(1, 2);
                Op::Update(gen_id(r), gen_meta(r, spoof, nt), r.chance(1, 2), gen_ns(r))
            }
            73..=79 => {
                if authed {
                    tr.tombstones += 1;
                }
                Op::Delete(gen_id(r), gen_ns(r))
            }
            80..=84 => {
                let ids: Vec<u64> = (0..r.range(0, 4)).map(|_| if r.chance(1, 30) { gen_id(r) } else { *r.pick(&[1u64, 2, 3, 4, 5, 6, 0]) }).collect();
                if authed {
                    tr.tombstones += ids.len() as u64;
                }
                Op::BatchDeleteIds(ids, gen_ns(r))
            }
            85..=89 => {
                if authed {
                    tr.tombstones += 8;
                }
                Op::BatchDeleteFilter(gen_filter(r, 2, nt), gen_ns(r))
            }
            90 => Op::BatchDeleteNone(String::new()),
            91..=93 => {
                let force = r.chance(3, 4);
                if authed && force {
                    tr.cold_only = true;
                    tr.maybe_hot.clear();
                }
                Op::Flush(force)
            }
            _ => Op::Usage(match r.below(6) {
                0 => Some("all".into()),
                1 => Some("SELF".into()),
                2 => Some("bogus".into()),
                _ => None,
            }),
        };
        let exact = match &op {
            Op::Search(s) => tr.exact(s.k),
            Op::BulkSearch(v) => v.iter().all(|s| tr.exact(s.k)),
            _ => true,
        };
        let census = match (&op, authed) {
            (Op::Search(s), true) => Some(s.ns.clone()),
            (Op::BulkSearch(v), true) => v.first().map(|s| s.ns.clone()),
            _ => None,
        };
        calls.push(Call { who, op, exact });
        // census right after every search: what the caller can see in that namespace
        if let Some(ns) = census {
            calls.push(Call { who, op: Op::BulkQuery(vec![1, 2, 3, 4, 5, 6, 7, 8, 4294967295], true, ns), exact: true });
        }
    }
    // closing probes by every tenant: usage + census (+ one flush in some scripts)
    if r.chance(1, 3) {
        calls.push(Call { who: Who::T(0), op: Op::Flush(true), exact: true });
    }
    let mut closers: Vec<usize> = (0..nt).collect();
    if dax {
        closers.push(3);
    }
    for t in closers {
        calls.push(Call { who: Who::T(t), op: Op::BulkQuery(vec![1, 2, 3, 4, 5, 6, 7, 8, 4294967295], true, String::new()), exact: true });
        calls.push(Call { who: Who::T(t), op: Op::Usage(None), exact: true });
    }
    let hint = if dax {
        Some((if idx % 8 == 2 { 1 } else { 2 }, 3))
    } else if attack_script {
        attacker.map(|a| ((a + 1) % nt, a))
    } else {
        None
    };
    Script { nt, calls, hint }
}

// ------------------------------------------------------------------------------------------ JSON (replays)
fn f_json(f: &F) -> Value {
    match f {
        F::Empty => json!(["empty"]),
        F::Exact(k, v) => json!(["exact", k, v]),
        F::In(k, vs) => json!(["in", k, vs]),
        F::And(fs) => json!(["and", fs.iter().map(f_json).collect::<Vec<_>>()]),
        F::Or(fs) => json!(["or", fs.iter().map(f_json).collect::<Vec<_>>()]),
        F::Not(None) => json!(["not", null]),
        F::Not(Some(g)) => json!(["not", f_json(g)]),
    }
}
fn f_from(v: &Value) -> F {
    let s = |x: &Value| x.as_str().unwrap_or("").to_string();
    match v[0].as_str().unwrap_or("") {
        "exact" => F::Exact(s(&v[1]), s(&v[2])),
        "in" => F::In(s(&v[1]), v[2].as_array().map(|a| a.iter().map(s).collect()).unwrap_or_default()),
        "and" => F::And(v[1].as_array().map(|a| a.iter().map(f_from).collect()).unwrap_or_default()),
        "or" => F::Or(v[1].as_array().map(|a| a.iter().map(f_from).collect()).unwrap_or_default()),
        "not" => {
            if v[1].is_null() {
                F::Not(None)
            } else {
                F::Not(Some(Box::new(f_from(&v[1]))))
            }
        }
        _ => F::Empty,
    }
}
fn meta_json(m: &[(String, String)]) -> Value {
    Value::Array(m.iter().map(|(k, v)| json!([k, v])).collect())
}
fn meta_from(v: &Value) -> Vec<(String, String)> {
    v.as_array().map(|a| a.iter().map(|p| (p[0].as_str().unwrap_or("").to_string(), p[1].as_str().unwrap_or("").to_string())).collect()).unwrap_or_default()
}
fn it_json(i: &It) -> Value {
    json!({"id": i.id, "v": i.v, "meta": meta_json(&i.meta), "ns": i.ns})
}
fn it_from(v: &Value) -> It {
    It {
        id: v["id"].as_u64().unwrap_or(0),
        v: v["v"].as_array().map(|a| a.iter().map(|x| x.as_i64().unwrap_or(0) as i32).collect()).unwrap_or_default(),
        meta: meta_from(&v["meta"]),
        ns: v["ns"].as_str().unwrap_or("").to_string(),
    }
}
fn sq_json(s: &Sq) -> Value {
    json!({"q": s.q, "k": s.k, "min_score": s.min_score, "ns": s.ns, "incl": s.incl, "ef": s.ef,
           "filter": s.filter.as_ref().map(f_json), "legacy": meta_json(&s.legacy)})
}
fn sq_from(v: &Value) -> Sq {
    Sq {
        q: v["q"].as_array().map(|a| a.iter().map(|x| x.as_i64().unwrap_or(0) as i32).collect()).unwrap_or_default(),
        k: v["k"].as_u64().unwrap_or(0) as u32,
        min_score: v["min_score"].as_f64().unwrap_or(0.0) as f32,
        ns: v["ns"].as_str().unwrap_or("").to_string(),
        incl: v["incl"].as_bool().unwrap_or(false),
        ef: v["ef"].as_u64().unwrap_or(0) as u32,
        filter: if v["filter"].is_null() { None } else { Some(f_from(&v["filter"])) },
        legacy: meta_from(&v["legacy"]),
    }
}
fn ids_from(v: &Value) -> Vec<u64> {
    v.as_array().map(|a| a.iter().map(|x| x.as_u64().unwrap_or(0)).collect()).unwrap_or_default()
}
fn call_json(c: &Call) -> Value {
    let who = match c.who {
        Who::T(t) => json!(t),
        Who::Alt => json!("alt"),
        Who::Sys => json!("sys"),
        Who::NoKey => json!("nokey"),
        Who::WrongKey => json!("wrongkey"),
        Who::Disabled => json!("disabled"),
    };
    let op = match &c.op {
        Op::Insert(i) => json!(["Insert", it_json(i)]),
        Op::BulkInsert(v) => json!(["BulkInsert", v.iter().map(it_json).collect::<Vec<_>>()]),
        Op::BulkLoad(v) => json!(["BulkLoad", v.iter().map(it_json).collect::<Vec<_>>()]),
        Op::Query(id, incl, ns) => json!(["Query", id, incl, ns]),
        Op::BulkQuery(ids, incl, ns) => json!(["BulkQuery", ids, incl, ns]),
        Op::Search(s) => json!(["Search", sq_json(s)]),
        Op::BulkSearch(v) => json!(["BulkSearch", v.iter().map(sq_json).collect::<Vec<_>>()]),
        Op::Update(id, m, merge, ns) => json!(["Update", id, meta_json(m), merge, ns]),
        Op::Delete(id, ns) => json!(["Delete", id, ns]),
        Op::BatchDeleteIds(ids, ns) => json!(["BatchDeleteIds", ids, ns]),
        Op::BatchDeleteFilter(f, ns) => json!(["BatchDeleteFilter", f_json(f), ns]),
        Op::BatchDeleteNone(ns) => json!(["BatchDeleteNone", ns]),
        Op::Flush(f) => json!(["Flush", f]),
        Op::Usage(s) => json!(["Usage", s]),
        Op::Restart(add) => json!(["Restart", add]),
    };
    json!({"who": who, "op": op, "exact": c.exact})
}
fn call_from(v: &Value) -> Call {
    let who = match &v["who"] {
        Value::Number(n) => Who::T(n.as_u64().unwrap_or(0) as usize),
        Value::String(s) if s == "nokey" => Who::NoKey,
        Value::String(s) if s == "alt" => Who::Alt,
        Value::String(s) if s == "sys" => Who::Sys,
        Value::String(s) if s == "wrongkey" => Who::WrongKey,
        _ => Who::Disabled,
    };
    let o = &v["op"];
    let st = |x: &Value| x.as_str().unwrap_or("").to_string();
    let op = match o[0].as_str().unwrap_or("") {
        "Insert" => Op::Insert(it_from(&o[1])),
        "BulkInsert" => Op::BulkInsert(o[1].as_array().map(|a| a.iter().map(it_from).collect()).unwrap_or_default()),
        "BulkLoad" => Op::BulkLoad(o[1].as_array().map(|a| a.iter().map(it_from).collect()).unwrap_or_default()),
        "Query" => Op::Query(o[1].as_u64().unwrap_or(0), o[2].as_bool().unwrap_or(false), st(&o[3])),
        "BulkQuery" => Op::BulkQuery(ids_from(&o[1]), o[2].as_bool().unwrap_or(false), st(&o[3])),
        "Search" => Op::Search(sq_from(&o[1])),
        "BulkSearch" => Op::BulkSearch(o[1].as_array().map(|a| a.iter().map(sq_from).collect()).unwrap_or_default()),
        "Update" => Op::Update(o[1].as_u64().unwrap_or(0), meta_from(&o[2]), o[3].as_bool().unwrap_or(false), st(&o[4])),
        "Delete" => Op::Delete(o[1].as_u64().unwrap_or(0), st(&o[2])),
        "BatchDeleteIds" => Op::BatchDeleteIds(ids_from(&o[1]), st(&o[2])),
        "BatchDeleteFilter" => Op::BatchDeleteFilter(f_from(&o[1]), st(&o[2])),
        "BatchDeleteNone" => Op::BatchDeleteNone(st(&o[1])),
        "Flush" => Op::Flush(o[1].as_bool().unwrap_or(false)),
        "Restart" => Op::Restart(o[1].as_bool().unwrap_or(false)),
        _ => Op::Usage(if o[1].is_null() { None } else { Some(st(&o[1])) }),
    };
    Call { who, op, exact: v["exact"].as_bool().unwrap_or(false) }
}
fn script_json(s: &Script) -> Value {
    json!({"nt": s.nt, "calls": s.calls.iter().map(call_json).collect::<Vec<_>>()})
}
fn script_from(v: &Value) -> Script {
    Script { hint: None, nt: v["nt"].as_u64().unwrap_or(2) as usize, calls: v["calls"].as_array().map(|a| a.iter().map(call_from).collect()).unwrap_or_default() }
}

// ------------------------------------------------------------------------------------------ running
#[derive(Clone, Debug, PartialEq)]
enum Obs {
    Err(String),
    Insert(bool, u64, u64),
    BulkLoad(bool, u64, u64),
    Query(QueryOut),
    BulkQuery(Vec<QueryOut>, u32, u32),
    Search(SearchOut),
    BulkSearch(Vec<Result<SearchOut, String>>),
    Existed(bool),
    BatchDelete(u64),
    Flush(u64),
    Usage(Vec<UsageRow>),
    Restarted(bool),
    Transport(String),
}
fn f32s(v: &[i32]) -> Vec<f32> {
    v.iter().map(|x| *x as f32 / 8.0).collect()
}
fn to_pbf(f: &F) -> proto::MetadataFilter {
    match f {
        F::Empty => f_empty(),
        F::Exact(k, v) => f_exact(k, v),
        F::In(k, vs) => f_in(k, &vs.iter().map(|s| s.as_str()).collect::<Vec<_>>()),
        F::And(fs) => f_and(fs.iter().map(to_pbf).collect()),
        F::Or(fs) => f_or(fs.iter().map(to_pbf).collect()),
        F::Not(None) => proto::MetadataFilter {
            filter_type: Some(proto::metadata_filter::FilterType::NotFilter(Box::new(proto::NotFilter { filter: None }))),
        },
        F::Not(Some(g)) => f_not(to_pbf(g)),
    }
}
fn to_item(i: &It) -> Item {
    Item { doc_id: i.id, embedding: f32s(&i.v), metadata: i.meta.clone(), namespace: i.ns.clone() }
}
fn to_sreq(s: &Sq) -> SearchReq {
    SearchReq {
        query: f32s(&s.q),
        k: s.k,
        min_score: s.min_score,
        namespace: s.ns.clone(),
        include_embeddings: s.incl,
        ef_search: s.ef,
        filter: s.filter.as_ref().map(to_pbf),
        legacy_filters: s.legacy.clone(),
    }
}
fn errname(e: &RpcErr) -> String {
    e.code.name()
}

fn server_opts(name: &str) -> ServerOpts {
    let mut o = ServerOpts::new("C10", name);
    // acme has TWO enabled keys (key rotation) and sorts before the other tenants
    o.tenants = vec![TenantSpec::new("acme"), TenantSpec::new("acme").key(&make_key("acme", 1)), TenantSpec::new("bolt"), TenantSpec::new("cato")];
    o.tenants.push(TenantSpec::new(DISABLED_TENANT).disabled());
    // 48 physical HNSW slots: the scripts never hold more than ~35 live documents (4 tenants x <= 8 ids), so no
    // insert is ever refused for capacity, but overwrites and deletes fill the slots with tombstones and the
    // canonical insert has to compact them (renumbering every tenant's internal ids) in the middle of a script
    o.env.push(("KYRODB__HNSW__MAX_ELEMENTS".to_string(), "48".to_string()));
    o
}

fn run_script(name: &str, sc: &Script) -> Result<(Vec<Obs>, f64), String> {
    let mut s = Server::start(server_opts(name))?;
    let startup = s.startup.as_secs_f64();
    let mut keys: Vec<String> = TENANTS.iter().map(|t| s.key(t)).collect();
    keys.push(make_key(NEW_TENANT, 0)); // not in the key file until Restart(true)
    let kalt = make_key("acme", 1);
    let kdis = s.key(DISABLED_TENANT);
    let kwrong = make_key("acme", 7); // well-formed, right tenant prefix, wrong secret
    let mut out = vec![];
    for c in &sc.calls {
        let key: Option<&str> = match c.who {
            Who::T(t) => Some(keys[t].as_str()),
            Who::Alt => Some(kalt.as_str()),
            Who::Sys | Who::NoKey => None,
            Who::WrongKey => Some(kwrong.as_str()),
            Who::Disabled => Some(kdis.as_str()),
        };
        let o = match &c.op {
            Op::Insert(i) => match s.insert_item(key, &to_item(i)) {
                Ok(r) => Obs::Insert(r.success, r.total_inserted, r.total_failed),
                Err(e) => Obs::Err(errname(&e)),
            },
            Op::BulkInsert(v) => match s.bulk_insert(key, &v.iter().map(to_item).collect::<Vec<_>>()) {
                Ok(r) => Obs::Insert(r.success, r.total_inserted, r.total_failed),
                Err(e) => Obs::Err(errname(&e)),
            },
            Op::BulkLoad(v) => match s.bulk_load_hnsw(key, &v.iter().map(to_item).collect::<Vec<_>>()) {
                Ok(r) => Obs::BulkLoad(r.success, r.total_loaded, r.total_failed),
                Err(e) => Obs::Err(errname(&e)),
            },
            Op::Query(id, incl, ns) => match s.query(key, *id, *incl, ns) {
                Ok(r) => Obs::Query(r),
                Err(e) => Obs::Err(errname(&e)),
            },
            Op::BulkQuery(ids, incl, ns) => match s.bulk_query(key, ids, *incl, ns) {
                Ok(r) => Obs::BulkQuery(r.results, r.total_found, r.total_requested),
                Err(e) => Obs::Err(errname(&e)),
            },
            Op::Search(q) => match s.search(key, &to_sreq(q)) {
                Ok(r) => Obs::Search(r),
                Err(e) => Obs::Err(errname(&e)),
            },
            Op::BulkSearch(v) => match s.bulk_search(key, &v.iter().map(to_sreq).collect::<Vec<_>>()) {
                Ok(rs) => Obs::BulkSearch(rs.into_iter().map(|r| r.map_err(|e| errname(&e))).collect()),
                Err(e) => Obs::Err(errname(&e)),
            },
            Op::Update(id, m, merge, ns) => match s.update_metadata(key, *id, m, *merge, ns) {
                Ok(r) => Obs::Existed(r.existed),
                Err(e) => Obs::Err(errname(&e)),
            },
            Op::Delete(id, ns) => match s.delete(key, *id, ns) {
                Ok(r) => Obs::Existed(r.existed),
                Err(e) => Obs::Err(errname(&e)),
            },
            Op::BatchDeleteIds(ids, ns) => match s.batch_delete_ids(key, ids, ns) {
                Ok(r) => Obs::BatchDelete(r.deleted_count),
                Err(e) => Obs::Err(errname(&e)),
            },
            Op::BatchDeleteFilter(f, ns) => match s.batch_delete_filter(key, to_pbf(f), ns) {
                Ok(r) => Obs::BatchDelete(r.deleted_count),
                Err(e) => Obs::Err(errname(&e)),
            },
            Op::BatchDeleteNone(ns) => match s.batch_delete_none(key, ns) {
                Ok(r) => Obs::BatchDelete(r.deleted_count),
                Err(e) => Obs::Err(errname(&e)),
            },
            Op::Flush(force) => match s.flush_hot_tier(key, *force) {
                Ok(r) => Obs::Flush(r.documents_flushed),
                Err(e) => Obs::Err(errname(&e)),
            },
            Op::Restart(add) => {
                let clean = s.stop_graceful().unwrap_or(false);
                if *add && s.keys_of(NEW_TENANT).is_empty() {
                    s.add_tenant(TenantSpec::new(NEW_TENANT));
                }
                match s.restart() {
                    Ok(()) => Obs::Restarted(clean),
                    Err(e) => Obs::Transport(format!("restart failed: {}", e)),
                }
            }
            Op::Usage(scope) => match s.usage(key, scope.as_deref()) {
                Ok(u) if u.status == 200 => Obs::Usage(u.tenants),
                Ok(u) => Obs::Err(format!("Http{}", u.status)),
                Err(e) => Obs::Transport(e),
            },
        };
        out.push(o);
    }
    s.kill();
    Ok((out, startup))
}

// ------------------------------------------------------------------------------------------ Gallina
fn cs(s: &str) -> String {
    assert!(s.chars().all(|c| c.is_ascii_alphanumeric() || c == '_'), "unprintable string {:?}", s);
    if s.is_empty() {
        "[]".into()
    } else {
        format!("(s2l \"{}\")", s)
    }
}
fn cn(x: u64) -> String {
    format!("{}%N", x)
}
fn cz(x: i64) -> String {
    if x < 0 {
        format!("({})%Z", x)
    } else {
        format!("{}%Z", x)
    }
}
fn cmeta(m: &[(String, String)]) -> String {
    let mut v: Vec<&(String, String)> = m.iter().collect();
    v.sort();
    format!("[{}]", v.iter().map(|(k, x)| format!("({}, {})", cs(k), cs(x))).collect::<Vec<_>>().join("; "))
}
fn cvec(v: &[i32]) -> String {
    format!("[{}]", v.iter().map(|x| cz(*x as i64)).collect::<Vec<_>>().join("; "))
}
fn cb(b: bool) -> &'static str {
    if b {
        "true"
    } else {
        "false"
    }
}
fn cfilter(f: &F) -> String {
    match f {
        F::Empty => "FNone".into(),
        F::Exact(k, v) => format!("(FExact {} {})", cs(k), cs(v)),
        F::In(k, vs) => format!("(FIn {} [{}])", cs(k), vs.iter().map(|s| cs(s)).collect::<Vec<_>>().join("; ")),
        F::And(fs) => format!("(FAnd [{}])", fs.iter().map(cfilter).collect::<Vec<_>>().join("; ")),
        F::Or(fs) => format!("(FOr [{}])", fs.iter().map(cfilter).collect::<Vec<_>>().join("; ")),
        F::Not(None) => "(FNot None)".into(),
        F::Not(Some(g)) => format!("(FNot (Some {}))", cfilter(g)),
    }
}
fn citem(i: &It) -> String {
    format!("(mkItem {} {} {} {})", cn(i.id), cvec(&i.v), cmeta(&i.meta), cs(&i.ns))
}
fn csq(s: &Sq) -> String {
    format!(
        "(mkSreq {} {} {} {} {} {} {} {})",
        cvec(&s.q),
        cn(s.k as u64),
        cz(s.min_score.to_bits() as i64),
        cs(&s.ns),
        cb(s.incl),
        cn(s.ef as u64),
        match &s.filter {
            None => "None".to_string(),
            Some(f) => format!("(Some {})", cfilter(f)),
        },
        cmeta(&s.legacy)
    )
}
fn ccall(c: &Call) -> String {
    let key = match c.who {
        Who::T(t) => format!("(Some {})", cn(t as u64 + 1)),
        Who::Alt => format!("(Some {})", cn(KEY_ALT)),
        Who::Sys | Who::NoKey => "None".into(),
        Who::WrongKey => format!("(Some {})", cn(KEY_WRONG)),
        Who::Disabled => format!("(Some {})", cn(KEY_DISABLED)),
    };
    let ids = |v: &[u64]| format!("[{}]", v.iter().map(|x| cn(*x)).collect::<Vec<_>>().join("; "));
    let op = match &c.op {
        Op::Insert(i) => format!("RInsert {}", citem(i)),
        Op::BulkInsert(v) => format!("RBulkInsert [{}]", v.iter().map(citem).collect::<Vec<_>>().join("; ")),
        Op::BulkLoad(v) => format!("RBulkLoad [{}]", v.iter().map(citem).collect::<Vec<_>>().join("; ")),
        Op::Query(id, incl, ns) => format!("RQuery {} {} {}", cn(*id), cb(*incl), cs(ns)),
        Op::BulkQuery(v, incl, ns) => format!("RBulkQuery {} {} {}", ids(v), cb(*incl), cs(ns)),
        Op::Search(s) => format!("RSearch {}", csq(s)),
        Op::BulkSearch(v) => format!("RBulkSearch [{}]", v.iter().map(csq).collect::<Vec<_>>().join("; ")),
        Op::Update(id, m, merge, ns) => format!("RUpdateMeta {} {} {} {}", cn(*id), cmeta(m), cb(*merge), cs(ns)),
        Op::Delete(id, ns) => format!("RDelete {} {}", cn(*id), cs(ns)),
        Op::BatchDeleteIds(v, ns) => format!("RBatchDeleteIds {} {}", ids(v), cs(ns)),
        Op::BatchDeleteFilter(f, ns) => format!("RBatchDeleteFilter {} {}", cfilter(f), cs(ns)),
        Op::BatchDeleteNone(ns) => format!("RBatchDeleteNone {}", cs(ns)),
        Op::Flush(f) => format!("RFlush {}", cb(*f)),
        Op::Usage(None) => "RUsage None".into(),
        Op::Usage(Some(s)) => format!("RUsage (Some {})", cs(s)),
        Op::Restart(_) => "RFlush false".into(), // never emitted: restarts separate the phases
    };
    format!("mkCall {} ({})", key, op)
}
/// f32 bits -> coordinate in eighths (999999 when the value is not on the grid: never equal to a model value)
fn eighths(bits: &[u32]) -> Vec<i32> {
    bits.iter()
        .map(|b| {
            let x = f32::from_bits(*b) * 8.0;
            if x.is_finite() && x.fract() == 0.0 && x.abs() < 1000.0 {
                x as i32
            } else {
                999_999
            }
        })
        .collect()
}
fn ccode(name: &str) -> Option<&'static str> {
    Some(match name {
        "Unauthenticated" => "Unauthenticated",
        "InvalidArgument" => "InvalidArgument",
        "ResourceExhausted" => "ResourceExhausted",
        "Internal" => "Internal",
        "Http401" => "Http401",
        "Http403" => "Http403",
        "Http400" => "Http400",
        _ => return None,
    })
}
fn cqres(q: &QueryOut) -> String {
    format!("(mkQres {} {} {} {})", cb(q.found), cn(q.doc_id), cvec(&eighths(&q.embedding)), cmeta(&q.metadata))
}
fn chit(h: &SearchHit) -> String {
    format!("(mkHit {} {} {} {})", cn(h.doc_id), cz(h.score_bits as i64), cvec(&eighths(&h.embedding)), cmeta(&h.metadata))
}
fn tenant_idx(name: &str) -> u64 {
    NAMES.iter().position(|t| *t == name).map(|p| p as u64).unwrap_or(777)
}
/// None = the observation has no Gallina form (unexpected status / transport error): reported as bad.
fn cobs(o: &Obs, exact: bool) -> Option<String> {
    Some(match o {
        Obs::Err(n) => format!("ObsResp (Err {})", ccode(n)?),
        Obs::Insert(s, i, f) => format!("ObsResp (OkInsert {} {} {})", cb(*s), cn(*i), cn(*f)),
        Obs::BulkLoad(s, i, f) => format!("ObsResp (OkBulkLoad {} {} {})", cb(*s), cn(*i), cn(*f)),
        Obs::Query(q) => format!("ObsResp (OkQuery {})", cqres(q)),
        Obs::BulkQuery(rs, tf, tr) => format!("ObsResp (OkBulkQuery [{}] {} {})", rs.iter().map(cqres).collect::<Vec<_>>().join("; "), cn(*tf as u64), cn(*tr as u64)),
        Obs::Search(s) => format!("ObsSearch {} [{}] {}", cb(exact), s.hits.iter().map(chit).collect::<Vec<_>>().join("; "), cn(s.total_found as u64)),
        Obs::BulkSearch(rs) => {
            let mut parts = vec![];
            for r in rs {
                parts.push(match r {
                    Ok(s) => format!("SOk [{}] {}", s.hits.iter().map(chit).collect::<Vec<_>>().join("; "), cn(s.total_found as u64)),
                    Err(n) => format!("SErr {}", ccode(n)?),
                });
            }
            format!("ObsBulkSearch {} [{}]", cb(exact), parts.join("; "))
        }
        Obs::Existed(b) => format!("ObsResp (OkExisted {})", cb(*b)),
        Obs::BatchDelete(n) => format!("ObsResp (OkBatchDelete {})", cn(*n)),
        Obs::Flush(n) => format!("ObsResp (OkFlush {})", cn(*n)),
        Obs::Usage(rows) => format!(
            "ObsResp (OkUsage [{}])",
            rows.iter()
                .map(|r| format!("({}, mkUsage {} {} {} {} {})", cn(tenant_idx(&r.tenant_id)), cn(r.query_count), cn(r.insert_count), cn(r.delete_count), cn(r.vector_count), cn(r.storage_bytes)))
                .collect::<Vec<_>>()
                .join("; ")
        ),
        Obs::Restarted(_) | Obs::Transport(_) => return None,
    })
}
fn score_bits(d64: i64) -> u32 {
    let dist = ((d64 as f32) / 64.0).sqrt();
    (1.0f32 / (1.0 + dist.max(0.0))).to_bits()
}
const MAX_D: i64 = 2000;
fn preamble() -> String {
    let mut t = String::new();
    for d in 0..=MAX_D {
        if d > 0 {
            t.push_str("; ");
        }
        let _ = write!(t, "({}, {})", cz(d), cz(score_bits(d) as i64));
    }
    format!(
        "From Coq Require Import List NArith ZArith Bool String.\nFrom Kyro Require Import Model.Server.\nImport ListNotations.\nOpen Scope N_scope.\n\
         Definition score_tab : list (Z * Z) := [{}].\nDefinition sc := ztab score_tab.\n\
         Definition specs1 : list keyspec := [mkSpec 1 (s2l \"acme\") true false 1000000; mkSpec {alt} (s2l \"acme\") true false 1000000; mkSpec 2 (s2l \"bolt\") true false 1000000; mkSpec 3 (s2l \"cato\") true false 1000000; mkSpec {dis} (s2l \"dis\") false false 1000000].\n\
         Definition specs2 : list keyspec := specs1 ++ [mkSpec 4 (s2l \"dax\") true false 1000000].\n\
         Definition tm1 : tmap := tmap_create (enabled_tids specs1).\nDefinition tm2 : tmap := tmap_ensure_all tm1 (enabled_tids specs2).\n\
         Definition cfg1 : config := mk_config tm1 specs1 2.\nDefinition cfg2 : config := mk_config tm2 specs2 2.\n",
        t, alt = KEY_ALT, dis = KEY_DISABLED
    )
}

// ------------------------------------------------------------------------------------------ direct oracles
fn is_search(op: &Op) -> bool {
    matches!(op, Op::Search(_) | Op::BulkSearch(_))
}
fn reserved(k: &str) -> bool {
    k == "__tenant_id__" || k == "__tenant_idx__" || k == "__namespace__"
}
fn obs_metas(o: &Obs) -> Vec<&Meta> {
    match o {
        Obs::Query(q) => vec![&q.metadata],
        Obs::BulkQuery(rs, _, _) => rs.iter().map(|q| &q.metadata).collect(),
        Obs::Search(s) => s.hits.iter().map(|h| &h.metadata).collect(),
        Obs::BulkSearch(rs) => rs.iter().filter_map(|r| r.as_ref().ok()).flat_map(|s| s.hits.iter().map(|h| &h.metadata)).collect(),
        _ => vec![],
    }
}
/// hits of one search answer against the census taken right after it (same caller, same namespace)
fn containment(sq: &Sq, out: &SearchOut, census: &Obs) -> Option<String> {
    let Obs::BulkQuery(rows, _, _) = census else { return Some("census missing after search".into()) };
    if out.hits.len() > sq.k as usize {
        return Some(format!("{} hits for k={}", out.hits.len(), sq.k));
    }
    let mut seen = BTreeSet::new();
    let mut last: Option<f32> = None;
    for h in &out.hits {
        if !seen.insert(h.doc_id) {
            return Some(format!("duplicate hit id {}", h.doc_id));
        }
        let Some(row) = rows.iter().find(|r| r.doc_id == h.doc_id && r.found) else {
            return Some(format!("hit id {} is not a document the caller can read in namespace {:?}", h.doc_id, sq.ns));
        };
        if row.metadata != h.metadata {
            return Some(format!("hit id {} metadata {:?} differs from the caller's document {:?}", h.doc_id, h.metadata, row.metadata));
        }
        if sq.incl && row.embedding != h.embedding {
            return Some(format!("hit id {} embedding differs from the caller's document", h.doc_id));
        }
        if !sq.incl && !h.embedding.is_empty() {
            return Some(format!("hit id {} carries an embedding that was not requested", h.doc_id));
        }
        if sq.q.len() == 2 && row.embedding.len() == 2 {
            let e = eighths(&row.embedding);
            let d: i64 = (0..2).map(|i| ((sq.q[i] - e[i]) as i64).pow(2)).sum();
            if d <= MAX_D && score_bits(d) != h.score_bits {
                return Some(format!("hit id {} score bits {} != score of the caller's own vector {}", h.doc_id, h.score_bits, score_bits(d)));
            }
        }
        let sc = f32::from_bits(h.score_bits);
        if let Some(l) = last {
            if sc > l {
                return Some("hits not ordered by score".into());
            }
        }
        last = Some(sc);
        if sq.min_score > 0.0 && sc < sq.min_score {
            return Some("hit below min_score".into());
        }
    }
    None
}
/// what must agree between two runs of a Search-family call: per request the multiset of scores
/// and total_found (ids inside an equal-score class may legitimately differ)
fn search_sig(o: &Obs) -> Vec<(Vec<u32>, u32, String)> {
    let one = |s: &SearchOut| {
        let mut v: Vec<u32> = s.hits.iter().map(|h| h.score_bits).collect();
        v.sort();
        (v, s.total_found, String::new())
    };
    match o {
        Obs::Search(s) => vec![one(s)],
        Obs::BulkSearch(rs) => rs.iter().map(|r| match r {
            Ok(s) => one(s),
            Err(e) => (vec![], 0, e.clone()),
        }).collect(),
        Obs::Err(e) => vec![(vec![], 0, e.clone())],
        _ => vec![(vec![], 0, "other".into())],
    }
}
fn search_summary(o: &Obs) -> Value {
    match o {
        Obs::Search(s) => json!({"ids": s.hits.iter().map(|h| h.doc_id).collect::<Vec<_>>(), "total_found": s.total_found}),
        Obs::BulkSearch(rs) => json!(rs.iter().map(|r| match r {
            Ok(s) => json!({"ids": s.hits.iter().map(|h| h.doc_id).collect::<Vec<_>>(), "total_found": s.total_found}),
            Err(e) => json!({"err": e}),
        }).collect::<Vec<_>>()),
        Obs::Err(e) => json!({"err": e}),
        _ => json!(null),
    }
}
/// drop the diagnostic tier/path numbers before comparing two runs
fn strip_diag(o: &Obs) -> Obs {
    let q = |q: &QueryOut| QueryOut { served_from: 0, error: String::new(), ..q.clone() };
    match o {
        Obs::Query(x) => Obs::Query(q(x)),
        Obs::BulkQuery(rs, a, b) => Obs::BulkQuery(rs.iter().map(q).collect(), *a, *b),
        Obs::Search(s) => Obs::Search(SearchOut { search_path: 0, error: String::new(), ..s.clone() }),
        Obs::BulkSearch(rs) => Obs::BulkSearch(rs.iter().map(|r| r.clone().map(|s| SearchOut { search_path: 0, error: String::new(), ..s })).collect()),
        other => other.clone(),
    }
}

struct Outcome {
    script: Script,
    full: Vec<Obs>,
    reduced_script: Script,
    reduced: Vec<Obs>,
    failures: Vec<Value>, // direct-oracle failures (VIOLATION candidates)
    known: Vec<Value>,    // differences of a known class: {"class": id, ...}
    startup: f64,
}

fn evaluate(id: usize, sc: &Script, a: usize, b: usize, tag: &str) -> Result<Outcome, String> {
    let (full, st1) = run_script(&format!("{}{}-full", tag, id), sc)?;
    let reduced_script = Script { hint: None, nt: sc.nt, calls: sc.calls.iter().filter(|c| tenant_no(c.who) != Some(b)).cloned().collect() };
    let (reduced, st2) = run_script(&format!("{}{}-reduced", tag, id), &reduced_script)?;
    let mut failures = vec![];
    let mut known = vec![];
    let case = |why: String, idx: usize| json!({"id": id, "why": why, "call_index": idx, "victim": a, "removed": b, "case": script_json(sc)});
    // --- oracle 1: refusals, reserved keys never returned, containment against the census
    let authed = authed_flags(sc);
    // oracle 3 bookkeeping: tenants that have not written anything yet must see nothing at all
    let mut wrote = [false; 4];
    for (i, (c, o)) in sc.calls.iter().zip(full.iter()).enumerate() {
        if let Obs::Transport(e) = o {
            failures.push(case(format!("transport error: {}", e), i));
            continue;
        }
        if c.who == Who::Sys {
            continue;
        }
        if let (Some(t), true) = (tenant_no(c.who), authed[i]) {
            if !wrote[t] {
                let sees = match o {
                    Obs::Query(q) => q.found,
                    Obs::BulkQuery(rs, tf, _) => *tf > 0 || rs.iter().any(|q| q.found),
                    Obs::Search(s) => !s.hits.is_empty() || s.total_found > 0,
                    Obs::BulkSearch(rs) => rs.iter().any(|r| r.as_ref().map(|s| !s.hits.is_empty() || s.total_found > 0).unwrap_or(false)),
                    Obs::Existed(b) => *b,
                    Obs::BatchDelete(n) => *n > 0,
                    Obs::Usage(rows) => rows.iter().any(|r| r.vector_count > 0 || r.insert_count > 0 || r.delete_count > 0),
                    _ => false,
                };
                if sees {
                    failures.push(case(format!("tenant {} has written nothing yet but {} shows it existing documents: {:?}", NAMES[t], opname(&c.op), o), i));
                }
            }
            if matches!(c.op, Op::Insert(_) | Op::BulkInsert(_) | Op::BulkLoad(_)) {
                wrote[t] = true;
            }
        }
        if !authed[i] {
            let want = if matches!(c.op, Op::Usage(_)) { "Http401" } else { "Unauthenticated" };
            if *o != Obs::Err(want.into()) {
                failures.push(case(format!("{} with {:?} was not refused: {:?}", opname(&c.op), c.who, o), i));
            }
            continue;
        }
        for m in obs_metas(o) {
            if m.iter().any(|(k, _)| reserved(k)) {
                failures.push(case(format!("reserved key returned to the client: {:?}", m), i));
            }
        }
        if let Obs::Usage(rows) = o {
            let Some(t) = tenant_no(c.who) else { continue };
            if rows.iter().any(|r| r.tenant_id != NAMES[t]) {
                failures.push(case(format!("/usage of {} lists other tenants: {:?}", NAMES[t], rows), i));
            }
        }
        match (&c.op, o) {
            (Op::Search(sq), Obs::Search(out)) => {
                if let Some(why) = containment(sq, out, full.get(i + 1).unwrap_or(&Obs::Existed(false))) {
                    failures.push(case(format!("Search containment: {}", why), i));
                }
            }
            (Op::Update(_, m, _, _), _) if m.iter().any(|(k, _)| reserved(k)) && i >= 1 && i + 1 < full.len() => {
                // server-owned keys are not settable: an UpdateMetadata carrying them, framed by two censuses of
                // the SAME tenant over the same ids, must not change which of its documents that tenant sees
                let same = |x: &Call, y: &Call| x.who == y.who && matches!((&x.op, &y.op), (Op::BulkQuery(a, _, na), Op::BulkQuery(b, _, nb)) if a == b && na == nb);
                if sc.calls[i - 1].who == c.who && same(&sc.calls[i - 1], &sc.calls[i + 1]) {
                    if let (Obs::BulkQuery(before, _, _), Obs::BulkQuery(after, _, _)) = (&full[i - 1], &full[i + 1]) {
                        let f = |rows: &Vec<_>| -> Vec<(u64, bool)> { rows.iter().map(|r: &kvh_srv::QueryOut| (r.doc_id, r.found)).collect() };
                        if f(before) != f(after) {
                            failures.push(case(format!("UpdateMetadata carrying server-owned keys {:?} changed which documents its own caller sees: before {:?}, after {:?}", m, f(before), f(after)), i));
                        }
                    }
                }
            }
            (Op::BulkSearch(sqs), Obs::BulkSearch(outs)) => {
                if outs.len() != sqs.len() {
                    failures.push(case(format!("BulkSearch answered {} of {} requests", outs.len(), sqs.len()), i));
                }
                for (sq, out) in sqs.iter().zip(outs.iter()) {
                    if let Ok(out) = out {
                        if let Some(why) = containment(sq, out, full.get(i + 1).unwrap_or(&Obs::Existed(false))) {
                            failures.push(case(format!("BulkSearch containment: {}", why), i));
                        }
                    }
                }
            }
            _ => {}
        }
    }
    // --- oracle 2: noninterference — A's answers with and without B's calls
    let a_full: Vec<(usize, &Call, &Obs)> = sc.calls.iter().zip(full.iter()).enumerate().filter(|(_, (c, _))| tenant_no(c.who) == Some(a)).map(|(i, (c, o))| (i, c, o)).collect();
    let a_red: Vec<&Obs> = reduced_script.calls.iter().zip(reduced.iter()).filter(|(c, _)| tenant_no(c.who) == Some(a)).map(|(_, o)| o).collect();
    for ((i, c, of), or) in a_full.iter().zip(a_red.iter()) {
        let (x, y) = (strip_diag(of), strip_diag(or));
        if x == y {
            continue;
        }
        if is_search(&c.op) && search_sig(&x) == search_sig(&y) {
            // same scores and total_found: only the order / choice among equal-distance ties differs
            // (hash-map and HNSW order; not an isolation matter, sound by oracle 1 + model)
            known.push(json!({"class": "tie-order-only", "id": id, "call_index": i}));
        } else if is_search(&c.op) {
            // both answers are individually sound (oracle 1 + model); they differ only because the
            // global candidate cut includes tenant B's documents
            known.push(json!({"class": "C10-search-count-depends-on-other-tenants", "id": id, "call_index": i,
                "with_other_tenant": search_summary(&x), "without_other_tenant": search_summary(&y),
                "victim": NAMES[a], "removed": NAMES[b], "case": script_json(sc)}));
        } else if let (Obs::Flush(n1), Obs::Flush(n2)) = (&x, &y) {
            known.push(json!({"class": "C10-flush-count-is-process-wide", "id": id, "call_index": i,
                "with_other_tenant": n1, "without_other_tenant": n2,
                "victim": NAMES[a], "removed": NAMES[b], "case": script_json(sc)}));
        } else {
            failures.push(case(format!("{} answer of tenant {} depends on tenant {}'s calls: {:?} vs {:?}", opname(&c.op), NAMES[a], NAMES[b], x, y), *i));
        }
    }
    if a_full.len() != a_red.len() {
        failures.push(case("internal: victim call count differs between runs".into(), 0));
    }
    Ok(Outcome { script: sc.clone(), full, reduced_script, reduced, failures, known, startup: (st1 + st2) / 2.0 })
}

fn coq_case(cid: usize, sc: &Script, obs: &[Obs]) -> (String, Vec<usize>) {
    let mut unprintable = vec![];
    // phases separated by Restart ops: (config name, index of first call, entries)
    let mut phases: Vec<(&'static str, usize, Vec<String>)> = vec![("cfg1", 0, vec![])];
    let mut cfg_now = "cfg1";
    for (i, (c, o)) in sc.calls.iter().zip(obs.iter()).enumerate() {
        if let Op::Restart(add) = c.op {
            if add {
                cfg_now = "cfg2";
            }
            if let Obs::Transport(_) = o {
                unprintable.push(i);
            }
            phases.push((cfg_now, i + 1, vec![]));
            continue;
        }
        let entry = match cobs(o, c.exact) {
            Some(t) => format!("({}, {})", ccall(c), t),
            None => {
                unprintable.push(i);
                format!("({}, ObsResp (Err Http400))", ccall(c))
            }
        };
        phases.last_mut().unwrap().2.push(entry);
    }
    let ph: Vec<String> = phases.iter().map(|(cfg, i0, es)| format!("({}, {}, [\n   {}])", cfg, cn(*i0 as u64), es.join(";\n   "))).collect();
    (format!("({}, [{}])", cn(cid as u64), ph.join(";\n  ")), unprintable)
}

fn main() {
    let args: Vec<String> = std::env::args().collect();
    let mut out = String::from("/verif/.cache/run/C10/out");
    let mut n = 36usize;
    let mut threads = 6usize;
    let mut replay: Option<String> = None;
    let mut i = 1;
    while i < args.len() {
        match args[i].as_str() {
            "--out" => {
                out = args[i + 1].clone();
                i += 1
            }
            "--n" => {
                n = args[i + 1].parse().unwrap();
                i += 1
            }
            "--threads" => {
                threads = args[i + 1].parse().unwrap();
                i += 1
            }
            "--replay" => {
                replay = Some(args[i + 1].clone());
                i += 1
            }
            _ => {}
        }
        i += 1;
    }
    std::fs::create_dir_all(&out).unwrap();
    // (script, victim, removed)
    let mut scripts: Vec<(Script, usize, usize)> = vec![];
    if let Some(p) = &replay {
        let v: Value = serde_json::from_str(&std::fs::read_to_string(p).unwrap()).unwrap();
        let cv = if v.get("case").is_some() { v["case"].clone() } else { v.clone() };
        let a = v.get("victim").and_then(|x| x.as_u64()).unwrap_or(0) as usize;
        let b = v.get("removed").and_then(|x| x.as_u64()).unwrap_or(1) as usize;
        scripts.push((script_from(&cv), a, b));
    } else {
        if let Ok(rd) = std::fs::read_dir("/verif/corpus/C10") {
            let mut ps: Vec<_> = rd.filter_map(|e| e.ok()).map(|e| e.path()).collect();
            ps.sort();
            for p in ps {
                if let Ok(s) = std::fs::read_to_string(&p) {
                    if let Ok(v) = serde_json::from_str::<Value>(&s) {
                        let cv = if v.get("case").is_some() { v["case"].clone() } else { v.clone() };
                        scripts.push((script_from(&cv), 0, 1));
                    }
                }
            }
        }
        let mut rng = Rng::from_env();
        for k in 0..n {
            let mut r = rng.fork(k as u64);
            let sc = gen_script(&mut r, k);
            // victim / removed tenant: mostly A=0,B=1; sometimes the other way round or the third tenant
            let (a, b) = match (sc.hint, k % 4) {
                (Some(h), _) => h,
                (None, 1) => (1, 0),
                (None, 3) if sc.nt == 3 => (0, 2),
                _ => (0, 1),
            };
            scripts.push((sc, a, b));
        }
    }
    let t0 = std::time::Instant::now();
    let work = std::sync::Arc::new(std::sync::Mutex::new((0usize, Vec::<(usize, Result<Outcome, String>)>::new())));
    let scripts = std::sync::Arc::new(scripts);
    let tag = format!("s{}-", std::process::id() % 1000);
    let mut hs = vec![];
    for _ in 0..threads.max(1) {
        let work = work.clone();
        let scripts = scripts.clone();
        let tag = tag.clone();
        hs.push(std::thread::spawn(move || loop {
            let k = {
                let mut w = work.lock().unwrap();
                let k = w.0;
                w.0 += 1;
                k
            };
            if k >= scripts.len() {
                break;
            }
            let (sc, a, b) = &scripts[k];
            let r = evaluate(k, sc, *a, *b, &tag);
            work.lock().unwrap().1.push((k, r));
        }));
    }
    for h in hs {
        let _ = h.join();
    }
    let mut results = std::mem::take(&mut work.lock().unwrap().1);
    results.sort_by_key(|(k, _)| *k);

    let mut failures: Vec<Value> = vec![];
    let mut known: Vec<Value> = vec![];
    let mut run_errors: Vec<Value> = vec![];
    let mut all: Vec<Value> = vec![];
    let mut hist: BTreeMap<String, u64> = BTreeMap::new();
    let mut resp_hist: BTreeMap<String, u64> = BTreeMap::new();
    let mut case_texts: Vec<String> = vec![];
    let mut case_index: Vec<Value> = vec![]; // coq case id -> (script, run)
    let mut distinct = HashSet::new();
    let mut nontrivial = 0u64;
    let mut rpcs = 0u64;
    let mut startup_sum = 0.0;
    let mut samples = vec![];
    let mut searches = 0u64;
    let mut searches_exact = 0u64;
    let mut tie_only = 0u64;
    for (k, r) in results {
        let o = match r {
            Ok(o) => o,
            Err(e) => {
                run_errors.push(json!({"id": k, "error": e}));
                continue;
            }
        };
        startup_sum += o.startup;
        for (c, ob) in o.script.calls.iter().zip(o.full.iter()) {
            *hist.entry(opname(&c.op).to_string()).or_default() += 1;
            if tenant_no(c.who).is_none() && c.who != Who::Sys {
                *hist.entry("unauthenticated-call".into()).or_default() += 1;
            }
            if c.who == Who::Alt {
                *hist.entry("call-through-second-key-of-tenant".into()).or_default() += 1;
            }
            if let Op::BulkLoad(v) | Op::BulkInsert(v) = &c.op {
                *hist.entry("bulk-items-with-out-of-range-id".into()).or_default() += v.iter().filter(|i| i.id > u32::MAX as u64).count() as u64;
            }
            let cls = match ob {
                Obs::Err(e) => format!("err:{}", e),
                Obs::Transport(_) => "transport".into(),
                Obs::Query(q) => format!("query:{}", if q.found { "found" } else { "notfound" }),
                Obs::Search(s) => format!("search:{}", if s.hits.is_empty() { "empty" } else { "hits" }),
                Obs::Existed(b) => format!("existed:{}", b),
                _ => "ok".into(),
            };
            *resp_hist.entry(cls).or_default() += 1;
            if is_search(&c.op) {
                searches += 1;
                if c.exact {
                    searches_exact += 1;
                }
            }
        }
        rpcs += (o.script.calls.len() + o.reduced_script.calls.len()) as u64;
        // non-trivial: a local id written by two tenants and later read by one of them
        let mut writers: BTreeMap<u64, BTreeSet<usize>> = BTreeMap::new();
        let mut exercised = false;
        for c in &o.script.calls {
            let Who::T(t) = c.who else { continue };
            let mut w = |id: u64| {
                writers.entry(id).or_default().insert(t);
            };
            match &c.op {
                Op::Insert(i) => w(i.id),
                Op::BulkInsert(v) | Op::BulkLoad(v) => v.iter().for_each(|i| w(i.id)),
                Op::Query(id, ..) | Op::Delete(id, _) | Op::Update(id, ..) => {
                    if writers.get(id).map(|s| s.len() >= 2).unwrap_or(false) {
                        exercised = true;
                    }
                }
                Op::Search(_) | Op::BulkSearch(_) | Op::BatchDeleteFilter(..) => {
                    if writers.values().any(|s| s.len() >= 2) {
                        exercised = true;
                    }
                }
                _ => {}
            }
        }
        let key = format!("{:?}{:?}", o.script.calls, o.full.iter().map(strip_diag).collect::<Vec<_>>());
        if distinct.insert(key) && exercised {
            nontrivial += 1;
        }
        failures.extend(o.failures.iter().cloned());
        for kk in o.known.iter() {
            if kk["class"] == "tie-order-only" {
                tie_only += 1;
            } else {
                known.push(kk.clone());
            }
        }
        for (run, sc, obs) in [("full", &o.script, &o.full), ("reduced", &o.reduced_script, &o.reduced)] {
            let cid = case_texts.len();
            let (text, unprintable) = coq_case(cid, sc, obs);
            for u in unprintable {
                failures.push(json!({"id": k, "why": format!("response outside the modelled vocabulary at call {} of the {} run: {:?}", u, run, obs[u]), "call_index": u, "case": script_json(sc)}));
            }
            case_texts.push(text);
            case_index.push(json!({"script": k, "run": run}));
        }
        if samples.len() < 2 {
            samples.push(json!({"script": script_json(&o.script)["calls"].as_array().map(|a| a.iter().take(6).cloned().collect::<Vec<_>>()), "n_calls": o.script.calls.len()}));
        }
        all.push(json!({"id": k, "case": script_json(&o.script), "full": format!("{:?}", o.full), "reduced_case": script_json(&o.reduced_script), "reduced": format!("{:?}", o.reduced)}));
    }
    // shards of cases
    let per = 8usize;
    let mut shards = 0usize;
    let pre = preamble();
    for (k, chunk) in case_texts.chunks(per).enumerate() {
        let text = format!(
            "{}Definition cases : list (N * list (config * N * list (call * obs))) := [\n  {}\n].\n\
             Definition bad : list (N * N) := flat_map (fun c => map (fun i => (fst c, i)) (check_phases dec_str sc (snd c))) cases.\n\
             Goal True. idtac \"@@bad\". Abort.\nEval vm_compute in bad.\nGoal True. idtac \"@@count\". Abort.\nEval vm_compute in (N.of_nat (List.length cases)).\n\
             Goal True. idtac \"@@calls\". Abort.\nEval vm_compute in (N.of_nat (List.length (flat_map (fun c => flat_map (fun p => snd p) (snd c)) cases))).\nGoal True. idtac \"@@end\". Abort.\n",
            pre,
            chunk.join(";\n  ")
        );
        std::fs::write(format!("{}/cases_{}.v", out, k), text).unwrap();
        shards = k + 1;
    }
    let n_ok = all.len();
    let summary = json!({
        "scripts": scripts.len(), "scripts_run": n_ok, "server_runs": 2 * n_ok, "rpcs": rpcs, "shards": shards,
        "coq_cases": case_texts.len(), "case_index": case_index,
        "oracle_failures": failures, "known_class_hits": known, "run_errors": run_errors,
        "distinct": distinct.len(), "nontrivial": nontrivial,
        "histogram": {"ops": hist, "responses": resp_hist, "search_family_calls": searches, "search_family_calls_in_exact_regime": searches_exact, "search_answers_differing_only_in_tie_order_between_runs": tie_only},
        "samples": samples, "avg_server_startup_s": if n_ok > 0 { startup_sum / n_ok as f64 } else { 0.0 },
        "wall_s": t0.elapsed().as_secs_f64(),
    });
    std::fs::write(format!("{}/summary.json", out), serde_json::to_string_pretty(&summary).unwrap()).unwrap();
    std::fs::write(format!("{}/all_cases.json", out), serde_json::to_string(&all).unwrap()).unwrap();
    println!(
        "c10: {} scripts ({} server runs, {} RPCs) in {:.1}s; oracle failures {}; known-class differences {}; run errors {}",
        n_ok,
        2 * n_ok,
        rpcs,
        t0.elapsed().as_secs_f64(),
        summary["oracle_failures"].as_array().unwrap().len(),
        summary["known_class_hits"].as_array().unwrap().len(),
        summary["run_errors"].as_array().unwrap().len()
    );
}
