//! Compiles the CURRENT text of /repo/engine/src/simd.rs into this driver (the module is
//! `pub(crate)` in the engine) and generates a table of every `*_<isa>_entry` wrapper found in it.
//!
//! OUT_DIR/simd_src.rs   = simd.rs minus the leading `//!` lines and minus the `#[cfg(test)] mod tests` tail
//! OUT_DIR/simd_table.rs = `kernel_table()`, `UNKNOWN_ENTRIES`, `SIMD_SRC_PATH`
use std::fmt::Write as _;

const SRC: &str = "/repo/engine/src/simd.rs";

struct Entry {
    name: String,  // full fn name, e.g. dot_f32_avx2_entry
    base: String,  // dot_f32
    isa: String,   // avx2
    shape: String, // Unary | Binary | Triple
    x86_only: bool,
}

fn main() {
    println!("cargo:rerun-if-changed={}", SRC);
    println!("cargo:rerun-if-changed=build.rs");
    println!("cargo::rustc-check-cfg=cfg(kyrodb_verif)");
    let text = std::fs::read_to_string(SRC).expect("read /repo/engine/src/simd.rs");
    let lines: Vec<&str> = text.lines().collect();

    // 1. strip leading inner-doc lines (and blank lines between them)
    let mut start = 0;
    while start < lines.len() {
        let t = lines[start].trim_start();
        if t.starts_with("//!") || t.starts_with("#![") || t.is_empty() {
            start += 1;
        } else {
            break;
        }
    }
    // 2. cut the unit-test tail
    let mut end = lines.len();
    for i in start..lines.len() {
        if lines[i].trim() == "#[cfg(test)]" {
            let mut j = i + 1;
            while j < lines.len() && lines[j].trim().is_empty() {
                j += 1;
            }
            if j < lines.len() && lines[j].trim_start().starts_with("mod tests") {
                end = i;
                break;
            }
        }
    }
    let body: Vec<&str> = lines[start..end].to_vec();
    let out_dir = std::env::var("OUT_DIR").unwrap();
    let mut src_out = String::new();
    for l in &body {
        // an inner doc comment in the middle of an included file would not parse
        if l.trim_start().starts_with("//!") {
            src_out.push_str("// ");
        }
        src_out.push_str(l);
        src_out.push('\n');
    }
    std::fs::write(format!("{}/simd_src.rs", out_dir), src_out).unwrap();

    // 3. scan for `fn <base>_<isa>_entry(`
    let mut entries: Vec<Entry> = vec![];
    let mut unknown: Vec<String> = vec![];
    for (i, l) in body.iter().enumerate() {
        let t = l.trim_start();
        let rest = if let Some(p) = t.find("fn ") {
            // only plain item headers: everything before `fn ` must be visibility/qualifiers
            let pre = t[..p].trim();
            let ok = pre.is_empty()
                || pre
                    .split_whitespace()
                    .all(|w| w == "pub" || w.starts_with("pub(") || w == "unsafe" || w == "const" || w == "extern");
            if !ok || t.starts_with("//") {
                continue;
            }
            &t[p + 3..]
        } else {
            continue;
        };
        let Some(paren) = rest.find('(') else { continue };
        let name = rest[..paren].trim();
        if !name.ends_with("_entry") || !name.chars().all(|c| c.is_ascii_alphanumeric() || c == '_') {
            continue;
        }
        let stem = &name[..name.len() - "_entry".len()];
        let Some(us) = stem.rfind('_') else {
            unknown.push(name.to_string());
            continue;
        };
        let (base, isa) = (&stem[..us], &stem[us + 1..]);
        // signature text: from this line up to the opening brace
        let mut sig = String::new();
        let mut j = i;
        while j < body.len() {
            sig.push_str(body[j]);
            sig.push(' ');
            if body[j].contains('{') {
                break;
            }
            j += 1;
        }
        let sig = sig.split('{').next().unwrap_or("").to_string();
        let compact: String = sig.chars().filter(|c| !c.is_whitespace()).collect();
        let (params, ret) = match compact.find(")->") {
            Some(p) => (compact[..p].to_string(), compact[p + 3..].to_string()),
            None => (compact.clone(), String::new()),
        };
        let n_slices = params.matches("&[f32]").count();
        let n_params = params.matches(':').count();
        let shape = if n_slices == 1 && n_params == 1 && ret == "f32" {
            "Unary"
        } else if n_slices == 2 && n_params == 2 && ret == "f32" {
            "Binary"
        } else if n_slices == 2 && n_params == 2 && ret == "(f32,f32,f32)" {
            "Triple"
        } else {
            ""
        };
        // look back over the attribute lines for a target_arch cfg
        let mut x86_only = false;
        let mut other_arch = false;
        let mut k = i;
        while k > 0 {
            k -= 1;
            let a = body[k].trim();
            if a.starts_with("#[") {
                if a.contains("target_arch") {
                    if a.contains("x86_64") {
                        x86_only = true;
                    } else {
                        other_arch = true;
                    }
                }
            } else if a.starts_with("///") || a.is_empty() {
                continue;
            } else {
                break;
            }
        }
        if other_arch {
            continue; // e.g. aarch64 NEON wrappers: not compiled on this target
        }
        let known_isa = matches!(isa, "scalar" | "sse2" | "avx2" | "avx512");
        if !known_isa || shape.is_empty() {
            unknown.push(name.to_string());
            continue;
        }
        entries.push(Entry {
            name: name.to_string(),
            base: base.to_string(),
            isa: isa.to_string(),
            shape: shape.to_string(),
            x86_only,
        });
    }

    let mut t = String::new();
    t.push_str(
        "#[derive(Clone, Copy)]\npub enum KFn {\n    Unary(fn(&[f32]) -> f32),\n    Binary(fn(&[f32], &[f32]) -> f32),\n    Triple(fn(&[f32], &[f32]) -> (f32, f32, f32)),\n}\n\
         #[derive(Clone, Copy)]\npub struct KernelRef {\n    pub name: &'static str,\n    pub base: &'static str,\n    pub isa: &'static str,\n    pub lanes: usize,\n    pub f: KFn,\n}\n",
    );
    let _ = writeln!(t, "pub const SIMD_SRC_PATH: &str = {:?};", SRC);
    let _ = writeln!(t, "pub const UNKNOWN_ENTRIES: &[&str] = &{:?};", unknown);
    let _ = writeln!(
        t,
        "pub const ALL_ENTRIES: &[&str] = &{:?};",
        entries.iter().map(|e| e.name.clone()).collect::<Vec<_>>()
    );
    t.push_str("pub fn kernel_table() -> Vec<KernelRef> {\n    let mut v: Vec<KernelRef> = Vec::new();\n");
    let push = |t: &mut String, e: &Entry, lanes: usize, indent: &str| {
        let _ = writeln!(
            t,
            "{}v.push(KernelRef {{ name: {:?}, base: {:?}, isa: {:?}, lanes: {}, f: KFn::{}({}) }});",
            indent, e.name, e.base, e.isa, lanes, e.shape, e.name
        );
    };
    for e in entries.iter().filter(|e| e.isa == "scalar") {
        if e.x86_only {
            t.push_str("    #[cfg(target_arch = \"x86_64\")]\n");
        }
        push(&mut t, e, 1, "    ");
    }
    // same conditions as detect_best_f32_kernels
    for (isa, lanes, cond) in [
        ("sse2", 4usize, "std::is_x86_feature_detected!(\"sse2\")"),
        ("avx2", 8, "std::is_x86_feature_detected!(\"avx2\") && std::is_x86_feature_detected!(\"fma\")"),
        ("avx512", 16, "std::is_x86_feature_detected!(\"avx512f\") && std::is_x86_feature_detected!(\"fma\")"),
    ] {
        if !entries.iter().any(|e| e.isa == isa) {
            continue;
        }
        t.push_str("    #[cfg(target_arch = \"x86_64\")]\n");
        let _ = writeln!(t, "    if {} {{", cond);
        for e in entries.iter().filter(|e| e.isa == isa) {
            push(&mut t, e, lanes, "        ");
        }
        t.push_str("    }\n");
    }
    t.push_str("    v\n}\n");
    std::fs::write(format!("{}/simd_table.rs", out_dir), t).unwrap();
}
