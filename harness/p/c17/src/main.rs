//! C17 driver: "unsafe index and SIMD code stays in bounds".
//! usage: c17 --out DIR --n N [--replay FILE] [--part simd|index|all]
//!   PART A (simd_part.rs): every SIMD entry wrapper of the current simd.rs forced in turn on
//!     slices touching an allocation end / PROT_NONE guard pages, differential against f64.
//!   PART B (gen.rs/run.rs): seeded index/backend op sequences with the H4 asserts compiled in.
//! Exit status is 0 unless the driver itself is broken; oracle failures are reported in summary.json.
mod case;
mod gen;
mod run;
mod simd_part;

use case::Case;
use kvh::rng::Rng;
use serde_json::{json, Value};
use std::collections::{BTreeMap, HashSet};

fn main() {
    let args: Vec<String> = std::env::args().collect();
    if args.iter().any(|a| a == "--simd-child") {
        simd_part::child_main(&args);
    }
    let mut out = String::from("/verif/.cache/run/C17/out");
    let mut n = 300usize;
    let mut replay: Option<String> = None;
    let mut part = String::from("all");
    let mut selftest = false;
    let mut i = 1;
    while i < args.len() {
        match args[i].as_str() {
            "--out" => { out = args[i + 1].clone(); i += 1 }
            "--n" => { n = args[i + 1].parse().expect("--n"); i += 1 }
            "--replay" => { replay = Some(args[i + 1].clone()); i += 1 }
            "--part" => { part = args[i + 1].clone(); i += 1 }
            "--selftest" => selftest = true,
            _ => {}
        }
        i += 1;
    }
    std::fs::create_dir_all(&out).expect("create --out dir");
    let t0 = std::time::Instant::now();
    let h4_active = cfg!(kyrodb_verif);

    if selftest {
        // shows that an over-read at a guard page is detected and located
        let rep = simd_part::run_parent(&out, None, true);
        let v = json!({"selftest_overread_detected": rep.failures.iter().any(|f| f["kind"] == "simd-fault"), "failures": rep.failures});
        std::fs::write(format!("{}/selftest.json", out), serde_json::to_string_pretty(&v).unwrap()).unwrap();
        println!("c17 selftest: over-read detected = {}", v["selftest_overread_detected"]);
        return;
    }

    // ---- what to run ----
    let mut cases: Vec<Case> = vec![];
    let mut simd_only: Option<String> = None;
    let mut run_simd = part == "all" || part == "simd";
    let mut run_index = part == "all" || part == "index";
    if let Some(p) = &replay {
        let v: Value = serde_json::from_str(&std::fs::read_to_string(p).expect("read replay file")).expect("replay json");
        let cv = if v.get("case").is_some() { v["case"].clone() } else { v };
        if cv["family"] == "simd" {
            simd_only = Some(format!("{},{},{}", cv["kernel"].as_str().unwrap_or("?"), cv["len"].as_u64().unwrap_or(0), cv["pass"].as_str().unwrap_or("?")));
            run_simd = true;
            run_index = false;
        } else {
            cases.push(Case::from_json(&cv).expect("replay case does not parse"));
            run_simd = false;
            run_index = true;
        }
    } else if run_index {
        if let Ok(rd) = std::fs::read_dir("/verif/corpus/C17") {
            let mut ps: Vec<_> = rd.filter_map(|e| e.ok()).map(|e| e.path()).collect();
            ps.sort();
            for p in ps {
                if let Ok(s) = std::fs::read_to_string(&p) {
                    if let Ok(v) = serde_json::from_str::<Value>(&s) {
                        let cv = if v.get("case").is_some() { v["case"].clone() } else { v };
                        if let Some(c) = Case::from_json(&cv) {
                            cases.push(c);
                        }
                    }
                }
            }
        }
        let mut rng = Rng::from_env();
        for k in 0..n {
            let mut r = rng.fork(k as u64);
            cases.push(gen::gen_case(&mut r, k));
        }
    }

    let mut oracle_failures: Vec<Value> = vec![];
    let mut driver_broken: Option<String> = None;

    // ---- PART A ----
    let mut simd_json = json!({"calls": 0, "kernels": [], "lens": 0, "nontrivial_pairs": 0, "engine_dims": 0, "notes": []});
    let mut simd_nontrivial = 0u64;
    let ta = std::time::Instant::now();
    if run_simd {
        let rep = simd_part::run_parent(&out, simd_only.clone(), false);
        simd_nontrivial = rep.nontrivial_pairs;
        simd_json = json!({"calls": rep.calls, "kernels": rep.kernels, "lens": rep.lens, "nontrivial_pairs": rep.nontrivial_pairs,
            "engine_dims": rep.engine_dims, "notes": rep.notes, "unclassified_entries": simd_part::simd_src::UNKNOWN_ENTRIES,
            "source": simd_part::simd_src::SIMD_SRC_PATH});
        oracle_failures.extend(rep.failures);
        driver_broken = rep.driver_broken;
    }
    let simd_secs = ta.elapsed().as_secs_f64();

    // ---- PART B ----
    run::install_panic_hook();
    let tb = std::time::Instant::now();
    let mut hist: BTreeMap<String, u64> = BTreeMap::new();
    let mut other_panics: Vec<Value> = vec![];
    let mut other_panic_count = 0u64;
    let mut all: Vec<Value> = vec![];
    let mut distinct: HashSet<String> = HashSet::new();
    let mut nontrivial_cases = 0u64;
    let mut index_failures: Vec<Value> = vec![];
    let mut first_fail: Option<(usize, String)> = None;
    let mut slowest = (0.0f64, 0usize);
    if run_index {
        for (id, c) in cases.iter().enumerate() {
            let tc = std::time::Instant::now();
            let o = run::run_case(c);
            let dt = tc.elapsed().as_secs_f64();
            if dt > slowest.0 {
                slowest = (dt, id);
            }
            for (k, v) in &o.hist {
                *hist.entry(k.clone()).or_insert(0) += v;
            }
            *hist.entry(format!("family:{}", c.family)).or_insert(0) += 1;
            let key = format!("{:?}", c);
            if distinct.insert(key) && o.reached_search_ge2 {
                nontrivial_cases += 1;
            }
            if let Some(b) = &o.driver_bug {
                driver_broken.get_or_insert(format!("case {}: {}", id, b));
            }
            if let Some((msg, loc)) = &o.other_panic {
                other_panic_count += 1;
                if other_panics.len() < 5 {
                    other_panics.push(json!({"case_id": id, "message": msg, "location": loc}));
                }
            }
            if let Some(f) = run::failure_json(c, id, &o) {
                if first_fail.is_none() {
                    first_fail = Some((id, f["kind"].as_str().unwrap_or("").to_string()));
                }
                index_failures.push(f);
            }
            let mut cj = c.to_json();
            cj["id"] = json!(id);
            all.push(cj);
        }
        // shrink the first failing case and put it first
        if let Some((id, kind)) = first_fail {
            let (small, runs) = run::shrink(&cases[id], &kind, 150);
            let o = run::run_case(&small);
            if let Some(mut f) = run::failure_json(&small, id, &o) {
                f["shrunk"] = json!(true);
                f["shrink_runs"] = json!(runs);
                f["original_ops"] = json!(cases[id].ops.len());
                f["obs"] = json!(o.obs);
                index_failures.insert(0, f);
            }
        }
        // keep the report bounded
        index_failures.truncate(20);
    }
    let index_secs = tb.elapsed().as_secs_f64();
    oracle_failures.extend(index_failures);
    let _ = std::panic::take_hook();

    // samples: the smallest cases
    let mut order: Vec<usize> = (0..cases.len()).collect();
    order.sort_by_key(|i| (cases[*i].ops.len(), *i));
    let samples: Vec<Value> = order.iter().take(3).map(|i| all[*i].clone()).collect();

    let summary = json!({
        "cases": cases.len(),
        "simd_calls": simd_json["calls"],
        "simd_kernels": simd_json["kernels"],
        "simd_lens": simd_json["lens"],
        "simd": simd_json,
        "nontrivial": nontrivial_cases + simd_nontrivial,
        "nontrivial_index_cases": nontrivial_cases,
        "nontrivial_simd_pairs": simd_nontrivial,
        "histogram": hist,
        "oracle_failures": oracle_failures,
        "other_panics": other_panics,
        "other_panic_count": other_panic_count,
        "samples": samples,
        "h4_active": h4_active,
        "h4_checks_note": if h4_active {
            "driver and engine compiled with --cfg kyrodb_verif: the assert!s in PackedLevel0::{count,neighbor,vector_at}_unchecked and FlatSearchScratch::mark_if_unvisited_unchecked are active; a violated precondition panics with 'kyrodb_verif H4'"
        } else {
            "NOT compiled with --cfg kyrodb_verif: the H4 asserts are absent, only ordinary bounds panics / sanitizer reports can be seen"
        },
        "seconds": {"simd": simd_secs, "index": index_secs, "total": t0.elapsed().as_secs_f64(), "slowest_case": {"id": slowest.1, "seconds": slowest.0}},
        "driver_broken": driver_broken,
        "part": part,
    });
    std::fs::write(format!("{}/summary.json", out), serde_json::to_string_pretty(&summary).unwrap()).expect("write summary");
    std::fs::write(format!("{}/all_cases.json", out), serde_json::to_string(&all).unwrap()).expect("write all_cases");
    println!(
        "c17: {} index cases ({} nontrivial), {} simd calls over {} kernels, {} oracle failures, {} other panics, {:.1}s",
        cases.len(), nontrivial_cases, summary["simd_calls"], summary["simd_kernels"].as_array().map(|a| a.len()).unwrap_or(0),
        summary["oracle_failures"].as_array().unwrap().len(), other_panic_count, t0.elapsed().as_secs_f64()
    );
    if summary["driver_broken"].is_string() {
        eprintln!("c17: driver broken: {}", summary["driver_broken"]);
        std::process::exit(2);
    }
}
