//! Case representation (config + op list), JSON round trip, deterministic vector pool.
use kvh::rng::Rng;
use serde_json::{json, Value};

#[derive(Clone, Debug, PartialEq)]
pub struct Cfg {
    pub dim: usize,
    pub m: usize,
    pub cap: usize,
    pub efc: usize,
    pub metric: u8, // 0 Euclidean, 1 Cosine, 2 InnerProduct
    pub no_check: bool,
}

#[derive(Clone, Debug, PartialEq)]
pub enum Op {
    // HnswVectorIndex family (ix = which of the case's indexes)
    Add { ix: usize, id: u64, v: u64 },
    AddDim { ix: usize, id: u64, dim: usize },
    /// ids: start + (i % modulo) * stride, vectors v0 + i; `bad_at` = position of a wrong-dimension vector
    Batch { ix: usize, start: u64, stride: u64, modulo: u64, count: usize, v0: u64, bad_at: Option<usize> },
    Finish { ix: usize },
    Search { ix: usize, v: u64, k: usize, ef: Option<usize>, cancel: u8 },
    SearchDim { ix: usize, dim: usize, k: usize },
    // HnswBackend family
    BInsert { id: u64, v: u64 },
    BInsertDim { id: u64, dim: usize },
    BDelete { id: u64 },
    BBatchDelete { ids: Vec<u64> },
    BSearch { v: u64, k: usize, ef: Option<usize>, cancel: u8 },
    BSearchBatch { v0: u64, nq: usize, k: usize, ef: Option<usize> },
    BSearchDim { dim: usize, k: usize },
}

#[derive(Clone, Debug, PartialEq)]
pub struct Case {
    pub family: String, // "index" | "backend"
    pub vseed: u64,
    pub distinct: u64,   // vector pool size: vector index v is reduced modulo this (exact duplicates)
    pub normalize: bool, // L2-normalise pool vectors
    pub cfgs: Vec<Cfg>,
    pub init: Vec<i64>, // backend family: initial embeddings (vector index, or -1 = all-zero row = born tombstone)
    pub ops: Vec<Op>,
}

impl Op {
    pub fn kind(&self) -> &'static str {
        match self {
            Op::Add { .. } => "add",
            Op::AddDim { .. } => "add_wrong_dim",
            Op::Batch { count, .. } => if *count >= 100 { "batch_ge100" } else { "batch_small" },
            Op::Finish { .. } => "finish",
            Op::Search { .. } => "search",
            Op::SearchDim { .. } => "search_wrong_dim",
            Op::BInsert { .. } => "b_insert",
            Op::BInsertDim { .. } => "b_insert_wrong_dim",
            Op::BDelete { .. } => "b_delete",
            Op::BBatchDelete { .. } => "b_batch_delete",
            Op::BSearch { .. } => "b_search",
            Op::BSearchBatch { .. } => "b_search_batch",
            Op::BSearchDim { .. } => "b_search_wrong_dim",
        }
    }
    pub fn to_json(&self) -> Value {
        match self {
            Op::Add { ix, id, v } => json!(["add", ix, id, v]),
            Op::AddDim { ix, id, dim } => json!(["add_dim", ix, id, dim]),
            Op::Batch { ix, start, stride, modulo, count, v0, bad_at } => json!(["batch", ix, start, stride, modulo, count, v0, bad_at]),
            Op::Finish { ix } => json!(["finish", ix]),
            Op::Search { ix, v, k, ef, cancel } => json!(["search", ix, v, k, ef, cancel]),
            Op::SearchDim { ix, dim, k } => json!(["search_dim", ix, dim, k]),
            Op::BInsert { id, v } => json!(["b_insert", id, v]),
            Op::BInsertDim { id, dim } => json!(["b_insert_dim", id, dim]),
            Op::BDelete { id } => json!(["b_delete", id]),
            Op::BBatchDelete { ids } => json!(["b_batch_delete", ids]),
            Op::BSearch { v, k, ef, cancel } => json!(["b_search", v, k, ef, cancel]),
            Op::BSearchBatch { v0, nq, k, ef } => json!(["b_search_batch", v0, nq, k, ef]),
            Op::BSearchDim { dim, k } => json!(["b_search_dim", dim, k]),
        }
    }
    pub fn from_json(o: &Value) -> Option<Op> {
        let u = |i: usize| o[i].as_u64();
        let z = |i: usize| o[i].as_u64().map(|x| x as usize);
        let oz = |i: usize| o[i].as_u64().map(|x| x as usize);
        Some(match o[0].as_str()? {
            "add" => Op::Add { ix: z(1)?, id: u(2)?, v: u(3)? },
            "add_dim" => Op::AddDim { ix: z(1)?, id: u(2)?, dim: z(3)? },
            "batch" => Op::Batch { ix: z(1)?, start: u(2)?, stride: u(3)?, modulo: u(4)?, count: z(5)?, v0: u(6)?, bad_at: oz(7) },
            "finish" => Op::Finish { ix: z(1)? },
            "search" => Op::Search { ix: z(1)?, v: u(2)?, k: z(3)?, ef: oz(4), cancel: u(5)? as u8 },
            "search_dim" => Op::SearchDim { ix: z(1)?, dim: z(2)?, k: z(3)? },
            "b_insert" => Op::BInsert { id: u(1)?, v: u(2)? },
            "b_insert_dim" => Op::BInsertDim { id: u(1)?, dim: z(2)? },
            "b_delete" => Op::BDelete { id: u(1)? },
            "b_batch_delete" => Op::BBatchDelete { ids: o[1].as_array()?.iter().filter_map(|x| x.as_u64()).collect() },
            "b_search" => Op::BSearch { v: u(1)?, k: z(2)?, ef: oz(3), cancel: u(4)? as u8 },
            "b_search_batch" => Op::BSearchBatch { v0: u(1)?, nq: z(2)?, k: z(3)?, ef: oz(4) },
            "b_search_dim" => Op::BSearchDim { dim: z(1)?, k: z(2)? },
            _ => return None,
        })
    }
}

impl Cfg {
    pub fn to_json(&self) -> Value {
        json!({"dim": self.dim, "m": self.m, "cap": self.cap, "efc": self.efc,
               "metric": (["euclidean", "cosine", "inner_product"][self.metric as usize % 3]), "no_check": self.no_check})
    }
    pub fn from_json(v: &Value) -> Option<Cfg> {
        Some(Cfg {
            dim: v["dim"].as_u64()? as usize,
            m: v["m"].as_u64()? as usize,
            cap: v["cap"].as_u64()? as usize,
            efc: v["efc"].as_u64()? as usize,
            metric: match v["metric"].as_str()? { "euclidean" => 0, "cosine" => 1, _ => 2 },
            no_check: v["no_check"].as_bool()?,
        })
    }
}

impl Case {
    pub fn to_json(&self) -> Value {
        json!({"family": self.family, "vseed": self.vseed, "distinct": self.distinct, "normalize": self.normalize,
               "cfgs": self.cfgs.iter().map(|c| c.to_json()).collect::<Vec<_>>(),
               "init": self.init,
               "ops": self.ops.iter().map(|o| o.to_json()).collect::<Vec<_>>()})
    }
    pub fn from_json(v: &Value) -> Option<Case> {
        Some(Case {
            family: v["family"].as_str()?.to_string(),
            vseed: v["vseed"].as_u64()?,
            distinct: v["distinct"].as_u64()?.max(1),
            normalize: v["normalize"].as_bool()?,
            cfgs: v["cfgs"].as_array()?.iter().map(Cfg::from_json).collect::<Option<Vec<_>>>()?,
            init: v["init"].as_array().map(|a| a.iter().filter_map(|x| x.as_i64()).collect()).unwrap_or_default(),
            ops: v["ops"].as_array()?.iter().map(Op::from_json).collect::<Option<Vec<_>>>()?,
        })
    }
    /// pool vector number `v` at dimension `dim`: a pure function of (vseed, v mod distinct, dim)
    pub fn vector(&self, v: u64, dim: usize) -> Vec<f32> {
        if dim == 0 {
            return Vec::new();
        }
        let key = v % self.distinct.max(1);
        let mut r = Rng::new(self.vseed ^ key.wrapping_mul(0xD6E8_FEB8_6659_FD93) ^ ((dim as u64) << 48));
        let mut out: Vec<f32> = if key % 7 == 3 {
            // axis vector
            let mut a = vec![0.0f32; dim];
            a[(key / 7) as usize % dim.max(1)] = if key % 2 == 0 { 1.0 } else { -1.0 };
            a
        } else if key % 11 == 5 && dim >= 3 {
            // tiny-norm vector
            (0..dim).map(|_| (r.below(2001) as f32 - 1000.0) / 500.0 * 1e-3).collect()
        } else {
            (0..dim).map(|_| (r.below(2001) as f32 - 1000.0) / 500.0).collect()
        };
        if out.iter().all(|x| *x == 0.0) && !out.is_empty() {
            out[0] = 1.0;
        }
        if self.normalize {
            let n: f64 = out.iter().map(|x| (*x as f64) * (*x as f64)).sum::<f64>().sqrt();
            if n > 0.0 {
                for x in out.iter_mut() {
                    *x = (*x as f64 / n) as f32;
                }
            }
        }
        out
    }
}
