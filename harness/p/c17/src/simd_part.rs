//! PART A: every SIMD entry wrapper of the CURRENT /repo/engine/src/simd.rs, forced in turn, on
//! slices that end exactly at the end of an exactly-sized heap block, end exactly at a PROT_NONE
//! guard page, or start right after one. Runs in a child process (a fault kills it); the parent
//! turns an abnormal child exit into an oracle failure using the progress file.
use kvh::rng::Rng;
use kyrodb_engine::config::DistanceMetric;
use kyrodb_engine::hnsw_index::HnswVectorIndex;
use serde_json::{json, Value};
use std::io::Write as _;

#[allow(dead_code, unused, clippy::all)]
pub mod simd_src {
    include!(concat!(env!("OUT_DIR"), "/simd_src.rs"));
    include!(concat!(env!("OUT_DIR"), "/simd_table.rs"));
}
use simd_src::{KFn, KernelRef};

pub const PASSES: [&str; 3] = ["heap_exact", "guard_after", "guard_before"];
pub const ENGINE_PASS: &str = "engine_dispatch";

pub fn lens() -> Vec<usize> {
    let mut v: Vec<usize> = (0..=130).collect();
    v.extend([255, 256, 257, 511, 512, 513, 1023, 1024, 1025]);
    v
}

#[derive(Clone, Debug)]
pub struct Item {
    pub kernel: String, // entry name, or "engine" for the dispatch items
    pub kidx: usize,    // index in kernel_table (usize::MAX for engine items)
    pub len: usize,
    pub pass: &'static str,
}

/// The work list; identical in parent and child (depends only on the CPU and the source text).
pub fn work_list(table: &[KernelRef]) -> Vec<Item> {
    let mut w = vec![];
    for (kidx, k) in table.iter().enumerate() {
        for &len in &lens() {
            for p in PASSES {
                w.push(Item { kernel: k.name.to_string(), kidx, len, pass: p });
            }
        }
    }
    for dim in 1..=130usize {
        w.push(Item { kernel: "engine".into(), kidx: usize::MAX, len: dim, pass: ENGINE_PASS });
    }
    w
}

fn seed_env() -> u64 {
    std::env::var("VERIF_SEED").ok().and_then(|s| s.parse().ok()).unwrap_or(1)
}

/// seeded multiples of 1/8 with |v| <= 2: every product, difference-square and partial sum is a
/// multiple of 1/64 below 2^24/64, hence exact in f32 in any summation order (with or without FMA).
pub fn grid_vec(tag: u64, len: usize) -> Vec<f32> {
    let mut r = Rng::new(seed_env() ^ tag.wrapping_mul(0x9E37_79B9_7F4A_7C15) ^ ((len as u64) << 20));
    (0..len).map(|_| (r.below(33) as i32 - 16) as f32 / 8.0).collect()
}

fn ref_dot(a: &[f32], b: &[f32]) -> f64 {
    a.iter().zip(b).map(|(x, y)| *x as f64 * *y as f64).sum()
}
fn ref_sumsq(a: &[f32]) -> f64 {
    a.iter().map(|x| *x as f64 * *x as f64).sum()
}
fn ref_l2(a: &[f32], b: &[f32]) -> f64 {
    a.iter().zip(b).map(|(x, y)| { let d = *x as f64 - *y as f64; d * d }).sum()
}

fn close(got: f32, want: f64, len: usize) -> bool {
    let w = want as f32;
    if !got.is_finite() {
        return false;
    }
    if len <= 130 {
        got == w
    } else {
        ((got - w).abs() as f64) <= 1e-5 * (w.abs() as f64).max(1.0)
    }
}

// ---------- guard-page mappings ----------
pub struct Guarded {
    base: *mut u8,
    page: usize,
    data_pages: usize,
    guard_first: bool,
}
impl Guarded {
    pub fn new(data_bytes: usize, guard_first: bool) -> Guarded {
        unsafe {
            let page = libc::sysconf(libc::_SC_PAGESIZE) as usize;
            let data_pages = data_bytes.div_ceil(page).max(1) + 1;
            let total = (data_pages + 1) * page;
            let p = libc::mmap(
                std::ptr::null_mut(),
                total,
                libc::PROT_READ | libc::PROT_WRITE,
                libc::MAP_PRIVATE | libc::MAP_ANONYMOUS,
                -1,
                0,
            );
            assert!(p != libc::MAP_FAILED, "mmap failed");
            let base = p as *mut u8;
            let guard = if guard_first { base } else { base.add(data_pages * page) };
            let rc = libc::mprotect(guard as *mut libc::c_void, page, libc::PROT_NONE);
            assert!(rc == 0, "mprotect failed");
            Guarded { base, page, data_pages, guard_first }
        }
    }
    /// copy `vals` so that the slice touches the guard page, and return it
    pub fn place(&self, vals: &[f32]) -> &[f32] {
        unsafe {
            let bytes = vals.len() * 4;
            assert!(bytes <= self.data_pages * self.page);
            let start = if self.guard_first {
                self.base.add(self.page)
            } else {
                self.base.add(self.data_pages * self.page - bytes)
            } as *mut f32;
            std::ptr::copy_nonoverlapping(vals.as_ptr(), start, vals.len());
            std::slice::from_raw_parts(start as *const f32, vals.len())
        }
    }
}

fn exact_box(vals: &[f32]) -> Box<[f32]> {
    let mut v: Vec<f32> = Vec::with_capacity(vals.len());
    v.extend_from_slice(vals);
    v.into_boxed_slice()
}

fn check_kernel(k: &KernelRef, a: &[f32], b: &[f32], len: usize, pass: &str, out: &mut Vec<Value>) {
    let mut mism = |what: &str, got: f32, want: f64| {
        if !close(got, want, len) {
            out.push(json!({"kind": "simd-mismatch", "kernel": k.name, "len": len, "pass": pass, "component": what,
                "got": got, "want": want as f32, "got_bits": got.to_bits(), "want_bits": (want as f32).to_bits(),
                "why": format!("{} len={} {}: kernel returned {} but the scalar f64 reference is {}", k.name, len, what, got, want),
                "case": {"family": "simd", "kernel": k.name, "len": len, "pass": pass}}));
        }
    };
    match k.f {
        KFn::Unary(f) => {
            let got = f(a);
            if k.base == "sum_squares_f32" {
                mism("sum_squares", got, ref_sumsq(a));
            }
        }
        KFn::Binary(f) => {
            let got = f(a, b);
            match k.base {
                "dot_f32" => mism("dot", got, ref_dot(a, b)),
                "l2_distance_sq_f32" => mism("l2_sq", got, ref_l2(a, b)),
                _ => {}
            }
        }
        KFn::Triple(f) => {
            let (d, na, nb) = f(a, b);
            if k.base == "dot_and_norms_f32" {
                mism("dot", d, ref_dot(a, b));
                mism("norm_a", na, ref_sumsq(a));
                mism("norm_b", nb, ref_sumsq(b));
            }
        }
    }
}

pub fn has_reference(k: &KernelRef) -> bool {
    matches!(k.base, "sum_squares_f32" | "dot_f32" | "l2_distance_sq_f32" | "dot_and_norms_f32")
}

/// The engine's own compiled copy of the best kernels, through the public API, for one dimension.
fn engine_dispatch(dim: usize, ga: &Guarded, out: &mut Vec<Value>) {
    let vs: Vec<Vec<f32>> = (0..3).map(|i| grid_vec(1000 + i, dim)).collect();
    let qv = grid_vec(2000, dim);
    let q = ga.place(&qv); // the query ends exactly at the guard page
    let fail = |out: &mut Vec<Value>, what: &str, why: String| {
        out.push(json!({"kind": "simd-mismatch", "kernel": format!("engine:{}", what), "len": dim, "pass": ENGINE_PASS, "why": why,
            "case": {"family": "simd", "kernel": "engine", "len": dim, "pass": ENGINE_PASS}}));
    };
    for (metric, what) in [(DistanceMetric::Euclidean, "l2_distance_sq"), (DistanceMetric::Cosine, "dot")] {
        let mut ix = match HnswVectorIndex::new_with_params(dim, 8, metric, 16, 200, true) {
            Ok(i) => i,
            Err(e) => { fail(out, what, format!("constructor failed: {}", e)); continue }
        };
        for (i, v) in vs.iter().enumerate() {
            let b = exact_box(v);
            if let Err(e) = ix.add_vector(i as u64, &b) {
                fail(out, what, format!("add_vector failed: {}", e));
            }
        }
        match ix.knn_search(q, 3) {
            Err(e) => fail(out, what, format!("search failed: {}", e)),
            Ok(res) => {
                let mut want: Vec<f32> = vs.iter().map(|v| match metric {
                    DistanceMetric::Euclidean => (ref_l2(&qv, v) as f32).max(0.0).sqrt(),
                    _ => (1.0 - ref_dot(&qv, v) as f32).max(0.0),
                }).collect();
                want.sort_by(|a, b| a.total_cmp(b));
                let got: Vec<f32> = res.iter().map(|r| r.distance).collect();
                if got != want {
                    fail(out, what, format!("dim {}: engine distances {:?} differ from the reference {:?}", dim, got, want));
                }
            }
        }
    }
    // normalisation check path -> engine's sum_squares kernel; the value is visible in the error text
    if let Ok(mut ix) = HnswVectorIndex::new_with_params(dim, 8, DistanceMetric::Cosine, 16, 200, false) {
        let want = ref_sumsq(&qv) as f32;
        match ix.add_vector(7, q) {
            Ok(()) => {
                if !(0.98..=1.02).contains(&want) {
                    fail(out, "sum_squares", format!("dim {}: vector with norm_sq {} accepted by the normalisation check", dim, want));
                }
            }
            Err(e) => {
                let s = e.to_string();
                if let Some(p) = s.find("norm_sq=") {
                    if let Ok(g) = s[p + 8..].trim().parse::<f32>() {
                        if g != want {
                            fail(out, "sum_squares", format!("dim {}: engine norm_sq {} differs from the reference {}", dim, g, want));
                        }
                    }
                }
            }
        }
    }
}

fn arg_after(args: &[String], key: &str) -> Option<String> {
    args.iter().position(|a| a == key).and_then(|i| args.get(i + 1).cloned())
}

/// Child entry point. Never returns.
pub fn child_main(args: &[String]) -> ! {
    let progress = arg_after(args, "--progress").expect("--progress");
    let results = arg_after(args, "--results").expect("--results");
    let start: usize = arg_after(args, "--start").and_then(|s| s.parse().ok()).unwrap_or(0);
    let only = arg_after(args, "--only");
    let selftest = args.iter().any(|a| a == "--overread-selftest");
    let mut pf = std::fs::OpenOptions::new().create(true).append(true).open(&progress).expect("progress file");
    let mut rf = std::fs::OpenOptions::new().create(true).append(true).open(&results).expect("results file");
    let max_bytes = 1025 * 4;
    let ga_after = Guarded::new(max_bytes, false);
    let gb_after = Guarded::new(max_bytes, false);
    let ga_before = Guarded::new(max_bytes, true);
    let gb_before = Guarded::new(max_bytes, true);
    if selftest {
        // a deliberately wrong "kernel": reads one element past the end of the slice
        let v = grid_vec(1, 7);
        let s = ga_after.place(&v);
        let _ = writeln!(pf, "0 selftest_overread 7 guard_after");
        let x = unsafe { std::ptr::read_volatile(s.as_ptr().add(s.len())) };
        let _ = writeln!(rf, "{}", json!({"selftest_survived": x}));
        std::process::exit(0);
    }
    let table = simd_src::kernel_table();
    let work = work_list(&table);
    let mut calls = 0u64;
    let mut engine_dims = 0u64;
    for (idx, it) in work.iter().enumerate() {
        if idx < start {
            continue;
        }
        if let Some(o) = &only {
            if *o != format!("{},{},{}", it.kernel, it.len, it.pass) {
                continue;
            }
        }
        let _ = writeln!(pf, "{} {} {} {}", idx, it.kernel, it.len, it.pass);
        let mut out: Vec<Value> = vec![];
        if it.pass == ENGINE_PASS {
            engine_dispatch(it.len, &ga_after, &mut out);
            engine_dims += 1;
        } else {
            let k = &table[it.kidx];
            let av = grid_vec(1, it.len);
            let bv = grid_vec(2, it.len);
            match it.pass {
                "heap_exact" => {
                    let (a, b) = (exact_box(&av), exact_box(&bv));
                    check_kernel(k, &a, &b, it.len, it.pass, &mut out);
                }
                "guard_after" => {
                    let (a, b) = (ga_after.place(&av), gb_after.place(&bv));
                    check_kernel(k, a, b, it.len, it.pass, &mut out);
                }
                _ => {
                    let (a, b) = (ga_before.place(&av), gb_before.place(&bv));
                    check_kernel(k, a, b, it.len, it.pass, &mut out);
                }
            }
            calls += 1;
        }
        for o in out {
            let _ = writeln!(rf, "{}", o);
        }
    }
    let _ = writeln!(rf, "{}", json!({"done": true, "calls": calls, "engine_dims": engine_dims}));
    std::process::exit(0);
}

pub struct SimdReport {
    pub calls: u64,
    pub engine_dims: u64,
    pub kernels: Vec<String>,
    pub lens: usize,
    pub nontrivial_pairs: u64,
    pub failures: Vec<Value>,
    pub notes: Vec<String>,
    pub driver_broken: Option<String>,
}

/// Parent side. `only` = Some("kernel,len,pass") for a replay.
pub fn run_parent(out_dir: &str, only: Option<String>, selftest: bool) -> SimdReport {
    let table = simd_src::kernel_table();
    let work = work_list(&table);
    let progress = format!("{}/simd_progress.txt", out_dir);
    let results = format!("{}/simd_results.jsonl", out_dir);
    let stderr_path = format!("{}/simd_child_stderr.txt", out_dir);
    let _ = std::fs::remove_file(&progress);
    let _ = std::fs::remove_file(&results);
    let _ = std::fs::remove_file(&stderr_path);
    let mut rep = SimdReport {
        calls: 0,
        engine_dims: 0,
        kernels: table.iter().map(|k| k.name.to_string()).collect(),
        lens: lens().len(),
        nontrivial_pairs: 0,
        failures: vec![],
        notes: vec![],
        driver_broken: None,
    };
    for k in &table {
        rep.nontrivial_pairs += lens().iter().filter(|l| k.lanes > 1 && **l % k.lanes != 0).count() as u64;
        if !has_reference(k) {
            rep.notes.push(format!("{}: no scalar reference known for base `{}` (fault detection only)", k.name, k.base));
        }
    }
    if !simd_src::UNKNOWN_ENTRIES.is_empty() {
        rep.notes.push(format!("entry wrappers the driver could not classify (not exercised): {:?}", simd_src::UNKNOWN_ENTRIES));
    }
    let exe = match std::env::current_exe() {
        Ok(e) => e,
        Err(e) => { rep.driver_broken = Some(format!("current_exe: {}", e)); return rep }
    };
    let mut start = 0usize;
    let mut restarts = 0;
    loop {
        let errf = std::fs::OpenOptions::new().create(true).append(true).open(&stderr_path).unwrap();
        let mut cmd = std::process::Command::new(&exe);
        cmd.arg("--simd-child").arg("--progress").arg(&progress).arg("--results").arg(&results)
            .arg("--start").arg(start.to_string()).stderr(errf).stdout(std::process::Stdio::null());
        if let Some(o) = &only {
            cmd.arg("--only").arg(o);
        }
        if selftest {
            cmd.arg("--overread-selftest");
        }
        let status = match cmd.status() {
            Ok(s) => s,
            Err(e) => { rep.driver_broken = Some(format!("spawn child: {}", e)); return rep }
        };
        let res_text = std::fs::read_to_string(&results).unwrap_or_default();
        let done = res_text.lines().any(|l| l.contains("\"done\":true"));
        if status.success() && (done || selftest) {
            break;
        }
        // abnormal exit: locate the call with the last progress line
        use std::os::unix::process::ExitStatusExt;
        let prog = std::fs::read_to_string(&progress).unwrap_or_default();
        let last = prog.lines().last().unwrap_or("").to_string();
        let f: Vec<&str> = last.split_whitespace().collect();
        let (idx, kernel, len, pass) = if f.len() == 4 {
            (f[0].parse::<usize>().unwrap_or(start), f[1].to_string(), f[2].parse::<usize>().unwrap_or(0), f[3].to_string())
        } else {
            (start, "?".to_string(), 0, "?".to_string())
        };
        let errtail: String = std::fs::read_to_string(&stderr_path).unwrap_or_default()
            .lines().rev().take(12).collect::<Vec<_>>().into_iter().rev().collect::<Vec<_>>().join("\n");
        rep.failures.push(json!({"kind": "simd-fault", "kernel": kernel, "len": len, "pass": pass,
            "signal": status.signal(), "exit_code": status.code(),
            "why": format!("child process died (signal {:?}, exit code {:?}) inside {} len={} pass={}", status.signal(), status.code(), kernel, len, pass),
            "stderr_tail": errtail,
            "case": {"family": "simd", "kernel": kernel, "len": len, "pass": pass}}));
        if selftest || only.is_some() {
            break;
        }
        restarts += 1;
        if restarts > 12 || idx + 1 >= work.len() {
            rep.notes.push("stopped restarting the SIMD child after repeated faults".into());
            break;
        }
        start = idx + 1;
    }
    let res_text = std::fs::read_to_string(&results).unwrap_or_default();
    for l in res_text.lines() {
        if let Ok(v) = serde_json::from_str::<Value>(l) {
            if v.get("kind").is_some() {
                rep.failures.push(v);
            }
        }
    }
    // every call was announced in the progress file before it ran
    let prog = std::fs::read_to_string(&progress).unwrap_or_default();
    rep.calls = prog.lines().filter(|l| !l.contains(ENGINE_PASS) && !l.contains("selftest")).count() as u64;
    rep.engine_dims = prog.lines().filter(|l| l.contains(ENGINE_PASS)).count() as u64;
    rep
}
