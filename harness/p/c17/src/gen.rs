//! Seeded, boundary-biased generators for PART B.
use crate::case::{Case, Cfg, Op};
use kvh::rng::Rng;

const DIM_EDGE: [usize; 17] = [1, 3, 7, 8, 9, 15, 16, 17, 31, 32, 33, 63, 64, 65, 127, 128, 129];
const M_EDGE: [usize; 6] = [4, 5, 8, 16, 32, 64];
const EFC: [usize; 5] = [1, 8, 128, 200, 400];
const BIG_IDS: [u64; 6] = [u32::MAX as u64, (u32::MAX as u64) + 1, 1 << 40, (1 << 40) + 7, u64::MAX, u64::MAX - 1];

fn dim(r: &mut Rng, small: bool) -> usize {
    if small {
        return *r.pick(&[1usize, 3, 7, 8, 9, 15, 16, 17, 31, 33]);
    }
    if r.chance(2, 3) { *r.pick(&DIM_EDGE) } else { r.range(1, 130) as usize }
}
fn m(r: &mut Rng) -> usize {
    match r.below(10) {
        0 => *r.pick(&[1usize, 2, 3]),
        1..=7 => *r.pick(&M_EDGE),
        _ => r.range(4, 64) as usize,
    }
}
fn metric_cfg(r: &mut Rng) -> (u8, bool, bool) {
    // (metric, no_check, normalize)
    let metric = r.below(3) as u8;
    if metric == 0 {
        return (0, r.chance(1, 4), r.chance(1, 4));
    }
    match r.below(20) {
        0 => (metric, false, false), // check on, unnormalised vectors: every insert/search is refused
        1..=10 => (metric, false, true),
        _ => (metric, true, false),
    }
}
fn k(r: &mut Rng) -> usize {
    match r.below(16) {
        0..=3 => 1,
        4..=5 => 2,
        6..=7 => 3,
        8..=10 => 10,
        11..=12 => 100,
        13..=14 => 10_000,
        _ => 10_001,
    }
}
fn ef(r: &mut Rng, k: usize) -> Option<usize> {
    match r.below(8) {
        0..=2 => None,
        3 => Some(1),
        4..=5 => Some(k),
        6 => Some(10_000),
        _ => Some(100_000),
    }
}
fn cancel(r: &mut Rng) -> u8 {
    match r.below(10) { 0..=5 => 0, 6..=8 => 1, _ => 2 }
}
fn wrong_dim(r: &mut Rng, d: usize) -> usize {
    match r.below(4) { 0 => 0, 1 => d + 1, 2 => d.saturating_sub(1), _ => d * 2 + 1 }
}
fn id_pool(r: &mut Rng, n: usize) -> Vec<u64> {
    (0..n).map(|i| match r.below(6) {
        0 => *r.pick(&BIG_IDS),
        1 => r.next_u64(),
        _ => i as u64,
    }).collect()
}
fn search(r: &mut Rng, ix: usize, pool: u64) -> Op {
    let kk = k(r);
    Op::Search { ix, v: r.below(pool + 3), k: kk, ef: ef(r, kk), cancel: cancel(r) }
}

/// interleaved adds/searches on a tiny-capacity index; overflow, duplicate ids, wrong dims
fn index_tiny(r: &mut Rng) -> Case {
    let (metric, no_check, normalize) = metric_cfg(r);
    let d = dim(r, false);
    let cap = *r.pick(&[1usize, 1, 2, 2, 3, 3, 5, 8, 17, 64]);
    let cfg = Cfg { dim: d, m: m(r), cap, efc: *r.pick(&EFC), metric, no_check };
    let distinct = r.range(2, 8);
    let n_ids = r.range(2, 8) as usize;
    let ids = id_pool(r, n_ids);
    let n = r.range(8, 40) as usize;
    let mut ops = vec![Op::Search { ix: 0, v: 0, k: 3, ef: None, cancel: 0 }];
    for _ in 0..n {
        match r.below(20) {
            0..=8 => {
                ops.push(Op::Add { ix: 0, id: *r.pick(&ids), v: r.below(distinct) });
                if r.chance(2, 3) {
                    ops.push(search(r, 0, distinct));
                }
            }
            9..=10 => {
                let count = r.range(1, (cap as u64 + 2).min(12)) as usize;
                ops.push(Op::Batch { ix: 0, start: r.below(8), stride: *r.pick(&[0u64, 1, 1, 3, 1 << 33]), modulo: r.range(1, count as u64 + 1), count, v0: r.below(distinct), bad_at: if r.chance(1, 8) { Some(r.below(count as u64) as usize) } else { None } });
            }
            11 => ops.push(Op::AddDim { ix: 0, id: *r.pick(&ids), dim: wrong_dim(r, d) }),
            12 => ops.push(Op::SearchDim { ix: 0, dim: wrong_dim(r, d), k: 3 }),
            13 => ops.push(Op::Finish { ix: 0 }),
            _ => ops.push(search(r, 0, distinct)),
        }
    }
    Case { family: "index".into(), vseed: r.next_u64(), distinct, normalize, cfgs: vec![cfg], init: vec![], ops }
}

/// a graph that grows one by one with a search after every insert: sizes 0,1,2,3,...
fn index_growing(r: &mut Rng) -> Case {
    let (metric, no_check, normalize) = metric_cfg(r);
    let d = dim(r, false);
    let n = r.range(20, 120) as usize;
    let cap = if r.chance(1, 3) { n / 2 + 1 } else { n + r.range(0, 40) as usize };
    let cfg = Cfg { dim: d, m: m(r), cap, efc: *r.pick(&EFC), metric, no_check };
    let distinct = if r.chance(1, 2) { r.range(3, 12) } else { 10_000 };
    let base = if r.chance(1, 3) { *r.pick(&BIG_IDS) } else { 0 };
    let mut ops = vec![];
    for i in 0..n {
        let id = if r.chance(1, 10) { base.wrapping_sub(r.below(i as u64 + 1)) } else { base.wrapping_add(i as u64) };
        ops.push(Op::Add { ix: 0, id, v: i as u64 });
        ops.push(search(r, 0, i as u64 + 1));
        if r.chance(1, 15) {
            ops.push(Op::Batch { ix: 0, start: r.next_u64() >> r.below(60), stride: 1, modulo: 8, count: r.range(1, 8) as usize, v0: r.below(100), bad_at: None });
        }
    }
    Case { family: "index".into(), vseed: r.next_u64(), distinct, normalize, cfgs: vec![cfg], init: vec![], ops }
}

/// several hundred vectors, small M -> upper layers; >=100-sized batches; large k
fn index_layers(r: &mut Rng) -> Case {
    let (metric, no_check, normalize) = metric_cfg(r);
    let d = dim(r, true);
    let mm = *r.pick(&[1usize, 2, 3, 4, 4, 5, 8]);
    let cap = r.range(1000, 4096) as usize;
    let cfg = Cfg { dim: d, m: mm, cap, efc: *r.pick(&[1usize, 8, 128, 200]), metric, no_check };
    let mut ops = vec![];
    let first = r.range(100, 400) as usize;
    let start = if r.chance(1, 2) { 0 } else { *r.pick(&BIG_IDS) };
    let stride = *r.pick(&[1u64, 1, 7, 1 << 33, 0x9E37_79B9_7F4A_7C15]);
    ops.push(Op::Batch { ix: 0, start, stride, modulo: first as u64 + if r.chance(1, 4) { 0 } else { 1 }, count: first, v0: 0, bad_at: None });
    for _ in 0..r.range(3, 8) {
        ops.push(search(r, 0, first as u64));
    }
    let more = r.range(20, 120) as usize;
    for i in 0..more {
        ops.push(Op::Add { ix: 0, id: r.next_u64() >> r.below(64), v: first as u64 + i as u64 });
        if r.chance(1, 6) {
            ops.push(search(r, 0, 10_000));
        }
    }
    if r.chance(1, 2) {
        let c = r.range(100, 160) as usize;
        ops.push(Op::Batch { ix: 0, start: r.next_u64(), stride: 3, modulo: c as u64, count: c, v0: 5000, bad_at: if r.chance(1, 6) { Some(c - 1) } else { None } });
    }
    for _ in 0..r.range(3, 8) {
        ops.push(search(r, 0, 10_000));
    }
    ops.push(Op::Search { ix: 0, v: 1, k: 10_000, ef: Some(100_000), cancel: 0 });
    Case { family: "index".into(), vseed: r.next_u64(), distinct: 1 << 40, normalize, cfgs: vec![cfg], init: vec![], ops }
}

/// two indexes of very different sizes used alternately on the same thread (thread-local scratch reuse)
fn index_two(r: &mut Rng) -> Case {
    let (metric, no_check, normalize) = metric_cfg(r);
    let big_n = r.range(120, 330) as usize;
    let big = Cfg { dim: dim(r, true), m: m(r).min(16), cap: big_n + 50, efc: *r.pick(&[1usize, 128, 200]), metric, no_check };
    let small = Cfg { dim: dim(r, false), m: m(r), cap: *r.pick(&[1usize, 2, 3, 5, 8]), efc: *r.pick(&EFC), metric: if r.chance(1, 2) { metric } else { 0 }, no_check: true };
    let mut ops = vec![];
    ops.push(Op::Batch { ix: 0, start: 0, stride: 1, modulo: big_n as u64, count: big_n, v0: 0, bad_at: None });
    let mut small_n = 0u64;
    for round in 0..r.range(6, 14) {
        ops.push(Op::Search { ix: 0, v: r.below(1000), k: *r.pick(&[1usize, 10, 100, 10_000]), ef: *r.pick(&[None, Some(10_000usize), Some(1)]), cancel: 0 });
        if small_n < small.cap as u64 + 1 && (round % 2 == 0 || r.chance(1, 2)) {
            ops.push(Op::Add { ix: 1, id: small_n * 3, v: small_n });
            small_n += 1;
        }
        ops.push(search(r, 1, 4));
        if r.chance(1, 3) {
            ops.push(Op::Add { ix: 0, id: 1_000_000 + round, v: 2000 + round });
        }
    }
    Case { family: "index".into(), vseed: r.next_u64(), distinct: 1 << 40, normalize, cfgs: vec![big, small], init: vec![], ops }
}

fn bsearch(r: &mut Rng, pool: u64) -> Op {
    let kk = k(r);
    if r.chance(1, 8) {
        return Op::BSearchBatch { v0: r.below(pool + 1), nq: r.range(1, 5) as usize, k: kk.min(10_000), ef: ef(r, kk) };
    }
    Op::BSearch { v: r.below(pool + 3), k: kk, ef: ef(r, kk), cancel: cancel(r) }
}

/// HnswBackend with a tiny capacity: upserts and deletes create tombstones, the next insert at full
/// capacity compacts (rebuilds the graph with fewer nodes)
fn backend_tiny(r: &mut Rng) -> Case {
    let metric = r.below(3) as u8;
    let d = dim(r, false);
    let cap = *r.pick(&[1usize, 2, 3, 3, 5, 5, 8, 8, 17, 33]);
    let cfg = Cfg { dim: d, m: m(r), cap, efc: *r.pick(&EFC), metric, no_check: r.chance(1, 3) };
    let distinct = r.range(3, 10);
    let n_init = r.below(cap as u64 + 1) as usize;
    let init: Vec<i64> = (0..n_init).map(|i| if r.chance(1, 4) { -1 } else { i as i64 }).collect();
    let ids: Vec<u64> = (0..r.range(2, 7)).map(|i| if r.chance(1, 6) { *r.pick(&BIG_IDS) } else { i }).collect();
    let mut ops = vec![bsearch(r, distinct)];
    for _ in 0..r.range(15, 60) {
        match r.below(20) {
            0..=8 => {
                ops.push(Op::BInsert { id: *r.pick(&ids), v: r.below(distinct) });
                if r.chance(1, 2) {
                    ops.push(bsearch(r, distinct));
                }
            }
            9..=11 => ops.push(Op::BDelete { id: *r.pick(&ids) }),
            12..=13 => ops.push(Op::BBatchDelete { ids: (0..r.range(0, 4)).map(|_| *r.pick(&ids)).collect() }),
            14 => ops.push(Op::BInsertDim { id: *r.pick(&ids), dim: wrong_dim(r, d) }),
            15 => ops.push(Op::BSearchDim { dim: wrong_dim(r, d), k: 2 }),
            _ => ops.push(bsearch(r, distinct)),
        }
    }
    Case { family: "backend".into(), vseed: r.next_u64(), distinct, normalize: false, cfgs: vec![cfg], init, ops }
}

/// large graph, mass delete, fill to capacity -> compaction rebuilds a much smaller graph; searches
/// before and after on the same thread
fn backend_shrink(r: &mut Rng) -> Case {
    let metric = r.below(3) as u8;
    let n0 = r.range(100, 240) as usize;
    let spare = r.range(1, 12) as usize;
    let cfg = Cfg { dim: dim(r, true), m: *r.pick(&[2usize, 4, 5, 8, 16]), cap: n0 + spare, efc: *r.pick(&[1usize, 128, 200]), metric, no_check: false };
    let init: Vec<i64> = (0..n0).map(|i| if r.chance(1, 40) { -1 } else { i as i64 }).collect();
    let mut ops = vec![];
    for _ in 0..3 {
        ops.push(Op::BSearch { v: r.below(n0 as u64), k: *r.pick(&[1usize, 10, 100, 10_000]), ef: None, cancel: 0 });
    }
    let keep = r.range(0, 6);
    let del: Vec<u64> = (keep..n0 as u64).collect();
    if r.chance(1, 2) {
        ops.push(Op::BBatchDelete { ids: del });
    } else {
        let (a, b) = del.split_at(del.len() / 2);
        ops.push(Op::BBatchDelete { ids: a.to_vec() });
        ops.push(Op::BSearch { v: 1, k: 10, ef: None, cancel: 0 });
        ops.push(Op::BBatchDelete { ids: b.to_vec() });
    }
    ops.push(Op::BSearch { v: 2, k: 10, ef: Some(10_000), cancel: 0 });
    for i in 0..(spare as u64 + r.range(1, 6)) {
        ops.push(Op::BInsert { id: 1_000_000 + i, v: 50_000 + i });
        ops.push(bsearch(r, 100));
    }
    ops.push(Op::BSearch { v: 3, k: 10_000, ef: Some(100_000), cancel: 0 });
    Case { family: "backend".into(), vseed: r.next_u64(), distinct: 1 << 40, normalize: false, cfgs: vec![cfg], init, ops }
}

pub fn gen_case(r: &mut Rng, k: usize) -> Case {
    // fixed mix by position so that every quick run contains every style
    match k % 20 {
        0 | 7 => index_layers(r),
        1 | 11 => index_two(r),
        2 | 12 => backend_shrink(r),
        3 | 5 | 9 | 14 | 17 => backend_tiny(r),
        4 | 8 | 13 | 16 => index_growing(r),
        _ => index_tiny(r),
    }
}
