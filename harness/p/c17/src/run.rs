//! Executes one case on the real engine inside catch_unwind (fresh thread per case, so the
//! engine's thread-local search scratch starts empty and a replay sees the same state), applies
//! the oracles, shrinks.
use crate::case::{Case, Cfg, Op};
use kyrodb_engine::config::DistanceMetric;
use kyrodb_engine::hnsw_backend::HnswBackend;
use kyrodb_engine::hnsw_index::{HnswVectorIndex, SearchResult};
use serde_json::{json, Value};
use std::collections::{BTreeMap, HashMap, HashSet};
use std::sync::atomic::AtomicBool;
use std::sync::Mutex;

static PANICS: Mutex<Vec<(String, String)>> = Mutex::new(Vec::new());

pub fn install_panic_hook() {
    std::panic::set_hook(Box::new(|info| {
        let msg = if let Some(s) = info.payload().downcast_ref::<&str>() {
            s.to_string()
        } else if let Some(s) = info.payload().downcast_ref::<String>() {
            s.clone()
        } else {
            "<non-string panic payload>".to_string()
        };
        let loc = info.location().map(|l| format!("{}:{}:{}", l.file(), l.line(), l.column())).unwrap_or_default();
        if let Ok(mut g) = PANICS.lock() {
            g.push((msg, loc));
        }
    }));
}

#[derive(Clone, Debug, Default)]
pub struct Outcome {
    pub obs: Vec<String>,
    pub hist: BTreeMap<String, u64>,
    pub reached_search_ge2: bool,
    /// (kind, why, message, location, op index)
    pub failure: Option<(String, String, String, String, usize)>,
    pub other_panic: Option<(String, String)>,
    pub driver_bug: Option<String>,
}

fn metric(m: u8) -> DistanceMetric {
    match m { 0 => DistanceMetric::Euclidean, 1 => DistanceMetric::Cosine, _ => DistanceMetric::InnerProduct }
}

pub fn err_kind(msg: &str) -> &'static str {
    let m = msg.to_ascii_lowercase();
    if m.contains("dimension") { "dim-mismatch" }
    else if m.contains("full") || m.contains("exceed capacity") { "full" }
    else if m.contains("normalized") { "not-normalized" }
    else if m.contains("k must be") { "k-range" }
    else if m.contains("non-finite") { "non-finite" }
    else if m.contains("norm is zero") { "zero-norm" }
    else if m.contains("cannot be empty") { "empty-query" }
    else { "other" }
}

fn size_bucket(n: usize) -> &'static str {
    match n { 0 => "0", 1 => "1", 2 => "2", 3..=9 => "3-9", 10..=99 => "10-99", 100..=999 => "100-999", _ => "1000+" }
}

fn bump(h: &mut BTreeMap<String, u64>, k: String) {
    *h.entry(k).or_insert(0) += 1;
}

/// oracle (2): ids were inserted, len <= k, distances finite and non-decreasing
fn check_results(res: &[SearchResult], k: usize, inserted: &HashSet<u64>) -> Option<String> {
    if res.len() > k {
        return Some(format!("{} results for k={}", res.len(), k));
    }
    let mut prev = f32::NEG_INFINITY;
    for r in res {
        if !inserted.contains(&r.doc_id) {
            return Some(format!("returned doc_id {} was never inserted", r.doc_id));
        }
        if !r.distance.is_finite() {
            return Some(format!("non-finite distance {} for doc_id {}", r.distance, r.doc_id));
        }
        if r.distance < prev {
            return Some(format!("distances decrease: {} after {}", r.distance, prev));
        }
        prev = r.distance;
    }
    None
}

struct St {
    out: Outcome,
    cur_op: usize,
}

fn cancel_flag(c: u8) -> Option<AtomicBool> {
    match c { 0 => None, 1 => Some(AtomicBool::new(false)), _ => Some(AtomicBool::new(true)) }
}

fn run_index_family(c: &Case, st: &mut St) {
    let mut idx: Vec<Option<HnswVectorIndex>> = vec![];
    let mut inserted: Vec<HashSet<u64>> = vec![];
    for cfg in &c.cfgs {
        bump(&mut st.out.hist, format!("dim:{}", cfg.dim));
        bump(&mut st.out.hist, format!("m:{}", cfg.m));
        match HnswVectorIndex::new_with_params(cfg.dim, cfg.cap, metric(cfg.metric), cfg.m, cfg.efc, cfg.no_check) {
            Ok(i) => idx.push(Some(i)),
            Err(e) => { st.out.obs.push(format!("new: Err {}", e)); idx.push(None) }
        }
        inserted.push(HashSet::new());
    }
    for (oi, op) in c.ops.iter().enumerate() {
        st.cur_op = oi;
        bump(&mut st.out.hist, format!("op:{}", op.kind()));
        let ixn = match op { Op::Add { ix, .. } | Op::AddDim { ix, .. } | Op::Batch { ix, .. } | Op::Finish { ix } | Op::Search { ix, .. } | Op::SearchDim { ix, .. } => *ix, _ => { st.out.obs.push("skipped (backend op in index case)".into()); continue } };
        if ixn >= idx.len() || idx[ixn].is_none() {
            st.out.obs.push("skipped (no such index)".into());
            continue;
        }
        let cfg: &Cfg = &c.cfgs[ixn];
        let index = idx[ixn].as_mut().unwrap();
        let ins = &mut inserted[ixn];
        let mut unguarded: Option<String> = None;
        let o = match op {
            Op::Add { id, v, .. } => {
                let vec = c.vector(*v, cfg.dim).into_boxed_slice();
                match index.add_vector(*id, &vec) {
                    Ok(()) => { ins.insert(*id); "Ok".to_string() }
                    Err(e) => { bump(&mut st.out.hist, format!("err:{}", err_kind(&e.to_string()))); format!("Err {}", err_kind(&e.to_string())) }
                }
            }
            Op::AddDim { id, dim, .. } => {
                let vec = c.vector(7, *dim).into_boxed_slice();
                match index.add_vector(*id, &vec) {
                    Ok(()) => { if *dim != cfg.dim { unguarded = Some(format!("add_vector accepted a {}-dimensional vector on a {}-dimensional index", dim, cfg.dim)); } ins.insert(*id); "Ok".into() }
                    Err(e) => { bump(&mut st.out.hist, format!("err:{}", err_kind(&e.to_string()))); format!("Err {}", err_kind(&e.to_string())) }
                }
            }
            Op::Batch { start, stride, modulo, count, v0, bad_at, .. } => {
                let vecs: Vec<Box<[f32]>> = (0..*count).map(|i| {
                    let d = if *bad_at == Some(i) { cfg.dim + 1 } else { cfg.dim };
                    c.vector(v0.wrapping_add(i as u64), d).into_boxed_slice()
                }).collect();
                let ids: Vec<u64> = (0..*count).map(|i| start.wrapping_add((i as u64 % (*modulo).max(1)).wrapping_mul(*stride))).collect();
                let data: Vec<(&[f32], usize)> = vecs.iter().zip(&ids).map(|(v, id)| (&v[..], *id as usize)).collect();
                match index.parallel_insert_batch(&data) {
                    Ok(()) => {
                        if bad_at.map(|b| b < *count).unwrap_or(false) { unguarded = Some("parallel_insert_batch accepted a wrong-dimension vector".into()); }
                        for id in &ids { ins.insert(*id); }
                        "Ok".into()
                    }
                    Err(e) => { bump(&mut st.out.hist, format!("err:{}", err_kind(&e.to_string()))); format!("Err {}", err_kind(&e.to_string())) }
                }
            }
            Op::Finish { .. } => { index.complete_sequential_inserts(); "Ok".into() }
            Op::Search { v, k, ef, cancel, .. } => {
                let q = c.vector(*v, cfg.dim).into_boxed_slice();
                let flag = cancel_flag(*cancel);
                bump(&mut st.out.hist, format!("graph:{}", size_bucket(ins.len())));
                match index.knn_search_with_ef_cancel(&q, *k, *ef, flag.as_ref()) {
                    Ok(res) => {
                        if *k > 10_000 { unguarded = Some(format!("search accepted k={}", k)); }
                        if ins.len() >= 2 && *cancel != 2 { st.out.reached_search_ge2 = true; }
                        if let Some(why) = check_results(&res, *k, ins) {
                            st.out.failure.get_or_insert(("result-oracle".into(), why, String::new(), String::new(), oi));
                        }
                        format!("Ok n={}", res.len())
                    }
                    Err(e) => { bump(&mut st.out.hist, format!("err:{}", err_kind(&e.to_string()))); format!("Err {}", err_kind(&e.to_string())) }
                }
            }
            Op::SearchDim { dim, k, .. } => {
                let q = c.vector(3, *dim).into_boxed_slice();
                match index.knn_search(&q, *k) {
                    Ok(res) => { if *dim != cfg.dim { unguarded = Some(format!("search accepted a {}-dimensional query on a {}-dimensional index", dim, cfg.dim)); } format!("Ok n={}", res.len()) }
                    Err(e) => { bump(&mut st.out.hist, format!("err:{}", err_kind(&e.to_string()))); format!("Err {}", err_kind(&e.to_string())) }
                }
            }
            _ => unreachable!(),
        };
        if let Some(why) = unguarded {
            st.out.failure.get_or_insert(("unguarded-input".into(), why, String::new(), String::new(), oi));
        }
        st.out.obs.push(o);
    }
}

fn run_backend_family(c: &Case, st: &mut St) {
    let Some(cfg) = c.cfgs.first() else { return };
    bump(&mut st.out.hist, format!("dim:{}", cfg.dim));
    bump(&mut st.out.hist, format!("m:{}", cfg.m));
    let embeddings: Vec<Vec<f32>> = c.init.iter().map(|v| if *v < 0 { vec![0.0; cfg.dim] } else { c.vector(*v as u64, cfg.dim) }).collect();
    let metadata: Vec<HashMap<String, String>> = embeddings.iter().map(|_| HashMap::new()).collect();
    let mut inserted: HashSet<u64> = c.init.iter().enumerate().filter(|(_, v)| **v >= 0).map(|(i, _)| i as u64).collect();
    let be = match HnswBackend::new_with_hnsw_params(cfg.dim, metric(cfg.metric), embeddings, metadata, cfg.cap, cfg.m, cfg.efc, cfg.no_check) {
        Ok(b) => b,
        Err(e) => { bump(&mut st.out.hist, format!("err:new:{}", err_kind(&e.to_string()))); st.out.obs.push(format!("new: Err {}", e)); return }
    };
    // graph slots in use (HnswVectorIndex::len of the wrapped index): born-tombstone rows are not indexed
    let mut slots: usize = c.init.iter().filter(|v| **v >= 0).count();
    for (oi, op) in c.ops.iter().enumerate() {
        st.cur_op = oi;
        bump(&mut st.out.hist, format!("op:{}", op.kind()));
        let mut unguarded: Option<String> = None;
        let errs = |st: &mut St, e: &anyhow_like::E| -> String { bump(&mut st.out.hist, format!("err:{}", err_kind(e))); format!("Err {}", err_kind(e)) };
        let o = match op {
            Op::BInsert { id, v } => match be.insert(*id, c.vector(*v, cfg.dim), HashMap::new()) {
                Ok(()) => {
                    inserted.insert(*id);
                    if slots >= cfg.cap {
                        // the index was full: this insert can only have succeeded through compact_tombstones
                        // (graph rebuilt from the live documents only)
                        bump(&mut st.out.hist, "compaction_rebuilds".to_string());
                        slots = be.len();
                    } else {
                        slots += 1;
                    }
                    "Ok".to_string()
                }
                Err(e) => errs(st, &format!("{:#}", e)),
            },
            Op::BInsertDim { id, dim } => match be.insert(*id, c.vector(7, *dim), HashMap::new()) {
                Ok(()) => { if *dim != cfg.dim { unguarded = Some(format!("insert accepted a {}-dimensional vector on a {}-dimensional backend", dim, cfg.dim)); } inserted.insert(*id); "Ok".into() }
                Err(e) => errs(st, &format!("{:#}", e)),
            },
            Op::BDelete { id } => match be.delete(*id) { Ok(b) => format!("Ok {}", b), Err(e) => errs(st, &format!("{:#}", e)) },
            Op::BBatchDelete { ids } => match be.batch_delete(ids) { Ok(n) => format!("Ok {}", n), Err(e) => errs(st, &format!("{:#}", e)) },
            Op::BSearch { v, k, ef, cancel } => {
                let q = c.vector(*v, cfg.dim).into_boxed_slice();
                let flag = cancel_flag(*cancel);
                let live = be.len();
                bump(&mut st.out.hist, format!("graph:{}", size_bucket(live)));
                match be.knn_search_with_ef_cancel(&q, *k, *ef, flag.as_ref()) {
                    Ok(res) => {
                        if *k > 10_000 { unguarded = Some(format!("search accepted k={}", k)); }
                        if live >= 2 && *cancel != 2 { st.out.reached_search_ge2 = true; }
                        if let Some(why) = check_results(&res, *k, &inserted) {
                            st.out.failure.get_or_insert(("result-oracle".into(), why, String::new(), String::new(), oi));
                        }
                        format!("Ok n={}", res.len())
                    }
                    Err(e) => errs(st, &format!("{:#}", e)),
                }
            }
            Op::BSearchBatch { v0, nq, k, ef } => {
                let qs: Vec<Vec<f32>> = (0..*nq).map(|i| c.vector(v0 + i as u64, cfg.dim)).collect();
                let live = be.len();
                bump(&mut st.out.hist, format!("graph:{}", size_bucket(live)));
                match be.knn_search_batch(&qs, *k, *ef) {
                    Ok(all) => {
                        if live >= 2 { st.out.reached_search_ge2 = true; }
                        for res in &all {
                            if let Some(why) = check_results(res, *k, &inserted) {
                                st.out.failure.get_or_insert(("result-oracle".into(), why, String::new(), String::new(), oi));
                            }
                        }
                        format!("Ok {:?}", all.iter().map(|r| r.len()).collect::<Vec<_>>())
                    }
                    Err(e) => errs(st, &format!("{:#}", e)),
                }
            }
            Op::BSearchDim { dim, k } => {
                let q = c.vector(3, *dim);
                match be.knn_search(&q, *k) {
                    Ok(res) => { if *dim != cfg.dim { unguarded = Some(format!("search accepted a {}-dimensional query on a {}-dimensional backend", dim, cfg.dim)); } format!("Ok n={}", res.len()) }
                    Err(e) => errs(st, &format!("{:#}", e)),
                }
            }
            _ => "skipped (index op in backend case)".into(),
        };
        if let Some(why) = unguarded {
            st.out.failure.get_or_insert(("unguarded-input".into(), why, String::new(), String::new(), oi));
        }
        st.out.obs.push(o);
    }
}

mod anyhow_like {
    pub type E = String;
}

fn classify_panic(msg: &str) -> Option<&'static str> {
    if msg.contains("kyrodb_verif H4") {
        return Some("h4-assert");
    }
    for pat in ["index out of bounds", "range end index", "range start index", "slice index", "out of range for slice", "out of bounds"] {
        if msg.contains(pat) {
            return Some("bounds-panic");
        }
    }
    None
}

/// Run one case in a fresh thread.
pub fn run_case(c: &Case) -> Outcome {
    let c2 = c.clone();
    if let Ok(mut g) = PANICS.lock() {
        g.clear();
    }
    let h = std::thread::Builder::new().stack_size(16 << 20).spawn(move || {
        let mut st = St { out: Outcome::default(), cur_op: 0 };
        let r = std::panic::catch_unwind(std::panic::AssertUnwindSafe(|| {
            if c2.family == "backend" { run_backend_family(&c2, &mut st) } else { run_index_family(&c2, &mut st) }
        }));
        (st, r.is_err())
    });
    let (mut st, panicked) = match h.map(|h| h.join()) {
        Ok(Ok(x)) => x,
        _ => {
            let mut o = Outcome::default();
            o.other_panic = Some(("case thread could not be joined".into(), String::new()));
            return o;
        }
    };
    let recorded: Vec<(String, String)> = PANICS.lock().map(|g| g.clone()).unwrap_or_default();
    // panics on helper threads (rayon) are recorded too, even if the caller survived
    for (msg, loc) in &recorded {
        if loc.contains("p/c17/src") {
            // a panic in the driver's own code is a driver bug, never an engine finding
            st.out.driver_bug = Some(format!("{} at {}", msg, loc));
            continue;
        }
        if let Some(kind) = classify_panic(msg) {
            st.out.failure = Some((kind.to_string(), format!("panic at op {}: {}", st.cur_op, msg), msg.clone(), loc.clone(), st.cur_op));
            break;
        }
    }
    if (panicked || !recorded.is_empty()) && !matches!(&st.out.failure, Some((k, ..)) if k == "h4-assert" || k == "bounds-panic") {
        let (msg, loc) = recorded.first().cloned().unwrap_or(("<panic without message>".into(), String::new()));
        st.out.other_panic = Some((format!("op {}: {}", st.cur_op, msg), loc));
    }
    if panicked {
        st.out.obs.push("PANIC".into());
    }
    st.out
}

pub fn failure_json(c: &Case, id: usize, o: &Outcome) -> Option<Value> {
    let (kind, why, msg, loc, op) = o.failure.clone()?;
    let mut cj = c.to_json();
    cj["id"] = json!(id);
    Some(json!({"kind": kind, "why": why, "message": msg, "location": loc, "op_index": op, "case_id": id, "case": cj}))
}

/// delta debugging on the op list (bounded effort): keep removing chunks while the same kind of failure remains
pub fn shrink(c: &Case, kind: &str, budget: usize) -> (Case, usize) {
    let mut best = c.clone();
    let mut runs = 0usize;
    let still = |cand: &Case, runs: &mut usize| -> bool {
        *runs += 1;
        matches!(run_case(cand).failure, Some((k, ..)) if k == kind)
    };
    // drop everything after the failing op first
    if let Some((_, _, _, _, op)) = run_case(&best).failure {
        if op + 1 < best.ops.len() {
            let mut t = best.clone();
            t.ops.truncate(op + 1);
            if still(&t, &mut runs) {
                best = t;
            }
        }
    }
    let mut chunk = (best.ops.len() / 2).max(1);
    while runs < budget && !best.ops.is_empty() {
        let mut i = 0;
        let mut removed_any = false;
        while i < best.ops.len() && runs < budget {
            let mut t = best.clone();
            let end = (i + chunk).min(t.ops.len());
            t.ops.drain(i..end);
            if !t.ops.is_empty() && still(&t, &mut runs) {
                best = t;
                removed_any = true;
            } else {
                i += chunk;
            }
        }
        if chunk == 1 {
            if !removed_any {
                break;
            }
        } else {
            chunk /= 2;
        }
    }
    // second index unused?
    if best.cfgs.len() == 2 && !best.ops.iter().any(|o| matches!(o, Op::Add { ix: 1, .. } | Op::Batch { ix: 1, .. } | Op::Search { ix: 1, .. } | Op::AddDim { ix: 1, .. } | Op::SearchDim { ix: 1, .. } | Op::Finish { ix: 1 })) {
        let mut t = best.clone();
        t.cfgs.truncate(1);
        if still(&t, &mut runs) {
            best = t;
        }
    }
    (best, runs)
}
