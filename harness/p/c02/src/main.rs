//! C02 — restart is lossless.  Correspondence + direct-oracle driver for Model/Backend.v.
//! usage: c02 --out DIR --n N [--maxlen L] [--threads T] [--replay FILE [--shrink]]
//!
//! Seeded histories x configuration grid are run on the REAL `HnswBackend` with persistence in a
//! scratch directory under DIR/data; after every operation the outcome class is recorded, and at
//! restarts / every 4th op / the last op also the census (ids ascending, exact f32 bits, sorted
//! metadata) and the manifest shape (latest_snapshot_wal_seq, number of listed segments).  The cases are
//! written as Gallina literals so that `check_history` (Model/Backend.v) is evaluated inside coqc.
//! Direct oracle (implementation observations only): census == abstract map of the successful
//! operations after every op; census after a restart == census before it; restart never fails; two
//! extra restarts at the end of every history leave the census unchanged.
use kvh::rng::Rng;
use kyrodb_engine::config::DistanceMetric;
use kyrodb_engine::hnsw_backend::verif_normalize_in_place_if_needed;
use kyrodb_engine::{FsyncPolicy, HnswBackend, Manifest, MetricsCollector};
use serde_json::{json, Value};
use std::collections::{BTreeMap, HashMap, HashSet};
use std::fmt::Write as _;
use std::path::{Path, PathBuf};

type Meta = Vec<(String, String)>; // sorted by key bytes, unique keys
type Census = Vec<(u64, Vec<u32>, Meta)>;

#[derive(Clone, Debug, PartialEq)]
struct Cfg {
    metric: u8, // 0 euclidean, 1 cosine, 2 inner product
    dim: usize,
    interval: usize,
    max_wal: u64,
    cap: usize,
}

#[derive(Clone, Debug, PartialEq)]
enum Op {
    Insert { id: u64, vec: Vec<u32>, meta: Meta },
    Delete { id: u64 },
    Batch { ids: Vec<u64> },
    Update { id: u64, meta: Meta, merge: bool },
    Snapshot,
    Restart,
}

#[derive(Clone, Debug, PartialEq)]
enum Class {
    Ok,
    Bool(bool),
    Count(u64),
    Invalid,
    Full,
    Rejected, // pre-flight: non-finite / norm out of tolerance (nothing logged)
    Err(String),
}

#[derive(Clone, Debug)]
struct Obs {
    class: Class,
    census: Option<Census>,
    shape: Option<Option<(Option<u64>, usize)>>,
}

#[derive(Clone, Debug)]
struct Case {
    cfg: Cfg,
    ops: Vec<Op>,
}

#[derive(Default, Clone, Debug)]
struct RunResult {
    obs: Vec<Obs>,
    oracle: Option<String>,
    nontrivial: bool,
    restarts: u64,
    rotations: u64,
    compactions: u64,
    snapshots: u64,
}

fn metric_of(m: u8) -> DistanceMetric {
    match m {
        1 => DistanceMetric::Cosine,
        2 => DistanceMetric::InnerProduct,
        _ => DistanceMetric::Euclidean,
    }
}
fn metric_name(m: u8) -> &'static str {
    match m {
        1 => "cosine",
        2 => "innerproduct",
        _ => "euclidean",
    }
}
fn bits(v: &[f32]) -> Vec<u32> {
    v.iter().map(|x| x.to_bits()).collect()
}
fn floats(v: &[u32]) -> Vec<f32> {
    v.iter().map(|x| f32::from_bits(*x)).collect()
}

/// normalize_in_place_if_needed on bit patterns (the engine's own code through hook H5).
fn normalize(metric: u8, v: &[u32]) -> Option<Vec<u32>> {
    let mut f = floats(v);
    match verif_normalize_in_place_if_needed(metric_of(metric), &mut f) {
        Ok(()) => Some(bits(&f)),
        Err(_) => None,
    }
}

/// Does the index accept this (already normalised) vector?  Mirrors the pre-flight in HnswBackend::insert
/// (= HnswVectorIndex::add_vector): all components finite; for cosine / inner product norm_sq in
/// [0.98, 1.02].  `None` = too close to the tolerance edge to decide independently of the SIMD
/// summation order; such vectors are kept out of the histories.
fn index_accepts(metric: u8, v: &[u32]) -> Option<bool> {
    let f = floats(v);
    if f.iter().any(|x| !x.is_finite()) {
        return Some(false);
    }
    if metric == 0 {
        return Some(true);
    }
    let n: f64 = f.iter().map(|x| (*x as f64) * (*x as f64)).sum();
    if (0.985..=1.015).contains(&n) {
        Some(true)
    } else if !(0.97..=1.03).contains(&n) {
        Some(false)
    } else {
        None
    }
}

fn canon_meta(m: &Meta) -> Meta {
    let mut b: BTreeMap<Vec<u8>, (String, String)> = BTreeMap::new();
    for (k, v) in m {
        b.insert(k.as_bytes().to_vec(), (k.clone(), v.clone()));
    }
    b.into_values().collect()
}

// ------------------------------------------------------------------------------------------------
// generators
// ------------------------------------------------------------------------------------------------

fn rand_unit(r: &mut Rng) -> f32 {
    ((r.below(1 << 24) as f32) / (1u32 << 24) as f32) - 0.5
}

/// Vector pool of one dimension: duplicates, near-duplicates, axis vectors, tiny/huge norms, already
/// normalised and slightly off-normalised vectors, plus the refused-before-logging classes (zero,
/// sub-epsilon norm, wrong dimension).
fn vector_pool(dim: usize, r: &mut Rng) -> Vec<Vec<f32>> {
    let mut p: Vec<Vec<f32>> = vec![];
    let mut e0 = vec![0.0f32; dim];
    e0[0] = 1.0;
    p.push(e0);
    let mut el = vec![0.0f32; dim];
    el[dim - 1] = -1.0;
    p.push(el);
    p.push(vec![1.0; dim]);
    p.push(vec![1.0; dim]); // exact duplicate
    let mut near = vec![1.0f32; dim];
    near[0] = f32::from_bits(1.0f32.to_bits() + 1);
    p.push(near);
    let mut ints: Vec<f32> = (0..dim).map(|_| (r.below(7) as f32) - 3.0).collect();
    if ints.iter().all(|x| *x == 0.0) {
        ints[0] = 2.0;
    }
    p.push(ints.clone());
    p.push((0..dim).map(|_| rand_unit(r) + 0.75).collect());
    p.push((0..dim).map(|_| (rand_unit(r) + 0.75) * 1e-3).collect()); // tiny norm (> epsilon)
    p.push(ints.iter().map(|x| x * 1e15).collect()); // huge norm, squares stay finite
    p.push(vec![1e-5; dim]); // norm_sq <= f32::EPSILON: "norm is zero" for cosine / inner product
    p.push(vec![0.0; dim]); // zero vector
    p.push(vec![1.0; dim + 1]); // wrong dimension
    // already normalised / inside tolerance / just outside tolerance
    let nsq: f32 = ints.iter().map(|x| x * x).sum();
    let unit: Vec<f32> = ints.iter().map(|x| x / nsq.sqrt()).collect();
    p.push(unit.clone());
    p.push(unit.iter().map(|x| x * 1.004).collect());
    p.push(unit.iter().map(|x| x * 1.02).collect());
    p.push((0..dim).map(|_| rand_unit(r) * 4.0 + 0.1).collect());
    // refused by the pre-flight (after normalisation): NaN, infinity, overflowing squares
    let mut nan = vec![1.0f32; dim];
    nan[dim - 1] = f32::NAN;
    p.push(nan);
    let mut inf = vec![0.5f32; dim];
    inf[0] = f32::INFINITY;
    p.push(inf);
    p.push(vec![1e30; dim]); // norm_sq = inf: cosine normalises to all zeros (refused); euclidean accepts
    p
}

const KEYS: [&str; 3] = ["k0", "k1", "tag"];
const VALS: [&str; 6] = ["", "a", "b", "10", "\u{e9}t\u{e9}", "zz"];

fn gen_meta(r: &mut Rng) -> Meta {
    let mut m: Meta = vec![];
    for k in KEYS.iter() {
        if r.chance(1, 2) {
            m.push((k.to_string(), r.pick(&VALS).to_string()));
        }
    }
    canon_meta(&m)
}

fn gen_case(r: &mut Rng, pools: &HashMap<usize, Vec<Vec<f32>>>, maxlen: usize) -> Case {
    let metric = r.below(3) as u8;
    let dim = *r.pick(&[1usize, 3, 8, 17]);
    let interval = *r.pick(&[0usize, 1, 2, 5, 1000]);
    let f = 52 + 4 * dim as u64; // frame of an insert without metadata
    let max_wal = *r.pick(&[1u64, 1, 4 + f, 4 + 3 * f, 4 + 3 * f + 1, 0, 1 << 30]);
    let cap = *r.pick(&[2usize, 4, 4, 64, 64, 64]);
    let cfg = Cfg { metric, dim, interval, max_wal, cap };
    let nid = r.range(4, 8);
    let pool = &pools[&dim];
    // every pool vector whose fate is decidable independently of the SIMD summation order
    let usable: Vec<Vec<u32>> = pool
        .iter()
        .map(|v| bits(v))
        .filter(|b| {
            if b.len() != dim {
                return true;
            }
            match normalize(metric, b) {
                None => true,
                Some(w) => index_accepts(metric, &w).is_some(),
            }
        })
        .collect();
    let n = r.range(4, maxlen as u64) as usize;
    let mut ops = vec![];
    for _ in 0..n {
        let id = r.below(nid);
        let k = r.below(100);
        let op = if k < 45 {
            // valid-biased: the refused classes sit at the end of the pool
            let v = if r.chance(9, 10) {
                let good: Vec<&Vec<u32>> = usable
                    .iter()
                    .filter(|b| b.len() == dim && normalize(metric, b).map(|w| index_accepts(metric, &w) == Some(true)).unwrap_or(false))
                    .collect();
                (*r.pick(&good)).clone()
            } else {
                r.pick(&usable).clone()
            };
            Op::Insert { id, vec: v, meta: gen_meta(r) }
        } else if k < 57 {
            Op::Delete { id }
        } else if k < 65 {
            let m = r.range(1, 4);
            Op::Batch { ids: (0..m).map(|_| r.below(nid + 1)).collect() }
        } else if k < 80 {
            Op::Update { id, meta: gen_meta(r), merge: r.chance(1, 2) }
        } else if k < 86 {
            Op::Snapshot
        } else {
            Op::Restart
        };
        ops.push(op);
    }
    // restart chain at the end of every history
    ops.push(Op::Restart);
    ops.push(Op::Restart);
    Case { cfg, ops }
}

// ------------------------------------------------------------------------------------------------
// running on the real engine
// ------------------------------------------------------------------------------------------------

fn open_fresh(cfg: &Cfg, dir: &Path) -> anyhow::Result<HnswBackend> {
    HnswBackend::with_persistence(
        cfg.dim,
        metric_of(cfg.metric),
        vec![],
        vec![],
        cfg.cap,
        dir,
        FsyncPolicy::Never,
        cfg.interval,
        cfg.max_wal,
    )
}
fn reopen(cfg: &Cfg, dir: &Path) -> anyhow::Result<HnswBackend> {
    HnswBackend::recover(
        cfg.dim,
        metric_of(cfg.metric),
        dir,
        cfg.cap,
        FsyncPolicy::Never,
        cfg.interval,
        cfg.max_wal,
        MetricsCollector::new(),
    )
}

fn census(b: &HnswBackend) -> Census {
    let mut ids = b.scan(|_| true);
    ids.sort_unstable();
    ids.iter()
        .map(|id| {
            let v = b.fetch_document(*id).map(|v| bits(&v)).unwrap_or_default();
            let m: Meta = b.fetch_metadata(*id).unwrap_or_default().into_iter().collect();
            (*id, v, canon_meta(&m))
        })
        .collect()
}

fn classify_err(e: &anyhow::Error) -> Class {
    let s = format!("{:#}", e);
    let l = s.to_lowercase();
    if l.contains("dimension mismatch") || l.contains("norm is zero") {
        Class::Invalid
    } else if l.contains("index full") {
        Class::Full
    } else if l.contains("non-finite") || l.contains("requires l2-normalized") {
        Class::Rejected
    } else {
        Class::Err(s.chars().take(160).collect())
    }
}

fn manifest_view(dir: &Path) -> Option<(Option<String>, Option<u64>, Vec<String>)> {
    Manifest::load(dir.join("MANIFEST")).ok().map(|m| (m.latest_snapshot, m.latest_snapshot_wal_seq, m.wal_segments))
}

fn run_case(c: &Case, dir: &Path) -> RunResult {
    kvh::panicrec::set_input_debug(c);
    let _ = std::fs::remove_dir_all(dir);
    std::fs::create_dir_all(dir).unwrap();
    let mut res = RunResult::default();
    let mut be = match open_fresh(&c.cfg, dir) {
        Ok(b) => Some(b),
        Err(e) => {
            res.oracle = Some(format!("with_persistence failed: {:#}", e));
            return res;
        }
    };
    let mut reference: BTreeMap<u64, (Vec<u32>, Meta)> = BTreeMap::new();
    // epoch = number of manifest changes (snapshot / rotation / compaction / restart) so far;
    // version_epoch[id] = epoch at which the live version of id was logged
    let mut epoch = 0u64;
    let mut version_epoch: HashMap<u64, u64> = HashMap::new();
    let mut straddle_pending = false;
    let mut deleted_zero = false;
    let mut last_view = manifest_view(dir);
    let n = c.ops.len();
    for (i, op) in c.ops.iter().enumerate() {
        let class = match op {
            Op::Restart => {
                let before = census(be.as_ref().unwrap());
                drop(be.take()); // the engine is stopped at an operation boundary
                match reopen(&c.cfg, dir) {
                    Ok(b) => {
                        let after = census(&b);
                        if after != before && res.oracle.is_none() {
                            res.oracle = Some(format!(
                                "op {}: census after restart differs from the live census before it: before={:?} after={:?}",
                                i, before, after
                            ));
                        }
                        // self-test of the shrinker / VIOLATION path only (never set by ./check):
                        // pretend the oracle fails at a restart that follows a successful delete of id 0
                        if std::env::var("C02_SELFTEST_FAKE_FAILURE").is_ok() && deleted_zero && res.oracle.is_none() {
                            res.oracle = Some(format!("op {}: SELFTEST fake failure (restart after delete of id 0)", i));
                        }
                        be = Some(b);
                        res.restarts += 1;
                        if straddle_pending {
                            res.nontrivial = true;
                        }
                        Class::Ok
                    }
                    Err(e) => {
                        if res.oracle.is_none() {
                            res.oracle = Some(format!("op {}: strict restart failed: {:#}", i, e));
                        }
                        res.obs.push(Obs { class: Class::Err(format!("{:#}", e).chars().take(160).collect()), census: None, shape: None });
                        return res;
                    }
                }
            }
            Op::Insert { id, vec, meta } => {
                let b = be.as_ref().unwrap();
                let m: HashMap<String, String> = meta.iter().cloned().collect();
                match b.insert(*id, floats(vec), m) {
                    Ok(()) => {
                        let w = normalize(c.cfg.metric, vec).unwrap_or_default();
                        if let Some(e0) = version_epoch.get(id) {
                            if reference.contains_key(id) && *e0 < epoch {
                                straddle_pending = true;
                            }
                        }
                        reference.insert(*id, (w, canon_meta(meta)));
                        version_epoch.insert(*id, epoch);
                        Class::Ok
                    }
                    Err(e) => classify_err(&e),
                }
            }
            Op::Delete { id } => match be.as_ref().unwrap().delete(*id) {
                Ok(x) => {
                    if x {
                        if version_epoch.get(id).map(|e0| *e0 < epoch).unwrap_or(false) {
                            straddle_pending = true;
                        }
                        reference.remove(id);
                        if *id == 0 {
                            deleted_zero = true;
                        }
                    }
                    Class::Bool(x)
                }
                Err(e) => classify_err(&e),
            },
            Op::Batch { ids } => match be.as_ref().unwrap().batch_delete(ids) {
                Ok(k) => {
                    for id in ids {
                        if reference.remove(id).is_some() && version_epoch.get(id).map(|e0| *e0 < epoch).unwrap_or(false) {
                            straddle_pending = true;
                        }
                    }
                    Class::Count(k)
                }
                Err(e) => classify_err(&e),
            },
            Op::Update { id, meta, merge } => {
                let m: HashMap<String, String> = meta.iter().cloned().collect();
                match be.as_ref().unwrap().update_metadata(*id, m, *merge) {
                    Ok(x) => {
                        if x {
                            if let Some((_, old)) = reference.get_mut(id) {
                                let mut nm: Meta = if *merge { old.clone() } else { vec![] };
                                nm.extend(meta.iter().cloned());
                                *old = canon_meta(&nm);
                            }
                        }
                        Class::Bool(x)
                    }
                    Err(e) => classify_err(&e),
                }
            }
            Op::Snapshot => match be.as_ref().unwrap().create_snapshot() {
                Ok(()) => Class::Ok,
                Err(e) => classify_err(&e),
            },
        };
        let cen = census(be.as_ref().unwrap());
        let want: Census = reference.iter().map(|(k, (v, m))| (*k, v.clone(), m.clone())).collect();
        if cen != want && res.oracle.is_none() {
            res.oracle = Some(format!(
                "op {} ({:?}): live census differs from the collection defined by the successful operations: census={:?} expected={:?}",
                i, op, cen, want
            ));
        }
        let view = manifest_view(dir);
        if view != last_view {
            epoch += 1;
            if let (Some(a), Some(b)) = (&last_view, &view) {
                if b.2.len() > a.2.len() && !matches!(op, Op::Restart) {
                    res.rotations += 1;
                }
                if b.2.len() < a.2.len() || (b.1 == a.1 && b.2.len() == a.2.len() && b.2 != a.2) {
                    res.compactions += 1;
                }
                if b.0 != a.0 {
                    res.snapshots += 1;
                    if b.2.len() <= a.2.len() && a.2.len() > 1 && b.2.len() < a.2.len() + 1 && b.2 != a.2 {
                        // counted above
                    }
                }
            }
            last_view = view.clone();
        }
        let checkpoint = matches!(op, Op::Restart) || i % 4 == 3 || i + 1 == n;
        res.obs.push(Obs {
            class,
            census: if checkpoint { Some(cen) } else { None },
            shape: if checkpoint { Some(view.map(|v| (v.1, v.2.len()))) } else { None },
        });
    }
    drop(be);
    res
}

// ------------------------------------------------------------------------------------------------
// JSON (replay files) and shrinking
// ------------------------------------------------------------------------------------------------

fn meta_json(m: &Meta) -> Value {
    Value::Array(m.iter().map(|(k, v)| json!([k, v])).collect())
}
fn meta_from(v: &Value) -> Meta {
    v.as_array().map(|a| a.iter().map(|p| (p[0].as_str().unwrap_or("").to_string(), p[1].as_str().unwrap_or("").to_string())).collect()).unwrap_or_default()
}
fn op_json(o: &Op) -> Value {
    match o {
        Op::Insert { id, vec, meta } => json!({"op": "insert", "id": id, "vec_bits": vec, "vec": floats(vec).iter().map(|x| format!("{:e}", x)).collect::<Vec<_>>(), "meta": meta_json(meta)}),
        Op::Delete { id } => json!({"op": "delete", "id": id}),
        Op::Batch { ids } => json!({"op": "batch_delete", "ids": ids}),
        Op::Update { id, meta, merge } => json!({"op": "update_metadata", "id": id, "meta": meta_json(meta), "merge": merge}),
        Op::Snapshot => json!({"op": "create_snapshot"}),
        Op::Restart => json!({"op": "restart"}),
    }
}
fn op_from(v: &Value) -> Op {
    let id = v["id"].as_u64().unwrap_or(0);
    match v["op"].as_str().unwrap_or("") {
        "insert" => Op::Insert { id, vec: v["vec_bits"].as_array().unwrap().iter().map(|x| x.as_u64().unwrap() as u32).collect(), meta: meta_from(&v["meta"]) },
        "delete" => Op::Delete { id },
        "batch_delete" => Op::Batch { ids: v["ids"].as_array().unwrap().iter().map(|x| x.as_u64().unwrap()).collect() },
        "update_metadata" => Op::Update { id, meta: meta_from(&v["meta"]), merge: v["merge"].as_bool().unwrap_or(false) },
        "create_snapshot" => Op::Snapshot,
        _ => Op::Restart,
    }
}
fn case_json(c: &Case) -> Value {
    json!({
        "cfg": {"metric": metric_name(c.cfg.metric), "dim": c.cfg.dim, "snapshot_interval": c.cfg.interval,
                "max_wal_size_bytes": c.cfg.max_wal, "capacity": c.cfg.cap, "fsync": "never"},
        "ops": c.ops.iter().map(op_json).collect::<Vec<_>>(),
    })
}
fn case_from(v: &Value) -> Case {
    let g = &v["cfg"];
    let metric = match g["metric"].as_str().unwrap_or("euclidean") {
        "cosine" => 1,
        "innerproduct" => 2,
        _ => 0,
    };
    Case {
        cfg: Cfg {
            metric,
            dim: g["dim"].as_u64().unwrap_or(2) as usize,
            interval: g["snapshot_interval"].as_u64().unwrap_or(0) as usize,
            max_wal: g["max_wal_size_bytes"].as_u64().unwrap_or(0),
            cap: g["capacity"].as_u64().unwrap_or(64) as usize,
        },
        ops: v["ops"].as_array().unwrap().iter().map(op_from).collect(),
    }
}

/// Delta debugging over the op list: keep removing chunks while the direct oracle still fails.
fn shrink(c: &Case, dir: &Path) -> (Case, RunResult) {
    let mut cur = c.clone();
    let mut best = run_case(&cur, dir);
    if best.oracle.is_none() {
        return (cur, best);
    }
    let mut chunk = (cur.ops.len() / 2).max(1);
    loop {
        let mut progressed = false;
        let mut i = 0;
        while i < cur.ops.len() {
            let hi = (i + chunk).min(cur.ops.len());
            let mut t = cur.clone();
            t.ops.drain(i..hi);
            let r = run_case(&t, dir);
            if r.oracle.is_some() {
                cur = t;
                best = r;
                progressed = true;
            } else {
                i += chunk;
            }
        }
        if !progressed {
            if chunk == 1 {
                break;
            }
            chunk = (chunk / 2).max(1);
        }
    }
    (cur, best)
}

// ------------------------------------------------------------------------------------------------
// Gallina emission
// ------------------------------------------------------------------------------------------------

#[derive(Default)]
struct Intern {
    vecs: Vec<Vec<u32>>,
    vmap: HashMap<Vec<u32>, usize>,
    strs: Vec<String>,
    smap: HashMap<String, usize>,
    norm: BTreeMap<Vec<u32>, Option<Vec<u32>>>, // table of c_normalize (cosine / inner product branch)
    rej_e: Vec<Vec<u32>>,                      // vectors the index refuses under Euclidean
    rej_c: Vec<Vec<u32>>,                      // normalised vectors the index refuses under cosine / inner product
    idem_checked: u64,
    idem_failed: Vec<Value>,
}
impl Intern {
    fn v(&mut self, b: &[u32]) -> String {
        let n = self.vecs.len();
        let i = *self.vmap.entry(b.to_vec()).or_insert(n);
        if i == n {
            self.vecs.push(b.to_vec());
        }
        format!("v{}", i)
    }
    fn s(&mut self, x: &str) -> String {
        let n = self.strs.len();
        let i = *self.smap.entry(x.to_string()).or_insert(n);
        if i == n {
            self.strs.push(x.to_string());
        }
        format!("b{}", i)
    }
    fn meta(&mut self, m: &Meta) -> String {
        let parts: Vec<String> = m.iter().map(|(k, v)| format!("({}, {})", self.s(k), self.s(v))).collect();
        format!("[{}]", parts.join("; "))
    }
    /// Record raw -> normalised, and normalised -> normalise(normalised) (bitwise idempotence is the
    /// Section-style hypothesis `norm_idem` of C02; measured here on every vector used).
    fn note_accept(&mut self, metric: u8, raw: &[u32]) {
        if metric == 0 {
            if index_accepts(0, raw) == Some(false) && !self.rej_e.iter().any(|x| x == raw) {
                self.v(raw);
                self.rej_e.push(raw.to_vec());
            }
        } else if let Some(w) = normalize(1, raw) {
            if index_accepts(1, &w) == Some(false) && !self.rej_c.iter().any(|x| *x == w) {
                self.v(&w);
                self.rej_c.push(w);
            }
        }
    }
    fn note_norm(&mut self, raw: &[u32]) {
        if self.norm.contains_key(raw) {
            return;
        }
        let w = normalize(1, raw);
        self.norm.insert(raw.to_vec(), w.clone());
        self.v(raw);
        if let Some(w) = w {
            self.v(&w);
            let ww = normalize(1, &w);
            self.idem_checked += 1;
            if ww.as_ref() != Some(&w) && index_accepts(1, &w) == Some(true) {
                self.idem_failed.push(json!({"raw_bits": raw, "normalised_bits": w, "renormalised_bits": ww}));
            }
            if normalize(2, raw).as_ref() != Some(&w) {
                self.idem_failed.push(json!({"raw_bits": raw, "note": "cosine and inner-product normalisation differ"}));
            }
            if let Some(x) = &ww {
                self.v(x);
            }
            self.norm.entry(w.clone()).or_insert(ww);
        }
    }
}

fn coq_class(c: &Class) -> String {
    match c {
        Class::Ok => "KOk".into(),
        Class::Bool(b) => format!("(KBool {})", b),
        Class::Count(n) => format!("(KCount {})", n),
        Class::Invalid => "KInvalid".into(),
        Class::Full => "KFull".into(),
        Class::Rejected | Class::Err(_) => "KErr".into(),
    }
}

fn coq_case(id: usize, c: &Case, obs: &[Obs], it: &mut Intern) -> String {
    let metric = match c.cfg.metric {
        1 => "Cosine",
        2 => "InnerProduct",
        _ => "Euclidean",
    };
    let mut ops = vec![];
    for o in c.ops.iter().take(obs.len()) {
        ops.push(match o {
            Op::Insert { id, vec, meta } => {
                if c.cfg.metric != 0 && vec.len() == c.cfg.dim {
                    it.note_norm(vec);
                }
                if vec.len() == c.cfg.dim {
                    it.note_accept(c.cfg.metric, vec);
                }
                format!("OInsert {} {} {}", id, it.v(vec), it.meta(meta))
            }
            Op::Delete { id } => format!("ODelete {}", id),
            Op::Batch { ids } => format!("OBatchDelete [{}]", ids.iter().map(|x| x.to_string()).collect::<Vec<_>>().join("; ")),
            Op::Update { id, meta, merge } => format!("OUpdate {} {} {}", id, it.meta(meta), merge),
            Op::Snapshot => "OSnapshot".into(),
            Op::Restart => "ORestart".into(),
        });
    }
    let mut ob = vec![];
    for o in obs {
        let cen = match &o.census {
            None => "None".to_string(),
            Some(c) => {
                let parts: Vec<String> = c.iter().map(|(id, v, m)| format!("({}, D {} {})", id, it.v(v), it.meta(m))).collect();
                format!("(Some [{}])", parts.join("; "))
            }
        };
        let sh = match &o.shape {
            None => "None".to_string(),
            Some(None) => "(Some None)".to_string(),
            Some(Some((q, n))) => format!(
                "(Some (Some ({}, {})))",
                match q {
                    None => "None".to_string(),
                    Some(x) => format!("Some {}", x),
                },
                n
            ),
        };
        ob.push(format!("mkObs {} {} {}", coq_class(&o.class), cen, sh));
    }
    format!(
        "({}, mkCfg {} {} {} {} {} FsNever cnorm {},\n   [{}],\n   [{}])",
        id, metric, c.cfg.dim, c.cfg.interval, c.cfg.max_wal, c.cfg.cap,
        if c.cfg.metric == 0 { "cacc_e" } else { "cacc_c" },
        ops.join("; "),
        ob.join(";\n    ")
    )
}

fn coq_file(body: &str, it: &Intern) -> String {
    let mut s = String::new();
    s.push_str("From Coq Require Import List NArith ZArith Bool.\nFrom Kyro Require Import Model.Amap Model.Backend.\nImport ListNotations.\nOpen Scope N_scope.\n");
    for (i, v) in it.vecs.iter().enumerate() {
        let _ = writeln!(s, "Definition v{} : vec := [{}]%Z.", i, v.iter().map(|x| x.to_string()).collect::<Vec<_>>().join("; "));
    }
    for (i, x) in it.strs.iter().enumerate() {
        let _ = writeln!(s, "Definition b{} : bytes := [{}].", i, x.as_bytes().iter().map(|x| x.to_string()).collect::<Vec<_>>().join("; "));
    }
    let tab: Vec<String> = it
        .norm
        .iter()
        .map(|(k, v)| {
            format!(
                "(v{}, {})",
                it.vmap[k],
                match v {
                    None => "None".to_string(),
                    Some(w) => format!("Some v{}", it.vmap[w]),
                }
            )
        })
        .collect();
    let _ = writeln!(s, "Definition ntab : list (vec * option vec) := [{}].", tab.join("; "));
    s.push_str("Definition cnorm (v : vec) : option vec := match find (fun p => vec_eqb (fst p) v) ntab with Some p => snd p | None => None end.\n");
    let _ = writeln!(s, "Definition rej_e : list vec := [{}].", it.rej_e.iter().map(|v| format!("v{}", it.vmap[v])).collect::<Vec<_>>().join("; "));
    let _ = writeln!(s, "Definition rej_c : list vec := [{}].", it.rej_c.iter().map(|v| format!("v{}", it.vmap[v])).collect::<Vec<_>>().join("; "));
    s.push_str("Definition cacc_e (v : vec) : bool := negb (existsb (vec_eqb v) rej_e).\nDefinition cacc_c (v : vec) : bool := negb (existsb (vec_eqb v) rej_c).\n");
    s.push_str("Definition D (v : vec) (m : meta) : doc := mkDoc v m.\n");
    // NOTE: the case list is NOT bound by a Definition: storing it in the .vo costs coqc ~12 s per shard.
    s.push_str("Definition check1 (c : N * cfg * list op * list obs) : list (N * N) := match c with (id, cf, ops, os) => match check_history cf ops os with None => [] | Some i => [(id, i)] end end.\n");
    s.push_str("Goal True. idtac \"@@res\". Abort.\n");
    let _ = writeln!(s, "Eval vm_compute in (let cs : list (N * cfg * list op * list obs) := [\n  {}\n] in (N.of_nat (length cs), flat_map check1 cs)).", body);
    s
}

// ------------------------------------------------------------------------------------------------

fn main() {
    kvh::panicrec::install();
    let args: Vec<String> = std::env::args().collect();
    let mut out = String::from("/verif/.cache/run/C02");
    let mut n = 300usize;
    let mut maxlen = 38usize;
    let mut threads = 8usize;
    let mut replay: Option<String> = None;
    let mut do_shrink = false;
    let mut i = 1;
    while i < args.len() {
        match args[i].as_str() {
            "--out" => { out = args[i + 1].clone(); i += 1 }
            "--n" => { n = args[i + 1].parse().unwrap(); i += 1 }
            "--maxlen" => { maxlen = args[i + 1].parse().unwrap(); i += 1 }
            "--threads" => { threads = args[i + 1].parse().unwrap(); i += 1 }
            "--replay" => { replay = Some(args[i + 1].clone()); i += 1 }
            "--shrink" => do_shrink = true,
            _ => {}
        }
        i += 1;
    }
    std::fs::create_dir_all(&out).unwrap();
    let data = PathBuf::from(&out).join("data");
    let mut cases: Vec<Case> = vec![];
    let mut from_corpus = 0usize;
    if let Some(p) = &replay {
        let v: Value = serde_json::from_str(&std::fs::read_to_string(p).unwrap()).unwrap();
        let cv = if v.get("case").is_some() { v["case"].clone() } else { v };
        cases.push(case_from(&cv));
    } else {
        if let Ok(rd) = std::fs::read_dir("/verif/corpus/C02") {
            let mut ps: Vec<_> = rd.filter_map(|e| e.ok()).map(|e| e.path()).collect();
            ps.sort();
            for p in ps {
                if let Ok(s) = std::fs::read_to_string(&p) {
                    if let Ok(v) = serde_json::from_str::<Value>(&s) {
                        let cv = if v.get("case").is_some() { v["case"].clone() } else { v };
                        if cv.get("ops").is_some() {
                            cases.push(case_from(&cv));
                            from_corpus += 1;
                        }
                    }
                }
            }
        }
        let mut rng = Rng::from_env();
        let mut pr = rng.fork(0xC02);
        let mut pools = HashMap::new();
        for d in [1usize, 3, 8, 17] {
            pools.insert(d, vector_pool(d, &mut pr));
        }
        for k in 0..n {
            let mut r = rng.fork(k as u64);
            cases.push(gen_case(&mut r, &pools, maxlen));
        }
    }
    // run (threads over cases, each with its own scratch directory)
    let results: Vec<RunResult> = {
        let cases_ref = &cases;
        let nthreads = threads.max(1).min(cases.len().max(1));
        let mut slots: Vec<Option<RunResult>> = vec![None; cases.len()];
        let chunks: Vec<Vec<(usize, RunResult)>> = std::thread::scope(|sc| {
            let hs: Vec<_> = (0..nthreads)
                .map(|t| {
                    let dir = data.join(format!("t{}", t));
                    sc.spawn(move || {
                        let mut v = vec![];
                        let mut k = t;
                        while k < cases_ref.len() {
                            v.push((k, run_case(&cases_ref[k], &dir)));
                            k += nthreads;
                        }
                        let _ = std::fs::remove_dir_all(&dir);
                        v
                    })
                })
                .collect();
            hs.into_iter().map(|h| h.join().unwrap()).collect()
        });
        for ch in chunks {
            for (k, r) in ch {
                slots[k] = Some(r);
            }
        }
        slots.into_iter().map(|x| x.unwrap()).collect()
    };

    let mut it = Intern::default();
    let mut hist: BTreeMap<String, u64> = BTreeMap::new();
    let mut bump = |k: &str, d: u64| *hist.entry(k.to_string()).or_insert(0) += d;
    let mut distinct = HashSet::new();
    let (mut nontrivial, mut total_ops, mut ok_ops) = (0u64, 0u64, 0u64);
    let mut oracle_fail = vec![];
    let mut samples = vec![];
    let mut all = vec![];
    let shard_size = 25usize;
    let mut bodies: Vec<Vec<String>> = vec![];
    for (id, (c, r)) in cases.iter().zip(results.iter()).enumerate() {
        for (o, b) in c.ops.iter().zip(r.obs.iter()) {
            total_ops += 1;
            let kind = match o {
                Op::Insert { .. } => "insert",
                Op::Delete { .. } => "delete",
                Op::Batch { .. } => "batch_delete",
                Op::Update { .. } => "update_metadata",
                Op::Snapshot => "create_snapshot",
                Op::Restart => "restart",
            };
            bump(&format!("op.{}", kind), 1);
            let cl = match &b.class {
                Class::Ok => "ok".to_string(),
                Class::Bool(x) => format!("ok_{}", x),
                Class::Count(k) => format!("ok_count_{}", if *k == 0 { "0" } else { "pos" }),
                Class::Invalid => "err_invalid".to_string(),
                Class::Full => "err_index_full".to_string(),
                Class::Rejected => "err_rejected_preflight".to_string(),
                Class::Err(_) => "err_other".to_string(),
            };
            if !cl.starts_with("err") {
                ok_ops += 1;
            }
            bump(&format!("outcome.{}", cl), 1);
        }
        bump("event.restart_ok", r.restarts);
        bump("event.rotation", r.rotations);
        bump("event.snapshot", r.snapshots);
        bump("event.log_compaction", r.compactions);
        bump(&format!("cfg.metric.{}", metric_name(c.cfg.metric)), 1);
        bump(&format!("cfg.dim.{}", c.cfg.dim), 1);
        bump(&format!("cfg.snapshot_interval.{}", c.cfg.interval), 1);
        bump(&format!("cfg.capacity.{}", c.cfg.cap), 1);
        bump(&format!("cfg.rotation.{}", match c.cfg.max_wal { 0 => "disabled", 1 => "every_append", x if x >= 1 << 30 => "large", _ => "about_1_to_3_frames" }), 1);
        let key = format!("{:?}|{:?}|{:?}", c.cfg, c.ops, r.obs);
        if distinct.insert(key) && r.nontrivial {
            nontrivial += 1;
        }
        if let Some(why) = &r.oracle {
            oracle_fail.push(json!({"id": id, "why": why, "case": case_json(c)}));
        }
        if samples.len() < 2 && c.ops.len() <= 14 {
            let mut cj = case_json(c);
            cj["outcomes"] = Value::Array(r.obs.iter().map(|o| json!(format!("{:?}", o.class))).collect());
            samples.push(cj);
        }
        all.push(case_json(c));
        if id % shard_size == 0 {
            bodies.push(vec![]);
        }
        bodies.last_mut().unwrap().push(coq_case(id, c, &r.obs, &mut it));
    }
    for (k, b) in bodies.iter().enumerate() {
        std::fs::write(format!("{}/cases_{}.v", out, k), coq_file(&b.join(";\n  "), &it)).unwrap();
    }
    // shrink the first oracle failure
    let mut shrunk = Value::Null;
    if do_shrink || !oracle_fail.is_empty() {
        if let Some(f) = oracle_fail.first() {
            let c = case_from(&f["case"]);
            let (m, r) = shrink(&c, &data.join("shrink"));
            shrunk = json!({"why": r.oracle, "case": case_json(&m), "outcomes": r.obs.iter().map(|o| format!("{:?}", o.class)).collect::<Vec<_>>()});
            let _ = std::fs::remove_dir_all(data.join("shrink"));
        }
    }
    let _ = std::fs::remove_dir_all(&data);
    let summary = json!({
        "cases": cases.len(), "from_corpus": from_corpus, "shards": bodies.len(),
        "oracle_failures": oracle_fail, "shrunk": shrunk,
        "distinct": distinct.len(), "nontrivial": nontrivial,
        "ops": total_ops, "ops_ok": ok_ops,
        "histogram": hist, "samples": samples,
        "norm_idem_checked": it.idem_checked, "norm_idem_failures": it.idem_failed,
        "vectors_interned": it.vecs.len(),
    });
    std::fs::write(format!("{}/summary.json", out), serde_json::to_string_pretty(&summary).unwrap()).unwrap();
    std::fs::write(format!("{}/all_cases.json", out), serde_json::to_string(&all).unwrap()).unwrap();
    println!(
        "c02: {} cases, {} ops ({} ok), {} oracle failures, {} non-trivial",
        cases.len(), total_ops, ok_ops, summary["oracle_failures"].as_array().unwrap().len(), nontrivial
    );
}
