//! xl15 — translation target of property C15: the request validators of the API layer
//!   engine/src/api_validation.rs        validate_insert_request, validate_search_request (+ the constants)
//!   engine/src/adaptive_oversampling.rs calculate_oversampling_factor, estimate_selectivity
//! -> coq/gen/Validators_gen.v over the vocabulary of coq/Model/ReqBase.v.
//!
//! usage: xl15 [--repo /repo] [--out /verif/coq/gen] [--report-dir /verif/.cache/gen]
//! exit status 0 ok, 2 FAILED CLOSED (construct and line named; Validators_gen.v is left untouched), 1 io.
//!
//! Accepted Rust subset (typed; anything else fails closed):
//!   statements   `if c { return Err(..); }` / `if c { return e; }` (tail position only, no else),
//!                `let x = e;`, a tail expression, `Ok(e)` / `Ok(())` as the tail of a validator
//!   expressions  integer literals, constants of the same file, locals, `req.<field>` of the request views,
//!                `== < <= > >= ! && ||`, `* /` on usize, `as usize` / `as u64` (widening only),
//!                `if/else` chains, `if let Some(ref x) = <option> {..} else {..}`, `match` on
//!                `&filter.filter_type` (None / Some(x)) and on a FilterType (all six variants, no wildcard),
//!                `.is_empty() .len() .iter().any(|v| !v.is_finite())`,
//!                `.iter().filter_map(|f| f.filter_type.as_ref()).map(<fn>)` followed by `.min().unwrap_or(n)`
//!                or `.sum::<usize>()`, `.min(a) .max(a) .clamp(a, b) .saturating_mul(a)`,
//!                `Some(e)`, `None`, the struct literal `SearchValidationPlan { search_k, ef_search_override }`,
//!                calls of the translated functions.
//!   The payload of `Err(..)` is dropped after a scan that refuses control flow inside it.
//! Arithmetic: usize `*` and `/` are emitted as N.mul / N.div; Rust panics on a zero divisor and (debug)
//! on overflow.  The sites are listed in the report and Proofs/RequestsProofs.v proves over the generated
//! text that every divisor is >= 1 and every product is < 2^64 (estimate_selectivity in [1, 50]).
use kvh_translator::{coq_comment, fail, find_fn, line_of, parse_file, src_of, write_if_changed, Res, TrError};
use serde_json::json;
use std::collections::BTreeMap;
use syn::{BinOp, Expr, Lit, Pat, Stmt, UnOp};

#[derive(Clone, Debug, PartialEq)]
enum Ty {
    Bool,
    Nat,
    Float,
    VecF,
    Bytes,
    NList,
    Filter,     // MetadataFilter
    FType,      // a MetadataFilter known to carry a FilterType (or the FilterType itself)
    OptFType,   // `<filter>.filter_type`
    OptFilter,  // Option<MetadataFilter> / Option<Box<MetadataFilter>>
    FilterList, // Vec<MetadataFilter>
    InMatch,
    AndF,
    OrF,
    NotF,
    IterF,
    IterFilter,
    IterFType,
    IterNat,
    OptNat,
    Plan,
    Unit,
    ReqInsert,
    ReqSearch,
}

#[derive(Clone, Debug)]
struct V {
    t: String,
    ty: Ty,
}
fn v(t: impl Into<String>, ty: Ty) -> V {
    V { t: t.into(), ty }
}

type Env = BTreeMap<String, V>;

#[derive(Clone, Copy, PartialEq)]
enum Kind {
    /// fn(..) -> Result<T, String>
    Validator,
    /// fn(..) -> usize
    Plain,
}

struct Tr {
    consts: BTreeMap<String, u128>,
    /// translated functions callable from expressions: name -> (param type, result type)
    fns: BTreeMap<String, (Ty, Ty)>,
    kind: Kind,
    err_sites: Vec<(usize, String)>,
    div_sites: Vec<(usize, String)>,
    mul_sites: Vec<(usize, String)>,
    plan_fields: Vec<String>,
}

fn arg(s: &str) -> String {
    if s.contains(' ') && !(s.starts_with('(') && s.ends_with(')')) {
        format!("({})", s)
    } else {
        s.to_string()
    }
}

fn scan_no_control_flow(e: &Expr) -> Res<()> {
    struct S(Option<TrError>);
    impl<'ast> syn::visit::Visit<'ast> for S {
        fn visit_expr(&mut self, e: &'ast Expr) {
            if self.0.is_some() {
                return;
            }
            let bad = match e {
                Expr::Return(_) => Some("`return` inside an error payload"),
                Expr::Try(_) => Some("`?` inside an error payload"),
                Expr::Closure(_) => Some("closure inside an error payload"),
                Expr::Loop(_) | Expr::While(_) | Expr::ForLoop(_) => Some("loop inside an error payload"),
                Expr::Assign(_) => Some("assignment inside an error payload"),
                Expr::Unsafe(_) | Expr::Async(_) | Expr::Await(_) => Some("unsafe/async inside an error payload"),
                Expr::Break(_) | Expr::Continue(_) => Some("break/continue inside an error payload"),
                Expr::Macro(m) => {
                    let n = m.mac.path.segments.last().map(|s| s.ident.to_string()).unwrap_or_default();
                    if n == "format" {
                        // arguments are scanned as expressions
                        if let Ok(args) = m.mac.parse_body_with(syn::punctuated::Punctuated::<Expr, syn::Token![,]>::parse_terminated) {
                            for a in args.iter() {
                                self.visit_expr(a);
                            }
                            None
                        } else {
                            Some("cannot parse format! arguments")
                        }
                    } else {
                        Some("macro other than format! inside an error payload")
                    }
                }
                _ => None,
            };
            if let Some(msg) = bad {
                self.0 = Some(TrError { line: line_of(e), construct: src_of(e), msg: msg.into() });
                return;
            }
            syn::visit::visit_expr(self, e);
        }
    }
    let mut s = S(None);
    syn::visit::Visit::visit_expr(&mut s, e);
    match s.0 {
        Some(e) => Err(e),
        None => Ok(()),
    }
}

fn call_name(e: &Expr) -> Option<String> {
    if let Expr::Call(c) = e {
        if let Expr::Path(p) = &*c.func {
            return p.path.segments.last().map(|s| s.ident.to_string());
        }
    }
    None
}

impl Tr {
    fn int_lit(e: &Expr) -> Option<u128> {
        if let Expr::Lit(l) = e {
            if let Lit::Int(i) = &l.lit {
                return i.base10_parse::<u128>().ok();
            }
        }
        None
    }

    fn field(&self, base: &V, name: &str, at: &Expr) -> Res<V> {
        let r = match (&base.ty, name) {
            (Ty::ReqInsert, "doc_id") => v(format!("ir_doc_id {}", base.t), Ty::Nat),
            (Ty::ReqInsert, "embedding") => v(format!("ir_embedding {}", base.t), Ty::VecF),
            (Ty::ReqSearch, "query_embedding") => v(format!("sr_query_embedding {}", base.t), Ty::VecF),
            (Ty::ReqSearch, "k") => v(format!("sr_k {}", base.t), Ty::Nat),
            (Ty::ReqSearch, "ef_search") => v(format!("sr_ef_search {}", base.t), Ty::Nat),
            (Ty::ReqSearch, "namespace") => v(format!("sr_namespace {}", base.t), Ty::Bytes),
            (Ty::ReqSearch, "filter") => v(format!("sr_filter {}", base.t), Ty::OptFilter),
            (Ty::Filter, "filter_type") | (Ty::FType, "filter_type") => v(base.t.clone(), Ty::OptFType),
            (Ty::InMatch, "values") => v(base.t.clone(), Ty::NList),
            (Ty::AndF, "filters") | (Ty::OrF, "filters") => v(base.t.clone(), Ty::FilterList),
            (Ty::NotF, "filter") => v(base.t.clone(), Ty::OptFilter),
            _ => return fail(at, &format!("field `{}` of a {:?} is not an input of the model", name, base.ty)),
        };
        Ok(r)
    }

    fn closure1<'a>(&self, e: &'a Expr) -> Res<(String, &'a Expr)> {
        match e {
            Expr::Closure(c) if c.inputs.len() == 1 && c.capture.is_none() && c.asyncness.is_none() => match &c.inputs[0] {
                Pat::Ident(id) if id.subpat.is_none() => Ok((id.ident.to_string(), &c.body)),
                other => fail(other, "closure parameter pattern"),
            },
            _ => fail(e, "expected a one-parameter closure"),
        }
    }

    fn nat(&self, x: V, at: &Expr) -> Res<String> {
        if x.ty == Ty::Nat {
            Ok(x.t)
        } else {
            fail(at, &format!("expected an unsigned integer, found {:?}", x.ty))
        }
    }
    fn boolean(&self, x: V, at: &Expr) -> Res<String> {
        if x.ty == Ty::Bool {
            Ok(x.t)
        } else {
            fail(at, &format!("expected a boolean, found {:?}", x.ty))
        }
    }

    /// `tail`: the value of this expression is the value of the function (so `return` is allowed inside).
    fn ex(&mut self, e: &Expr, env: &Env, tail: bool, ind: usize) -> Res<V> {
        let pad = " ".repeat(ind);
        match e {
            Expr::Paren(p) => self.ex(&p.expr, env, tail, ind),
            Expr::Group(g) => self.ex(&g.expr, env, tail, ind),
            Expr::Reference(r) => {
                if r.mutability.is_some() {
                    return fail(e, "mutable borrow");
                }
                self.ex(&r.expr, env, false, ind)
            }
            Expr::Lit(l) => match &l.lit {
                Lit::Int(i) => match i.base10_parse::<u128>() {
                    Ok(n) => Ok(v(format!("{}", n), Ty::Nat)),
                    Err(_) => fail(e, "integer literal"),
                },
                Lit::Bool(b) => Ok(v(if b.value { "true" } else { "false" }, Ty::Bool)),
                _ => fail(e, "literal kind outside the subset"),
            },
            Expr::Path(p) => {
                if p.qself.is_some() || p.path.segments.len() != 1 {
                    return fail(e, "qualified path in value position");
                }
                let id = p.path.segments[0].ident.to_string();
                if let Some(x) = env.get(&id) {
                    return Ok(x.clone());
                }
                if self.consts.contains_key(&id) {
                    return Ok(v(id, Ty::Nat));
                }
                if id == "None" {
                    return Ok(v("None", Ty::OptNat));
                }
                fail(e, "unknown identifier (not a local, not a constant of this file)")
            }
            Expr::Field(f) => {
                let base = self.ex(&f.base, env, false, ind)?;
                let name = match &f.member {
                    syn::Member::Named(id) => id.to_string(),
                    _ => return fail(e, "tuple field"),
                };
                self.field(&base, &name, e)
            }
            Expr::Unary(u) => match u.op {
                UnOp::Not(_) => {
                    let x = self.ex(&u.expr, env, false, ind)?;
                    let b = self.boolean(x, &u.expr)?;
                    Ok(v(format!("negb {}", arg(&b)), Ty::Bool))
                }
                UnOp::Deref(_) => self.ex(&u.expr, env, false, ind),
                _ => fail(e, "unary operator outside the subset"),
            },
            Expr::Cast(c) => {
                let x = self.ex(&c.expr, env, false, ind)?;
                let ty = src_of(&*c.ty);
                if x.ty == Ty::Nat && (ty == "usize" || ty == "u64") {
                    Ok(x) // widening on the 64-bit target (sources are u32 / usize fields)
                } else {
                    fail(e, "cast other than a widening `as usize` / `as u64` of an unsigned integer")
                }
            }
            Expr::Binary(b) => {
                let l = self.ex(&b.left, env, false, ind)?;
                let r = self.ex(&b.right, env, false, ind)?;
                match &b.op {
                    BinOp::And(_) | BinOp::Or(_) => {
                        let (x, y) = (self.boolean(l, &b.left)?, self.boolean(r, &b.right)?);
                        let op = if matches!(b.op, BinOp::And(_)) { "&&" } else { "||" };
                        Ok(v(format!("({} {} {})", arg(&x), op, arg(&y)), Ty::Bool))
                    }
                    BinOp::Eq(_) | BinOp::Ne(_) | BinOp::Lt(_) | BinOp::Le(_) | BinOp::Gt(_) | BinOp::Ge(_) => {
                        let (x, y) = (self.nat(l, &b.left)?, self.nat(r, &b.right)?);
                        let (x, y) = (arg(&x), arg(&y));
                        let t = match &b.op {
                            BinOp::Eq(_) => format!("({} =? {})", x, y),
                            BinOp::Ne(_) => format!("negb ({} =? {})", x, y),
                            BinOp::Lt(_) => format!("({} <? {})", x, y),
                            BinOp::Le(_) => format!("({} <=? {})", x, y),
                            BinOp::Gt(_) => format!("({} <? {})", y, x),
                            _ => format!("({} <=? {})", y, x),
                        };
                        Ok(v(t, Ty::Bool))
                    }
                    BinOp::Mul(_) => {
                        let (x, y) = (self.nat(l, &b.left)?, self.nat(r, &b.right)?);
                        self.mul_sites.push((line_of(e), src_of(e)));
                        Ok(v(format!("({} * {})", arg(&x), arg(&y)), Ty::Nat))
                    }
                    BinOp::Div(_) => {
                        let (x, y) = (self.nat(l, &b.left)?, self.nat(r, &b.right)?);
                        self.div_sites.push((line_of(e), src_of(e)));
                        Ok(v(format!("({} / {})", arg(&x), arg(&y)), Ty::Nat))
                    }
                    _ => fail(e, "binary operator outside the subset (`+ - %` on usize can overflow/underflow)"),
                }
            }
            Expr::If(ifx) => self.if_expr(ifx, env, tail, ind),
            Expr::Match(m) => self.match_expr(m, env, tail, ind),
            Expr::Block(b) if b.attrs.is_empty() && b.label.is_none() => self.block(&b.block.stmts, env.clone(), tail, ind),
            Expr::Struct(s) => {
                let name = s.path.segments.last().map(|x| x.ident.to_string()).unwrap_or_default();
                if name != "SearchValidationPlan" || s.rest.is_some() {
                    return fail(e, "struct literal other than SearchValidationPlan { .. }");
                }
                let mut vals: BTreeMap<String, V> = BTreeMap::new();
                for f in &s.fields {
                    let fname = match &f.member {
                        syn::Member::Named(id) => id.to_string(),
                        _ => return fail(e, "tuple struct field"),
                    };
                    vals.insert(fname, self.ex(&f.expr, env, false, ind)?);
                }
                if self.plan_fields != ["search_k", "ef_search_override"] || vals.len() != 2 {
                    return fail(e, "SearchValidationPlan no longer has exactly the fields search_k, ef_search_override");
                }
                let a = vals.get("search_k").cloned();
                let b = vals.get("ef_search_override").cloned();
                match (a, b) {
                    (Some(a), Some(b)) if a.ty == Ty::Nat && b.ty == Ty::OptNat => Ok(v(format!("mkPlan {} {}", arg(&a.t), arg(&b.t)), Ty::Plan)),
                    _ => fail(e, "SearchValidationPlan fields have unexpected types"),
                }
            }
            Expr::Tuple(t) if t.elems.is_empty() => Ok(v("tt", Ty::Unit)),
            Expr::Call(c) => {
                let name = match call_name(e) {
                    Some(n) => n,
                    None => return fail(e, "call of a computed function"),
                };
                if name == "Some" && c.args.len() == 1 {
                    let x = self.ex(&c.args[0], env, false, ind)?;
                    let t = self.nat(x, &c.args[0])?;
                    return Ok(v(format!("Some {}", arg(&t)), Ty::OptNat));
                }
                if let Some((pty, rty)) = self.fns.get(&name).cloned() {
                    if c.args.len() != 1 {
                        return fail(e, "translated function called with more than one argument");
                    }
                    let x = self.ex(&c.args[0], env, false, ind)?;
                    let ok = x.ty == pty || (pty == Ty::Filter && x.ty == Ty::FType);
                    if !ok {
                        return fail(e, &format!("argument of `{}` is a {:?}, expected {:?}", name, x.ty, pty));
                    }
                    return Ok(v(format!("{} {}", name, arg(&x.t)), rty));
                }
                fail(e, "call of a function that is not translated (add it to the target or inline it)")
            }
            Expr::MethodCall(m) => self.method(m, env, ind),
            Expr::Return(_) => fail(e, "`return` in expression position"),
            Expr::Try(_) => fail(e, "`?` operator"),
            Expr::Closure(_) => fail(e, "closure outside an iterator adaptor of the subset"),
            Expr::Macro(_) => fail(e, "macro in value position"),
            Expr::Loop(_) | Expr::While(_) | Expr::ForLoop(_) => fail(e, "loop"),
            Expr::Assign(_) => fail(e, "assignment"),
            Expr::Unsafe(_) => fail(e, "unsafe block"),
            _ => {
                let _ = pad;
                fail(e, "expression form outside the translator's subset")
            }
        }
    }

    fn method(&mut self, m: &syn::ExprMethodCall, env: &Env, ind: usize) -> Res<V> {
        let e = Expr::MethodCall(m.clone());
        let name = m.method.to_string();
        let recv = self.ex(&m.receiver, env, false, ind)?;
        let nargs = m.args.len();
        let turbofish = m.turbofish.as_ref().map(|t| src_of(t));
        match (name.as_str(), nargs, &recv.ty) {
            ("is_empty", 0, Ty::VecF | Ty::Bytes | Ty::NList | Ty::FilterList) => Ok(v(format!("is_nil {}", arg(&recv.t)), Ty::Bool)),
            ("len", 0, Ty::VecF | Ty::Bytes | Ty::NList | Ty::FilterList) => Ok(v(format!("len {}", arg(&recv.t)), Ty::Nat)),
            ("iter", 0, Ty::VecF) => Ok(v(recv.t, Ty::IterF)),
            ("iter", 0, Ty::FilterList) => Ok(v(recv.t, Ty::IterFilter)),
            ("any", 1, Ty::IterF) => {
                let (p, body) = self.closure1(&m.args[0])?;
                let mut env2 = env.clone();
                env2.insert(p.clone(), v(p.clone(), Ty::Float));
                let b = self.ex(body, &env2, false, ind)?;
                let b = self.boolean(b, body)?;
                Ok(v(format!("existsb (fun {} => {}) {}", p, b, arg(&recv.t)), Ty::Bool))
            }
            ("is_finite", 0, Ty::Float) => Ok(v(format!("fc_is_finite {}", arg(&recv.t)), Ty::Bool)),
            ("filter_map", 1, Ty::IterFilter) => {
                let (p, body) = self.closure1(&m.args[0])?;
                let mut env2 = env.clone();
                env2.insert(p.clone(), v(p.clone(), Ty::Filter));
                let b = self.ex(body, &env2, false, ind)?;
                if b.ty == Ty::OptFType && b.t == p {
                    Ok(v(recv.t, Ty::IterFType))
                } else {
                    fail(&m.args[0], "filter_map closure other than |f| f.filter_type.as_ref()")
                }
            }
            ("as_ref", 0, Ty::OptFType) => Ok(recv),
            ("map", 1, Ty::IterFType) => {
                let g = match &m.args[0] {
                    Expr::Path(p) if p.path.segments.len() == 1 => {
                        let f = p.path.segments[0].ident.to_string();
                        match self.fns.get(&f) {
                            Some((Ty::FType, Ty::Nat)) => format!("(fun g => {} g)", f),
                            _ => return fail(&m.args[0], "mapped function is not a translated FilterType -> usize function"),
                        }
                    }
                    c @ Expr::Closure(_) => {
                        let (p, body) = self.closure1(c)?;
                        let mut env2 = env.clone();
                        env2.insert(p.clone(), v(p.clone(), Ty::FType));
                        let b = self.ex(body, &env2, false, ind)?;
                        let t = self.nat(b, body)?;
                        format!("(fun {} => {})", p, t)
                    }
                    other => return fail(other, "argument of map"),
                };
                Ok(v(format!("sel_map {} {}", g, arg(&recv.t)), Ty::IterNat))
            }
            ("min", 0, Ty::IterNat) => Ok(v(format!("list_min {}", arg(&recv.t)), Ty::OptNat)),
            ("sum", 0, Ty::IterNat) => {
                if turbofish.as_deref().map(|t| t.contains("usize")) != Some(true) {
                    return fail(&e, "sum without ::<usize>");
                }
                Ok(v(format!("list_sum {}", arg(&recv.t)), Ty::Nat))
            }
            ("unwrap_or", 1, Ty::OptNat) => {
                let d = self.ex(&m.args[0], env, false, ind)?;
                let d = self.nat(d, &m.args[0])?;
                Ok(v(format!("opt_default {} {}", arg(&recv.t), arg(&d)), Ty::Nat))
            }
            ("min", 1, Ty::Nat) | ("max", 1, Ty::Nat) | ("saturating_mul", 1, Ty::Nat) => {
                let a = self.ex(&m.args[0], env, false, ind)?;
                let a = self.nat(a, &m.args[0])?;
                let f = match name.as_str() {
                    "min" => "N.min",
                    "max" => "N.max",
                    _ => "sat_mul",
                };
                Ok(v(format!("{} {} {}", f, arg(&recv.t), arg(&a)), Ty::Nat))
            }
            ("clamp", 2, Ty::Nat) => {
                let (lo, hi) = (Self::int_lit(&m.args[0]), Self::int_lit(&m.args[1]));
                match (lo, hi) {
                    (Some(lo), Some(hi)) if lo <= hi => Ok(v(format!("clampN {} {} {}", arg(&recv.t), lo, hi), Ty::Nat)),
                    _ => fail(&e, "clamp bounds must be literals with lo <= hi (clamp panics otherwise)"),
                }
            }
            _ => fail(&e, &format!("method `{}` on a {:?} is outside the translator's subset", name, recv.ty)),
        }
    }

    fn if_expr(&mut self, ifx: &syn::ExprIf, env: &Env, tail: bool, ind: usize) -> Res<V> {
        let pad = " ".repeat(ind);
        let els = match &ifx.else_branch {
            Some((_, e)) => &**e,
            None => return fail(ifx, "`if` without `else` in value position"),
        };
        // if let Some(ref x) = <option>
        if let Expr::Let(l) = &*ifx.cond {
            let binder = match &*l.pat {
                Pat::TupleStruct(ts) if ts.path.is_ident("Some") && ts.elems.len() == 1 => match &ts.elems[0] {
                    Pat::Ident(id) if id.subpat.is_none() => id.ident.to_string(),
                    other => return fail(other, "`if let Some(<pattern>)` with a nested pattern"),
                },
                other => return fail(other, "`if let` with a pattern other than Some(x)"),
            };
            let scrut = self.ex(&l.expr, env, false, ind)?;
            let mut env2 = env.clone();
            return match scrut.ty {
                Ty::OptFilter => {
                    env2.insert(binder.clone(), v(binder.clone(), Ty::Filter));
                    let a = self.block(&ifx.then_branch.stmts, env2, tail, ind + 4)?;
                    let b = self.ex(els, env, tail, ind + 4)?;
                    if a.ty != b.ty {
                        return fail(ifx, "branches of different types");
                    }
                    Ok(v(format!("match {} with\n{}| Some {} => {}\n{}| None => {}\n{}end", scrut.t, pad, binder, a.t, pad, b.t, pad), a.ty))
                }
                Ty::OptFType => {
                    env2.insert(binder, v(scrut.t.clone(), Ty::FType));
                    let a = self.block(&ifx.then_branch.stmts, env2, tail, ind + 4)?;
                    let b = self.ex(els, env, tail, ind + 4)?;
                    if a.ty != b.ty {
                        return fail(ifx, "branches of different types");
                    }
                    Ok(v(format!("(if has_type {}\n{} then {}\n{} else {})", arg(&scrut.t), pad, a.t, pad, b.t), a.ty))
                }
                other => fail(&*l.expr, &format!("`if let Some(..)` on a {:?}", other)),
            };
        }
        let c = self.ex(&ifx.cond, env, false, ind)?;
        let c = self.boolean(c, &ifx.cond)?;
        let a = self.block(&ifx.then_branch.stmts, env.clone(), tail, ind + 4)?;
        let b = self.ex(els, env, tail, ind + 4)?;
        if a.ty != b.ty {
            return fail(ifx, "branches of different types");
        }
        Ok(v(format!("(if {}\n{} then {}\n{} else {})", c, pad, a.t, pad, b.t), a.ty))
    }

    fn match_expr(&mut self, m: &syn::ExprMatch, env: &Env, tail: bool, ind: usize) -> Res<V> {
        let pad = " ".repeat(ind);
        let scrut = self.ex(&m.expr, env, false, ind)?;
        for a in &m.arms {
            if a.guard.is_some() {
                return fail(a, "match arm with a guard");
            }
        }
        match scrut.ty {
            Ty::OptFType => {
                let (mut none_b, mut some_b) = (None, None);
                for a in &m.arms {
                    match &a.pat {
                        Pat::Ident(id) if id.ident == "None" => none_b = Some(self.ex(&a.body, env, tail, ind + 4)?),
                        Pat::Path(p) if p.path.is_ident("None") => none_b = Some(self.ex(&a.body, env, tail, ind + 4)?),
                        Pat::TupleStruct(ts) if ts.path.is_ident("Some") && ts.elems.len() == 1 => {
                            let mut env2 = env.clone();
                            match &ts.elems[0] {
                                Pat::Ident(id) if id.subpat.is_none() => {
                                    env2.insert(id.ident.to_string(), v(scrut.t.clone(), Ty::FType));
                                }
                                Pat::Wild(_) => {}
                                other => return fail(other, "nested pattern under Some(..)"),
                            }
                            some_b = Some(self.ex(&a.body, &env2, tail, ind + 4)?);
                        }
                        other => return fail(other, "arm of a match on `filter_type` other than None / Some(x)"),
                    }
                }
                match (none_b, some_b) {
                    (Some(n), Some(s)) if n.ty == s.ty && m.arms.len() == 2 => {
                        Ok(v(format!("(if has_type {}\n{} then {}\n{} else {})", arg(&scrut.t), pad, s.t, pad, n.t), s.ty))
                    }
                    _ => fail(m, "match on `filter_type` must have exactly the arms None and Some(x), of one type"),
                }
            }
            Ty::FType => {
                // FilterType::{Exact, Range, InMatch, AndFilter, OrFilter, NotFilter}
                let mut arms: BTreeMap<&'static str, String> = BTreeMap::new();
                let mut rty: Option<Ty> = None;
                for a in &m.arms {
                    let ts = match &a.pat {
                        Pat::TupleStruct(ts) if ts.elems.len() == 1 => ts,
                        other => return fail(other, "arm of a match on a FilterType must be `FilterType::Variant(binder)`"),
                    };
                    let n = ts.path.segments.len();
                    if n < 2 || ts.path.segments[n - 2].ident != "FilterType" {
                        return fail(&a.pat, "pattern is not a FilterType variant");
                    }
                    let var = ts.path.segments[n - 1].ident.to_string();
                    let binder = match &ts.elems[0] {
                        Pat::Ident(id) if id.subpat.is_none() => Some(id.ident.to_string()),
                        Pat::Wild(_) => None,
                        other => return fail(other, "nested pattern inside a FilterType variant"),
                    };
                    let (key, coq_pat, bty): (&'static str, String, Option<Ty>) = match var.as_str() {
                        "Exact" => ("Exact", "PExact _ _".into(), None),
                        "Range" => ("Range", "PRange _ _".into(), None),
                        "InMatch" => ("InMatch", format!("PIn _ {}", binder.clone().unwrap_or("_".into())), Some(Ty::InMatch)),
                        "AndFilter" => ("AndFilter", format!("PAnd {}", binder.clone().unwrap_or("_".into())), Some(Ty::AndF)),
                        "OrFilter" => ("OrFilter", format!("POr {}", binder.clone().unwrap_or("_".into())), Some(Ty::OrF)),
                        "NotFilter" => ("NotFilter", format!("PNot {}", binder.clone().unwrap_or("_".into())), Some(Ty::NotF)),
                        _ => return fail(&a.pat, "unknown FilterType variant (the proto changed: extend Model/ReqBase.v pfilter)"),
                    };
                    let mut env2 = env.clone();
                    match (&binder, bty) {
                        (Some(b), Some(t)) => {
                            env2.insert(b.clone(), v(b.clone(), t));
                        }
                        (Some(_), None) => return fail(&a.pat, "binder of a leaf variant (Exact / Range) is not an input of the model: use `_`"),
                        _ => {}
                    }
                    let body = self.ex(&a.body, &env2, tail, ind + 4)?;
                    if let Some(t) = &rty {
                        if *t != body.ty {
                            return fail(a, "arms of different types");
                        }
                    }
                    rty = Some(body.ty.clone());
                    if arms.insert(key, format!("{}| {} => {}", pad, coq_pat, body.t)).is_some() {
                        return fail(&a.pat, "variant matched twice");
                    }
                }
                let order = ["Exact", "Range", "InMatch", "AndFilter", "OrFilter", "NotFilter"];
                if arms.len() != 6 {
                    return fail(m, "match on a FilterType must list all six variants explicitly (no wildcard)");
                }
                let rty = rty.unwrap();
                let dflt = if rty == Ty::Nat { "0" } else { return fail(m, "match on a FilterType of a non-integer type") };
                let mut s = format!("match {} with\n{}| PNone => {} (* not a FilterType: callers pass only filters with has_type *)\n", scrut.t, pad, dflt);
                for k in order {
                    s.push_str(&arms[k]);
                    s.push('\n');
                }
                s.push_str(&format!("{}end", pad));
                Ok(v(s, rty))
            }
            other => fail(&*m.expr, &format!("match on a {:?}", other)),
        }
    }

    fn is_ok_call<'a>(e: &'a Expr) -> Option<&'a Expr> {
        if let Expr::Call(c) = e {
            if let Expr::Path(p) = &*c.func {
                if p.path.is_ident("Ok") && c.args.len() == 1 {
                    return Some(&c.args[0]);
                }
            }
        }
        None
    }
    fn is_err_call<'a>(e: &'a Expr) -> Option<&'a Expr> {
        if let Expr::Call(c) = e {
            if let Expr::Path(p) = &*c.func {
                if p.path.is_ident("Err") && c.args.len() == 1 {
                    return Some(&c.args[0]);
                }
            }
        }
        None
    }

    /// A block in value position: `let`s, guard statements (`if c { return .. }`), then a tail expression.
    fn block(&mut self, stmts: &[Stmt], mut env: Env, tail: bool, ind: usize) -> Res<V> {
        let pad = " ".repeat(ind);
        if stmts.is_empty() {
            return Err(TrError { line: 0, construct: "{}".into(), msg: "empty block in value position".into() });
        }
        let (first, rest) = (&stmts[0], &stmts[1..]);
        match first {
            Stmt::Local(l) => {
                let name = match &l.pat {
                    Pat::Ident(id) if id.by_ref.is_none() && id.subpat.is_none() && id.mutability.is_none() => id.ident.to_string(),
                    Pat::Type(pt) => match &*pt.pat {
                        Pat::Ident(id) if id.by_ref.is_none() && id.subpat.is_none() && id.mutability.is_none() => id.ident.to_string(),
                        _ => return fail(&l.pat, "`let` with a destructuring / mutable pattern"),
                    },
                    _ => return fail(&l.pat, "`let` with a destructuring / mutable pattern"),
                };
                let init = match &l.init {
                    Some(i) if i.diverge.is_none() => &i.expr,
                    _ => return fail(l, "`let` without initialiser or with `else`"),
                };
                let x = self.ex(init, &env, false, ind + 4)?;
                if rest.is_empty() {
                    return fail(l, "block ends in a `let`");
                }
                env.insert(name.clone(), v(name.clone(), x.ty.clone()));
                let r = self.block(rest, env, tail, ind)?;
                Ok(v(format!("let {} := {} in\n{}{}", name, x.t, pad, r.t), r.ty))
            }
            Stmt::Expr(Expr::If(ifx), _) if !rest.is_empty() => {
                // guard statement: `if c { return X; }`
                if ifx.else_branch.is_some() {
                    return fail(ifx, "`if .. else` as a statement (only `if c { return ..; }` guards are statements)");
                }
                if !tail {
                    return fail(ifx, "early `return` outside tail position");
                }
                if matches!(&*ifx.cond, Expr::Let(_)) {
                    return fail(ifx, "`if let` guard statement");
                }
                let c = self.ex(&ifx.cond, &env, false, ind)?;
                let c = self.boolean(c, &ifx.cond)?;
                let body = &ifx.then_branch.stmts;
                let ret = match body.as_slice() {
                    [Stmt::Expr(Expr::Return(r), _)] => r,
                    _ => return fail(&ifx.then_branch, "guard body must be exactly one `return`"),
                };
                let rv = match &ret.expr {
                    Some(x) => &**x,
                    None => return fail(ret, "`return` without a value"),
                };
                let a = self.ret_value(rv, &env, ind + 4)?;
                let r = self.block(rest, env, tail, ind)?;
                if !Self::compatible(&a.ty, &r.ty) {
                    return fail(ifx, "returned value and the rest of the block have different types");
                }
                Ok(v(format!("if {} then {} else\n{}{}", c, a.t, pad, r.t), r.ty))
            }
            Stmt::Expr(e, semi) if rest.is_empty() => {
                if semi.is_some() {
                    if let Expr::Return(r) = e {
                        if !tail {
                            return fail(e, "`return` outside tail position");
                        }
                        return match &r.expr {
                            Some(x) => self.ret_value(x, &env, ind),
                            None => fail(e, "`return` without a value"),
                        };
                    }
                    return fail(e, "block ends in a statement, not a value");
                }
                if tail {
                    self.ret_value(e, &env, ind)
                } else {
                    self.ex(e, &env, false, ind)
                }
            }
            Stmt::Expr(e, _) => fail(e, "statement form outside the translator's subset"),
            Stmt::Macro(m) => fail(m, "statement macro"),
            Stmt::Item(i) => fail(i, "nested item"),
        }
    }

    fn compatible(a: &Ty, b: &Ty) -> bool {
        a == b
    }

    /// value in tail position: for a validator `Ok(e)` / `Err(..)`, otherwise an expression (which may
    /// itself contain tail blocks)
    fn ret_value(&mut self, e: &Expr, env: &Env, ind: usize) -> Res<V> {
        if self.kind == Kind::Validator {
            if let Some(payload) = Self::is_err_call(e) {
                scan_no_control_flow(payload)?;
                let site = self.err_sites.len() + 1;
                self.err_sites.push((line_of(e), src_of(payload)));
                return Ok(v(format!("VErr {}", site), Ty::Unit)); // type fixed up by the caller
            }
            if let Some(x) = Self::is_ok_call(e) {
                let val = self.ex(x, env, false, ind)?;
                return Ok(v(format!("VOk {}", arg(&val.t)), Ty::Unit));
            }
            return match e {
                Expr::If(_) | Expr::Match(_) | Expr::Block(_) => self.ex(e, env, true, ind),
                _ => fail(e, "a validator must end in Ok(..) / Err(..)"),
            };
        }
        self.ex(e, env, true, ind)
    }
}

struct FnOut {
    name: String,
    text: String,
    line: usize,
}

fn translate_fn(tr: &mut Tr, file: &syn::File, path: &str, name: &str, kind: Kind, param_ty: Ty, coq_param_ty: &str, coq_ret: &str, recursive: bool) -> Res<FnOut> {
    let f = match find_fn(file, name) {
        Some(f) => f,
        None => return Err(TrError { line: 0, construct: name.into(), msg: format!("function `{}` not found in {}", name, path) }),
    };
    if f.sig.inputs.len() != 1 || f.sig.asyncness.is_some() || f.sig.unsafety.is_some() {
        return fail(&f.sig, "signature: exactly one parameter, not async/unsafe");
    }
    let pname = match &f.sig.inputs[0] {
        syn::FnArg::Typed(pt) => match &*pt.pat {
            Pat::Ident(id) if id.subpat.is_none() && id.mutability.is_none() => id.ident.to_string(),
            other => return fail(other, "parameter pattern"),
        },
        other => return fail(other, "self parameter"),
    };
    tr.kind = kind;
    let mut env = Env::new();
    env.insert(pname.clone(), v(pname.clone(), param_ty));
    let body = tr.block(&f.block.stmts, env, true, 2)?;
    if kind == Kind::Plain && body.ty != Ty::Nat {
        return fail(&f.sig, "function does not evaluate to an unsigned integer");
    }
    let head = if recursive { "Fixpoint" } else { "Definition" };
    let text = format!(
        "(* {} lines {}-{}: fn {} *)\n{} {} ({} : {}) : {} :=\n  {}.\n",
        path,
        line_of(&f.sig),
        f.block.brace_token.span.close().start().line,
        name,
        head,
        name,
        pname,
        coq_param_ty,
        coq_ret,
        body.t
    );
    Ok(FnOut { name: name.into(), text, line: line_of(&f.sig) })
}

fn consts_of(file: &syn::File) -> BTreeMap<String, u128> {
    let mut m = BTreeMap::new();
    for it in &file.items {
        if let syn::Item::Const(c) = it {
            if let Expr::Lit(l) = &*c.expr {
                if let Lit::Int(i) = &l.lit {
                    if let Ok(n) = i.base10_parse::<u128>() {
                        m.insert(c.ident.to_string(), n);
                    }
                }
            }
        }
    }
    m
}

fn run(repo: &str) -> Result<(String, serde_json::Value), serde_json::Value> {
    let p_val = format!("{}/engine/src/api_validation.rs", repo);
    let p_ovs = format!("{}/engine/src/adaptive_oversampling.rs", repo);
    let io = |e: String| json!({"ok": false, "stage": "parse", "error": e});
    let f_val = parse_file(&p_val).map_err(io)?;
    let f_ovs = parse_file(&p_ovs).map_err(io)?;
    let consts = consts_of(&f_val);
    let plan_fields: Vec<String> = f_val
        .items
        .iter()
        .find_map(|it| match it {
            syn::Item::Struct(s) if s.ident == "SearchValidationPlan" => Some(s.fields.iter().filter_map(|f| f.ident.as_ref().map(|i| i.to_string())).collect()),
            _ => None,
        })
        .unwrap_or_default();
    let mut tr = Tr { consts: consts.clone(), fns: BTreeMap::new(), kind: Kind::Plain, err_sites: vec![], div_sites: vec![], mul_sites: vec![], plan_fields };
    let failj = |target: &str, e: TrError| {
        json!({"ok": false, "stage": "translate", "function": target, "line": e.line, "construct": e.construct, "message": e.msg})
    };
    let mut out = String::new();
    out.push_str("(* GENERATED by harness/p/xl15 from /repo on every run — do not edit.\n   Sources: engine/src/api_validation.rs (validate_insert_request, validate_search_request, constants),\n            engine/src/adaptive_oversampling.rs (calculate_oversampling_factor, estimate_selectivity).\n   Vocabulary: Model/ReqBase.v.  `VErr n` = the n-th `return Err(..)` of the function, in source order. *)\n");
    out.push_str("From Coq Require Import List NArith Bool.\nFrom Kyro Require Import Model.ReqBase.\nImport ListNotations.\nOpen Scope N_scope.\n\n");
    for (k, n) in &consts {
        out.push_str(&format!("Definition {} : N := {}.\n", k, n));
    }
    out.push('\n');
    let mut report_fns = vec![];
    // adaptive_oversampling.rs
    tr.fns.insert("estimate_selectivity".into(), (Ty::FType, Ty::Nat));
    let f1 = translate_fn(&mut tr, &f_ovs, "engine/src/adaptive_oversampling.rs", "estimate_selectivity", Kind::Plain, Ty::FType, "pfilter", "N", true).map_err(|e| failj("estimate_selectivity", e))?;
    tr.fns.insert("calculate_oversampling_factor".into(), (Ty::Filter, Ty::Nat));
    let f2 = translate_fn(&mut tr, &f_ovs, "engine/src/adaptive_oversampling.rs", "calculate_oversampling_factor", Kind::Plain, Ty::Filter, "pfilter", "N", false).map_err(|e| failj("calculate_oversampling_factor", e))?;
    let ovs_div = tr.div_sites.clone();
    let ovs_mul = tr.mul_sites.clone();
    // api_validation.rs
    tr.err_sites.clear();
    let f3 = translate_fn(&mut tr, &f_val, "engine/src/api_validation.rs", "validate_insert_request", Kind::Validator, Ty::ReqInsert, "insert_req", "vresult unit", false).map_err(|e| failj("validate_insert_request", e))?;
    let ins_sites = std::mem::take(&mut tr.err_sites);
    let f4 = translate_fn(&mut tr, &f_val, "engine/src/api_validation.rs", "validate_search_request", Kind::Validator, Ty::ReqSearch, "search_req", "vresult plan", false).map_err(|e| failj("validate_search_request", e))?;
    let sea_sites = std::mem::take(&mut tr.err_sites);
    if tr.div_sites.len() != ovs_div.len() || tr.mul_sites.len() != ovs_mul.len() {
        return Err(json!({"ok": false, "stage": "translate", "function": "validate_*", "line": 0, "construct": "* or /", "message": "unchecked usize arithmetic inside a validator (only saturating_mul/min are expected there)"}));
    }
    for f in [&f1, &f2, &f3, &f4] {
        out.push_str(&f.text);
        out.push('\n');
        report_fns.push(json!({"name": f.name, "line": f.line}));
    }
    let sites = |v: &[(usize, String)]| v.iter().map(|(l, s)| json!({"line": l, "src": coq_comment(s)})).collect::<Vec<_>>();
    out.push_str(&format!(
        "(* refusal sites: validate_insert_request {} | validate_search_request {} *)\nDefinition insert_refusal_sites : N := {}.\nDefinition search_refusal_sites : N := {}.\n",
        ins_sites.iter().map(|(l, _)| format!("L{}", l)).collect::<Vec<_>>().join(" "),
        sea_sites.iter().map(|(l, _)| format!("L{}", l)).collect::<Vec<_>>().join(" "),
        ins_sites.len(),
        sea_sites.len()
    ));
    let report = json!({
        "ok": true, "functions": report_fns, "constants": consts.iter().map(|(k, n)| json!({"name": k, "value": n.to_string()})).collect::<Vec<_>>(),
        "insert_refusal_sites": sites(&ins_sites), "search_refusal_sites": sites(&sea_sites),
        "division_sites": sites(&ovs_div), "multiplication_sites": sites(&ovs_mul),
    });
    Ok((out, report))
}

fn main() {
    let args: Vec<String> = std::env::args().collect();
    let mut repo = String::from("/repo");
    let mut out = String::from("/verif/coq/gen");
    let mut report_dir = String::from("/verif/.cache/gen");
    let mut i = 1;
    while i < args.len() {
        match args[i].as_str() {
            "--repo" => {
                repo = args[i + 1].clone();
                i += 1
            }
            "--out" => {
                out = args[i + 1].clone();
                i += 1
            }
            "--report-dir" => {
                report_dir = args[i + 1].clone();
                i += 1
            }
            other => {
                eprintln!("xl15: unknown option {}", other);
                std::process::exit(1)
            }
        }
        i += 1;
    }
    let _ = std::fs::create_dir_all(&report_dir);
    let report_path = format!("{}/Validators_gen.json", report_dir);
    match run(&repo) {
        Ok((coq, report)) => {
            let changed = match write_if_changed(&format!("{}/Validators_gen.v", out), &coq) {
                Ok(c) => c,
                Err(e) => {
                    eprintln!("xl15: cannot write Validators_gen.v: {}", e);
                    std::process::exit(1)
                }
            };
            let _ = std::fs::write(&report_path, serde_json::to_string_pretty(&report).unwrap());
            println!(
                "xl15: validators ok: {} + {} refusal sites, {} division / {} multiplication sites, Validators_gen.v {}",
                report["insert_refusal_sites"].as_array().map_or(0, |a| a.len()),
                report["search_refusal_sites"].as_array().map_or(0, |a| a.len()),
                report["division_sites"].as_array().map_or(0, |a| a.len()),
                report["multiplication_sites"].as_array().map_or(0, |a| a.len()),
                if changed { "rewritten" } else { "unchanged" }
            );
        }
        Err(v) => {
            let _ = std::fs::write(&report_path, serde_json::to_string_pretty(&v).unwrap());
            eprintln!(
                "xl15: FAILED CLOSED in {} at line {}: {} — construct: {}",
                v["function"].as_str().unwrap_or("?"),
                v["line"],
                v["message"].as_str().or(v["error"].as_str()).unwrap_or("?"),
                v["construct"].as_str().unwrap_or("")
            );
            std::process::exit(2);
        }
    }
}
