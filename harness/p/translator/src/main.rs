//! translator <target|all> [--repo /repo] [--out /verif/coq/gen] [--report-dir /verif/.cache/gen]
//! Targets: config (KyroDbConfig::validate -> Config_gen.v), search_k (hnsw_backend::compute_search_k -> SearchK_gen.v),
//! token_bucket (rate_limiter::TokenBucket -> Bucket_gen.v), tenant_id_mapper (kyrodb_server TenantIdMapper -> TenantId_gen.v),
//! ordered_f64 (hnsw_backend::OrderedF64::from_f64 -> OrderedF64_gen.v).  Exit status: 0 ok, 2 fail-closed, 1 usage/io.
use kvh_translator::{target_config, target_ordered_f64, target_search_k, target_tenant_id, target_token_bucket, write_if_changed};

/// shared tail of the simple targets: write <stem>.v (if changed) and <stem>.json; returns the exit status
fn emit(target: &str, stem: &str, out: &str, report_dir: &str, res: Result<(String, serde_json::Value), serde_json::Value>) -> i32 {
    let report_path = format!("{}/{}.json", report_dir, stem);
    match res {
        Ok((coq, report)) => {
            let changed = match write_if_changed(&format!("{}/{}.v", out, stem), &coq) {
                Ok(c) => c,
                Err(e) => { eprintln!("translator: cannot write {}.v: {}", stem, e); std::process::exit(1) }
            };
            let _ = std::fs::write(&report_path, serde_json::to_string_pretty(&report).unwrap());
            let n = report["functions"].as_array().map_or(0, |a| a.len());
            println!("translator: {} ok: {} function(s), {}.v {}", target, n, stem, if changed { "rewritten" } else { "unchanged" });
            0
        }
        Err(v) => {
            let _ = std::fs::write(&report_path, serde_json::to_string_pretty(&v).unwrap());
            eprintln!(
                "translator: FAIL-CLOSED target={} stage={} {}:{}: construct `{}`: {}",
                target, v["stage"].as_str().unwrap_or("?"), v["file"].as_str().unwrap_or("?"), v["line"],
                v["construct"].as_str().unwrap_or("?"), v["message"].as_str().unwrap_or("?")
            );
            2
        }
    }
}

fn main() {
    let args: Vec<String> = std::env::args().collect();
    let mut target = String::from("all");
    let mut repo = String::from("/repo");
    let mut out = String::from("/verif/coq/gen");
    let mut report_dir = String::from("/verif/.cache/gen");
    let mut i = 1;
    while i < args.len() {
        match args[i].as_str() {
            "--repo" => { repo = args[i + 1].clone(); i += 1 }
            "--out" => { out = args[i + 1].clone(); i += 1 }
            "--report-dir" => { report_dir = args[i + 1].clone(); i += 1 }
            t if !t.starts_with("--") => target = t.to_string(),
            other => { eprintln!("translator: unknown option {}", other); std::process::exit(1) }
        }
        i += 1;
    }
    let _ = std::fs::create_dir_all(&report_dir);
    let mut rc = 0;
    let targets: Vec<&str> = if target == "all" { vec!["config", "search_k", "token_bucket", "tenant_id_mapper", "ordered_f64"] } else { vec![target.as_str()] };
    for t in targets {
        match t {
            "config" => {
                let report_path = format!("{}/Config_gen.json", report_dir);
                match target_config::run(&repo) {
                    Ok(o) => {
                        let changed = match write_if_changed(&format!("{}/Config_gen.v", out), &o.coq) {
                            Ok(c) => c,
                            Err(e) => { eprintln!("translator: cannot write Config_gen.v: {}", e); std::process::exit(1) }
                        };
                        let _ = std::fs::write(&report_path, serde_json::to_string_pretty(&o.report).unwrap());
                        println!(
                            "translator: config ok: {} guards ({} safety-relevant), {} opaque booleans, Config_gen.v {}",
                            o.report["guards_total"], o.report["guards_safety"],
                            o.report["opaque_fields"].as_array().map_or(0, |a| a.len()),
                            if changed { "rewritten" } else { "unchanged" }
                        );
                    }
                    Err(v) => {
                        let _ = std::fs::write(&report_path, serde_json::to_string_pretty(&v).unwrap());
                        eprintln!("{}", target_config::fail_text(&v));
                        rc = 2;
                    }
                }
            }
            "search_k" => {
                let report_path = format!("{}/SearchK_gen.json", report_dir);
                match target_search_k::run(&repo) {
                    Ok(o) => {
                        let changed = match write_if_changed(&format!("{}/SearchK_gen.v", out), &o.coq) {
                            Ok(c) => c,
                            Err(e) => { eprintln!("translator: cannot write SearchK_gen.v: {}", e); std::process::exit(1) }
                        };
                        let _ = std::fs::write(&report_path, serde_json::to_string_pretty(&o.report).unwrap());
                        println!(
                            "translator: search_k ok: compute_search_k at line {}, float site at line {}, SearchK_gen.v {}",
                            o.report["fn_line"], o.report["float_site_line"],
                            if changed { "rewritten" } else { "unchanged" }
                        );
                    }
                    Err(v) => {
                        let _ = std::fs::write(&report_path, serde_json::to_string_pretty(&v).unwrap());
                        eprintln!("{}", target_search_k::fail_text(&v));
                        rc = 2;
                    }
                }
            }
            "token_bucket" => {
                rc = rc.max(emit(t, "Bucket_gen", &out, &report_dir, target_token_bucket::run(&repo).map(|o| (o.coq, o.report))));
            }
            "tenant_id_mapper" => {
                rc = rc.max(emit(t, "TenantId_gen", &out, &report_dir, target_tenant_id::run(&repo).map(|o| (o.coq, o.report))));
            }
            "ordered_f64" => {
                rc = rc.max(emit(t, "OrderedF64_gen", &out, &report_dir, target_ordered_f64::run(&repo).map(|o| (o.coq, o.report))));
            }
            other => { eprintln!("translator: unknown target {}", other); std::process::exit(1) }
        }
    }
    std::process::exit(rc);
}
