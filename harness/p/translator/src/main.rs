//! translator <target|all> [--repo /repo] [--out /verif/coq/gen] [--report-dir /verif/.cache/gen]
//! Targets: config (KyroDbConfig::validate -> Config_gen.v), search_k (hnsw_backend::compute_search_k -> SearchK_gen.v).  Exit status: 0 ok, 2 fail-closed, 1 usage/io.
use kvh_translator::{target_config, target_search_k, write_if_changed};

fn main() {
    let args: Vec<String> = std::env::args().collect();
    let mut target = String::from("all");
    let mut repo = String::from("/repo");
    let mut out = String::from("/verif/coq/gen");
    let mut report_dir = String::from("/verif/.cache/gen");
    let mut i = 1;
    while i < args.len() {
        match args[i].as_str() {
            "--repo" => { repo = args[i + 1].clone(); i += 1 }
            "--out" => { out = args[i + 1].clone(); i += 1 }
            "--report-dir" => { report_dir = args[i + 1].clone(); i += 1 }
            t if !t.starts_with("--") => target = t.to_string(),
            other => { eprintln!("translator: unknown option {}", other); std::process::exit(1) }
        }
        i += 1;
    }
    let _ = std::fs::create_dir_all(&report_dir);
    let mut rc = 0;
    let targets: Vec<&str> = if target == "all" { vec!["config", "search_k"] } else { vec![target.as_str()] };
    for t in targets {
        match t {
            "config" => {
                let report_path = format!("{}/Config_gen.json", report_dir);
                match target_config::run(&repo) {
                    Ok(o) => {
                        let changed = match write_if_changed(&format!("{}/Config_gen.v", out), &o.coq) {
                            Ok(c) => c,
                            Err(e) => { eprintln!("translator: cannot write Config_gen.v: {}", e); std::process::exit(1) }
                        };
                        let _ = std::fs::write(&report_path, serde_json::to_string_pretty(&o.report).unwrap());
                        println!(
                            "translator: config ok: {} guards ({} safety-relevant), {} opaque booleans, Config_gen.v {}",
                            o.report["guards_total"], o.report["guards_safety"],
                            o.report["opaque_fields"].as_array().map_or(0, |a| a.len()),
                            if changed { "rewritten" } else { "unchanged" }
                        );
                    }
                    Err(v) => {
                        let _ = std::fs::write(&report_path, serde_json::to_string_pretty(&v).unwrap());
                        eprintln!("{}", target_config::fail_text(&v));
                        rc = 2;
                    }
                }
            }
            "search_k" => {
                let report_path = format!("{}/SearchK_gen.json", report_dir);
                match target_search_k::run(&repo) {
                    Ok(o) => {
                        let changed = match write_if_changed(&format!("{}/SearchK_gen.v", out), &o.coq) {
                            Ok(c) => c,
                            Err(e) => { eprintln!("translator: cannot write SearchK_gen.v: {}", e); std::process::exit(1) }
                        };
                        let _ = std::fs::write(&report_path, serde_json::to_string_pretty(&o.report).unwrap());
                        println!(
                            "translator: search_k ok: compute_search_k at line {}, float site at line {}, SearchK_gen.v {}",
                            o.report["fn_line"], o.report["float_site_line"],
                            if changed { "rewritten" } else { "unchanged" }
                        );
                    }
                    Err(v) => {
                        let _ = std::fs::write(&report_path, serde_json::to_string_pretty(&v).unwrap());
                        eprintln!("{}", target_search_k::fail_text(&v));
                        rc = 2;
                    }
                }
            }
            other => { eprintln!("translator: unknown target {}", other); std::process::exit(1) }
        }
    }
    std::process::exit(rc);
}
