//! kvh-translator — a deliberately small "Rust subset -> Gallina" translator (generic part).
//!
//! The generic part knows nothing about KyroDB.  A *target driver* (one module per target, e.g.
//! `target_config.rs`) supplies `Tables`:
//!   * `atoms`     — which `self.a.b.c` field paths are inputs of the model and what symbolic value
//!                   (`Val`) each one is (a bool field, a term of a finite inductive, a number known
//!                   only as zero/non-zero, a string known only through a classifier or predicates);
//!   * `enums`     — Rust enums mirrored as Coq inductives;
//!   * `pred_fns`  — helper functions that become *input predicates* (e.g. `is_loopback_host`);
//!   * macro names that are guards (`ensure!`), rejections (`bail!`) or no-ops (`eprintln!`).
//! and asks for a function body to be translated into one Gallina boolean ("the function returns Ok").
//!
//! Everything that does not depend on an atom is *opaque*: an opaque boolean in guard position becomes
//! a field of the record `opaque_guards`, universally quantified in the theorems (such a guard can only
//! reject more).  The translator FAILS CLOSED (`TrError`, naming construct and line) on every
//! statement form, macro, control-flow construct or operation on a model input that it does not
//! understand.  Expressions are traversed completely even when their value is opaque, so a `return`,
//! `?`, closure, assignment, loop … hidden inside an "unrelated" guard is still refused.
use quote::ToTokens;
use std::collections::{BTreeMap, BTreeSet};
use syn::spanned::Spanned;
use syn::{Expr, Stmt};

pub mod pure;
pub mod target_config;
pub mod target_ordered_f64;
pub mod target_search_k;
pub mod target_tenant_id;
pub mod target_token_bucket;

// ------------------------------------------------------------------------------------------------
// errors
// ------------------------------------------------------------------------------------------------
#[derive(Debug, Clone)]
pub struct TrError {
    pub line: usize,
    pub construct: String,
    pub msg: String,
}
pub type Res<T> = Result<T, TrError>;

pub fn src_of<T: ToTokens>(t: &T) -> String {
    let s = t.to_token_stream().to_string();
    // proc-macro2 prints tokens separated by blanks; tidy the most common cases for readability
    s.replace(" . ", ".")
        .replace(" :: ", "::")
        .replace(" (", "(")
        .replace("( ", "(")
        .replace(" )", ")")
        .replace(" ,", ",")
        .replace("! ", "!")
        .replace("& ", "&")
}
pub fn line_of<T: Spanned>(t: &T) -> usize {
    t.span().start().line
}
pub fn fail<T, S: Spanned + ToTokens>(at: &S, msg: &str) -> Res<T> {
    let mut c = src_of(at);
    if c.len() > 160 {
        c.truncate(160);
        c.push_str(" …");
    }
    Err(TrError { line: line_of(at), construct: c, msg: msg.to_string() })
}

// ------------------------------------------------------------------------------------------------
// Gallina boolean terms
// ------------------------------------------------------------------------------------------------
#[derive(Clone, Debug, PartialEq)]
pub enum B {
    True,
    False,
    /// a Gallina term of type bool; `input` = mentions a model input (not an opaque guard)
    Atom { term: String, input: bool },
    Not(Box<B>),
    And(Vec<B>),
    Or(Vec<B>),
    If(Box<B>, Box<B>, Box<B>),
    /// a comment attached to a guard (rendered on its own line)
    Note(String, Box<B>),
}

impl B {
    pub fn mentions_input(&self) -> bool {
        match self {
            B::True | B::False => false,
            B::Atom { input, .. } => *input,
            B::Not(b) | B::Note(_, b) => b.mentions_input(),
            B::And(v) | B::Or(v) => v.iter().any(|b| b.mentions_input()),
            B::If(a, b, c) => a.mentions_input() || b.mentions_input() || c.mentions_input(),
        }
    }
    pub fn not(self) -> B {
        match self {
            B::True => B::False,
            B::False => B::True,
            other => B::Not(Box::new(other)),
        }
    }
    pub fn and(a: B, b: B) -> B {
        let mut v = vec![];
        for x in [a, b] {
            match x {
                B::And(xs) => v.extend(xs),
                other => v.push(other),
            }
        }
        B::And(v)
    }
    pub fn or(a: B, b: B) -> B {
        let mut v = vec![];
        for x in [a, b] {
            match x {
                B::Or(xs) => v.extend(xs),
                other => v.push(other),
            }
        }
        B::Or(v)
    }
    fn strip(&self) -> &B {
        match self {
            B::Note(_, b) => b.strip(),
            o => o,
        }
    }
    /// `true` when the term is literally `true` (used to drop guard-free blocks)
    pub fn is_true(&self) -> bool {
        match self.strip() {
            B::True => true,
            B::And(v) => v.iter().all(|b| b.is_true()),
            _ => false,
        }
    }

    /// Render. `ind` = indentation of the current line. Top-level conjunctions are printed one
    /// conjunct per line so that comments and guards line up with the Rust source.
    pub fn render(&self, ind: usize) -> String {
        let pad = " ".repeat(ind);
        match self {
            B::True => "true".into(),
            B::False => "false".into(),
            B::Atom { term, .. } => term.clone(),
            B::Not(b) => format!("negb {}", b.render_arg(ind)),
            B::Note(c, b) => format!("(* {} *)\n{}{}", coq_comment(c), pad, b.render(ind)),
            B::And(v) => {
                if v.is_empty() {
                    return "true".into();
                }
                let parts: Vec<String> = v.iter().map(|b| b.render_conj(ind + 1)).collect();
                format!("({})", parts.join(&format!(" &&\n{} ", pad)))
            }
            B::Or(v) => {
                let parts: Vec<String> = v.iter().map(|b| b.render_arg(ind + 1)).collect();
                format!("({})", parts.join(" || "))
            }
            B::If(c, t, e) => format!(
                "(if {}\n{} then {}\n{} else {})",
                c.render(ind + 4),
                pad,
                t.render(ind + 6),
                pad,
                e.render(ind + 6)
            ),
        }
    }
    fn render_conj(&self, ind: usize) -> String {
        match self {
            B::Note(..) | B::If(..) | B::And(_) | B::Or(_) | B::True | B::False | B::Atom { .. } => self.render(ind),
            B::Not(_) => self.render(ind),
        }
    }
    fn render_arg(&self, ind: usize) -> String {
        match self {
            B::True | B::False | B::If(..) | B::And(_) | B::Or(_) => self.render(ind),
            B::Atom { term, .. } => {
                if term.contains(' ') && !term.starts_with('(') {
                    format!("({})", term)
                } else {
                    term.clone()
                }
            }
            B::Not(_) | B::Note(..) => format!("({})", self.render(ind)),
        }
    }
}

pub fn coq_comment(s: &str) -> String {
    s.replace("(*", "( *").replace("*)", "* )").replace('"', "'").replace('\n', " ")
}

/// Gallina literal for a Rust string: the list of its Unicode scalar values.
pub fn coq_str_lit(s: &str) -> String {
    let parts: Vec<String> = s.chars().map(|c| format!("{}", c as u32)).collect();
    format!("[{}]%N", parts.join("; "))
}

// ------------------------------------------------------------------------------------------------
// symbolic values
// ------------------------------------------------------------------------------------------------
#[derive(Clone, Debug)]
pub enum Val {
    Bool(B),
    /// a term of the Coq inductive `ty` (a mirrored Rust enum)
    Enum { ty: String, term: String },
    /// an unsigned number the model only knows as zero / non-zero; `zero` is the Gallina test
    ZeroClass { zero: B },
    /// a string the model knows through a finite classifier applied after the normalisation `ops`
    /// that the code performs (discovered, not assumed): atom name + operations applied so far
    ClassStr { atom: String, ops: Vec<String> },
    /// a string the model knows only through input predicates (`pred_fns`): predicate name -> term
    PredStr { preds: BTreeMap<String, B> },
    Opt { some: B, inner: Box<Val> },
    IntLit(u128),
    StrLit(String),
    /// does not depend on any model input
    Opaque,
}

impl Val {
    pub fn is_opaque_or_lit(&self) -> bool {
        matches!(self, Val::Opaque | Val::IntLit(_) | Val::StrLit(_))
            || matches!(self, Val::Bool(b) if !b.mentions_input())
    }
    fn kind(&self) -> &'static str {
        match self {
            Val::Bool(_) => "bool",
            Val::Enum { .. } => "enum",
            Val::ZeroClass { .. } => "zero/non-zero number",
            Val::ClassStr { .. } => "classified string",
            Val::PredStr { .. } => "predicate string",
            Val::Opt { .. } => "option",
            Val::IntLit(_) => "integer literal",
            Val::StrLit(_) => "string literal",
            Val::Opaque => "opaque",
        }
    }
}

#[derive(Clone, Debug)]
pub struct EnumInfo {
    pub rust: String,
    pub coq_ty: String,
    /// (Rust variant, Coq constructor)
    pub ctors: Vec<(String, String)>,
    pub line: usize,
}

/// How a classified string atom is rendered: `<coq_ty>_eqb (<term>) <ctor>`; constructor for a
/// literal is produced by `ctor_of_lit` of the target driver (kept as a table filled on demand).
#[derive(Clone, Debug)]
pub struct ClassStrSpec {
    pub coq_ty: String,
    pub term: String,
    pub ctor_prefix: String,
    pub empty_ctor: String,
}

#[derive(Clone, Debug, Default)]
pub struct ClassStrUse {
    /// normalisation (method names, in application order) under which the atom is compared
    pub ops: Option<Vec<String>>,
    pub ops_line: usize,
    /// literal -> Coq constructor
    pub lits: BTreeMap<String, String>,
}

#[derive(Default)]
pub struct Tables {
    pub atoms: BTreeMap<String, Val>,
    pub enums: BTreeMap<String, EnumInfo>,
    pub class_strs: BTreeMap<String, ClassStrSpec>,
    pub pred_fns: BTreeSet<String>,
    pub ensure_macros: BTreeSet<String>,
    pub bail_macros: BTreeSet<String>,
    pub noop_macros: BTreeSet<String>,
    /// `self.m()` helper methods that the driver checked not to read any atom
    pub opaque_self_methods: BTreeSet<String>,
    /// name of the bound variable of type `opaque_guards`
    pub opaque_var: String,
}

#[derive(Clone, Debug)]
pub struct OpaqueField {
    pub name: String,
    pub line: usize,
    pub src: String,
}

#[derive(Clone, Debug)]
pub struct GuardInfo {
    pub line: usize,
    pub kind: String, // ensure | bail | return-err
    pub cond: String,
    pub message_prefix: String,
    /// the guard's own condition mentions a model input
    pub own_input: bool,
    /// an enclosing `if` condition mentions a model input
    pub enclosing_input: bool,
    pub opaque_fields: Vec<String>,
}

pub type Locals = BTreeMap<String, Val>;

#[derive(Clone)]
enum Kont {
    /// falling off the end of the function body (not allowed: must end in `Ok(())`)
    FnEnd,
    /// value of "the rest of the function returns Ok" after this block
    Value(B),
}

pub struct Translator<'a> {
    pub t: &'a Tables,
    pub opaque_fields: Vec<OpaqueField>,
    pub guards: Vec<GuardInfo>,
    pub class_uses: BTreeMap<String, ClassStrUse>,
    pub early_ok_lines: Vec<usize>,
    pub notes: Vec<String>,
    used: BTreeSet<String>,
    enclosing_input: Vec<bool>,
    cur_opaque: Vec<String>,
}

const ORDER_OPS: [&str; 4] = ["<", "<=", ">", ">="];

impl<'a> Translator<'a> {
    pub fn new(t: &'a Tables) -> Self {
        Translator {
            t,
            opaque_fields: vec![],
            guards: vec![],
            class_uses: BTreeMap::new(),
            early_ok_lines: vec![],
            notes: vec![],
            used: BTreeSet::new(),
            enclosing_input: vec![],
            cur_opaque: vec![],
        }
    }

    // ---------------------------------------------------------------- opaque booleans
    fn fresh_opaque<T: Spanned + ToTokens>(&mut self, at: &T) -> B {
        let src = src_of(at);
        let line = line_of(at);
        let mut slug = String::new();
        let mut last_us = true;
        for ch in src.replace("self.", "").chars() {
            let c = ch.to_ascii_lowercase();
            if c.is_ascii_alphanumeric() {
                slug.push(c);
                last_us = false;
            } else if !last_us {
                slug.push('_');
                last_us = true;
            }
        }
        let mut slug = slug.trim_matches('_').to_string();
        if slug.len() > 44 {
            slug.truncate(44);
            slug = slug.trim_matches('_').to_string();
        }
        let base = format!("g{:04}_{}", line, slug);
        let mut name = base.clone();
        let mut k = 2;
        while !self.used.insert(name.clone()) {
            name = format!("{}_{}", base, k);
            k += 1;
        }
        self.opaque_fields.push(OpaqueField { name: name.clone(), line, src });
        self.cur_opaque.push(name.clone());
        B::Atom { term: format!("{} {}", name, self.t.opaque_var), input: false }
    }

    pub fn to_bool<T: Spanned + ToTokens>(&mut self, v: Val, at: &T) -> Res<B> {
        match v {
            Val::Bool(b) => Ok(b),
            Val::Opaque => Ok(self.fresh_opaque(at)),
            other => fail(at, &format!("expected a boolean, found a {}", other.kind())),
        }
    }

    // ---------------------------------------------------------------- expressions
    fn field_path(e: &Expr) -> Option<(String, Vec<String>)> {
        match e {
            Expr::Path(p) if p.qself.is_none() && p.path.segments.len() == 1 => {
                Some((p.path.segments[0].ident.to_string(), vec![]))
            }
            Expr::Field(f) => {
                let (root, mut v) = Self::field_path(&f.base)?;
                match &f.member {
                    syn::Member::Named(id) => v.push(id.to_string()),
                    syn::Member::Unnamed(ix) => v.push(ix.index.to_string()),
                }
                Some((root, v))
            }
            Expr::Paren(p) => Self::field_path(&p.expr),
            Expr::Group(g) => Self::field_path(&g.expr),
            _ => None,
        }
    }

    fn class_cmp<T: Spanned + ToTokens>(&mut self, atom: &str, ops: &[String], lit: &str, at: &T) -> Res<B> {
        let spec = match self.t.class_strs.get(atom) {
            Some(s) => s.clone(),
            None => return fail(at, "classified string without a specification"),
        };
        let u = self.class_uses.entry(atom.to_string()).or_default();
        match &u.ops {
            None => {
                u.ops = Some(ops.to_vec());
                u.ops_line = line_of(at);
            }
            Some(prev) if prev.as_slice() != ops => {
                return fail(
                    at,
                    &format!(
                        "`{}` is compared under two different normalisations ({:?} at line {} and {:?} here); the model has one classifier per string",
                        atom, prev, u.ops_line, ops
                    ),
                )
            }
            _ => {}
        }
        let ctor = if lit.is_empty() {
            spec.empty_ctor.clone()
        } else {
            let mut c = spec.ctor_prefix.clone();
            let mut up = true;
            for ch in lit.chars() {
                if ch.is_ascii_alphanumeric() {
                    c.push(if up { ch.to_ascii_uppercase() } else { ch });
                    up = false;
                } else {
                    up = true;
                }
            }
            c
        };
        if let Some((other, _)) = u.lits.iter().find(|(l, c)| **c == ctor && l.as_str() != lit) {
            return fail(at, &format!("string literals {:?} and {:?} map to the same constructor {}", other, lit, ctor));
        }
        u.lits.insert(lit.to_string(), ctor.clone());
        Ok(B::Atom { term: format!("{}_eqb ({}) {}", spec.coq_ty, spec.term, ctor), input: true })
    }

    fn enum_variant_of_path(&self, p: &syn::Path) -> Option<Val> {
        let n = p.segments.len();
        if n < 2 {
            return None;
        }
        let ty = p.segments[n - 2].ident.to_string();
        let var = p.segments[n - 1].ident.to_string();
        let info = self.t.enums.get(&ty)?;
        let (_, ctor) = info.ctors.iter().find(|(r, _)| *r == var)?;
        Some(Val::Enum { ty: info.coq_ty.clone(), term: ctor.clone() })
    }

    fn eq_vals<T: Spanned + ToTokens>(&mut self, a: Val, b: Val, at: &T) -> Res<Val> {
        use Val::*;
        Ok(match (a, b) {
            (Enum { ty: t1, term: x }, Enum { ty: t2, term: y }) => {
                if t1 != t2 {
                    return fail(at, "comparison of two different enum types");
                }
                Bool(B::Atom { term: format!("{}_eqb ({}) ({})", t1, x, y), input: true })
            }
            (ZeroClass { zero }, IntLit(0)) | (IntLit(0), ZeroClass { zero }) => Bool(zero),
            (ClassStr { atom, ops }, StrLit(s)) | (StrLit(s), ClassStr { atom, ops }) => {
                Bool(self.class_cmp(&atom, &ops, &s, at)?)
            }
            (Bool(x), Bool(y)) => {
                // x == y on booleans
                Bool(B::If(Box::new(x), Box::new(y.clone()), Box::new(y.not())))
            }
            (x, y) if x.is_opaque_or_lit() && y.is_opaque_or_lit() => Opaque,
            (x, y) => {
                return fail(at, &format!("unsupported equality between a {} and a {}", x.kind(), y.kind()));
            }
        })
    }

    pub fn eval(&mut self, e: &Expr, env: &Locals) -> Res<Val> {
        match e {
            Expr::Paren(p) => self.eval(&p.expr, env),
            Expr::Group(g) => self.eval(&g.expr, env),
            Expr::Reference(r) => {
                if r.mutability.is_some() {
                    return fail(e, "mutable borrow");
                }
                self.eval(&r.expr, env)
            }
            Expr::Lit(l) => Ok(match &l.lit {
                syn::Lit::Bool(b) => Val::Bool(if b.value { B::True } else { B::False }),
                syn::Lit::Int(i) => match i.base10_parse::<u128>() {
                    Ok(n) => Val::IntLit(n),
                    Err(_) => Val::Opaque,
                },
                syn::Lit::Str(s) => Val::StrLit(s.value()),
                _ => Val::Opaque,
            }),
            Expr::Path(p) => {
                if p.qself.is_some() {
                    return fail(e, "qualified path");
                }
                if p.path.segments.len() == 1 {
                    let id = p.path.segments[0].ident.to_string();
                    if let Some(v) = env.get(&id) {
                        return Ok(v.clone());
                    }
                    if id == "self" {
                        return fail(e, "`self` used as a whole value");
                    }
                    return Ok(Val::Opaque); // a constant
                }
                if let Some(v) = self.enum_variant_of_path(&p.path) {
                    return Ok(v);
                }
                Ok(Val::Opaque)
            }
            Expr::Field(_) => {
                let (root, fields) = match Self::field_path(e) {
                    Some(x) => x,
                    None => {
                        // field of a computed value: evaluate the base for its effects on the scan
                        if let Expr::Field(f) = e {
                            let b = self.eval(&f.base, env)?;
                            if b.is_opaque_or_lit() {
                                return Ok(Val::Opaque);
                            }
                        }
                        return fail(e, "field access on a computed model input");
                    }
                };
                if root == "self" {
                    let path = format!("self.{}", fields.join("."));
                    if let Some(v) = self.t.atoms.get(&path) {
                        return Ok(v.clone());
                    }
                    let pre = format!("{}.", path);
                    if self.t.atoms.keys().any(|k| k.starts_with(&pre)) {
                        return fail(e, "an aggregate that contains model inputs is used as a whole");
                    }
                    if let Some(k) = self.t.atoms.keys().find(|k| path.starts_with(&format!("{}.", k))) {
                        return fail(e, &format!("field of the model input `{}`", k));
                    }
                    return Ok(Val::Opaque);
                }
                match env.get(&root) {
                    Some(v) if v.is_opaque_or_lit() => Ok(Val::Opaque),
                    Some(_) => fail(e, "field access on a local bound to a model input"),
                    None => Ok(Val::Opaque),
                }
            }
            Expr::Unary(u) => {
                let v = self.eval(&u.expr, env)?;
                match u.op {
                    syn::UnOp::Not(_) => match v {
                        Val::Bool(b) => Ok(Val::Bool(b.not())),
                        Val::Opaque => Ok(Val::Opaque),
                        other => fail(e, &format!("`!` applied to a {}", other.kind())),
                    },
                    syn::UnOp::Deref(_) => Ok(v),
                    syn::UnOp::Neg(_) => {
                        if v.is_opaque_or_lit() {
                            Ok(Val::Opaque)
                        } else {
                            fail(e, "negation of a model input")
                        }
                    }
                    _ => fail(e, "unknown unary operator"),
                }
            }
            Expr::Binary(b) => {
                use syn::BinOp::*;
                match &b.op {
                    And(_) | Or(_) => {
                        let l = self.eval(&b.left, env)?;
                        let r = self.eval(&b.right, env)?;
                        if matches!(l, Val::Opaque) && matches!(r, Val::Opaque) {
                            return Ok(Val::Opaque);
                        }
                        let lb = self.to_bool(l, &*b.left)?;
                        let rb = self.to_bool(r, &*b.right)?;
                        Ok(Val::Bool(if matches!(b.op, And(_)) { B::and(lb, rb) } else { B::or(lb, rb) }))
                    }
                    Eq(_) | Ne(_) => {
                        let l = self.eval(&b.left, env)?;
                        let r = self.eval(&b.right, env)?;
                        let v = self.eq_vals(l, r, e)?;
                        Ok(match (v, &b.op) {
                            (Val::Bool(x), Ne(_)) => Val::Bool(x.not()),
                            (v, _) => v,
                        })
                    }
                    Lt(_) | Le(_) | Gt(_) | Ge(_) => {
                        let l = self.eval(&b.left, env)?;
                        let r = self.eval(&b.right, env)?;
                        let op = src_of(&b.op);
                        debug_assert!(ORDER_OPS.contains(&op.as_str()));
                        match (l, r) {
                            // unsigned x:  x > 0  <=> x != 0 ;  x >= 1 <=> x != 0 ; x < 1, x <= 0 <=> x == 0
                            (Val::ZeroClass { zero }, Val::IntLit(n)) => match (op.as_str(), n) {
                                (">", 0) | (">=", 1) => Ok(Val::Bool(zero.not())),
                                ("<", 1) | ("<=", 0) => Ok(Val::Bool(zero)),
                                _ => fail(e, "a zero/non-zero number is compared with something the abstraction cannot decide"),
                            },
                            (Val::IntLit(n), Val::ZeroClass { zero }) => match (op.as_str(), n) {
                                ("<", 0) | ("<=", 1) => Ok(Val::Bool(zero.not())),
                                (">", 1) | (">=", 0) => Ok(Val::Bool(zero)),
                                _ => fail(e, "a zero/non-zero number is compared with something the abstraction cannot decide"),
                            },
                            (x, y) if x.is_opaque_or_lit() && y.is_opaque_or_lit() => Ok(Val::Opaque),
                            (x, y) => fail(e, &format!("ordering between a {} and a {}", x.kind(), y.kind())),
                        }
                    }
                    Add(_) | Sub(_) | Mul(_) | Div(_) | Rem(_) | BitXor(_) | BitAnd(_) | BitOr(_) | Shl(_) | Shr(_) => {
                        let l = self.eval(&b.left, env)?;
                        let r = self.eval(&b.right, env)?;
                        if l.is_opaque_or_lit() && r.is_opaque_or_lit() {
                            Ok(Val::Opaque)
                        } else {
                            fail(e, "arithmetic on a model input")
                        }
                    }
                    _ => fail(e, "assignment operator"),
                }
            }
            Expr::Cast(c) => {
                let v = self.eval(&c.expr, env)?;
                if v.is_opaque_or_lit() {
                    Ok(Val::Opaque)
                } else {
                    fail(e, "cast of a model input")
                }
            }
            Expr::Range(r) => {
                for x in [&r.start, &r.end].into_iter().flatten() {
                    let v = self.eval(x, env)?;
                    if !v.is_opaque_or_lit() {
                        return fail(e, "range over a model input");
                    }
                }
                Ok(Val::Opaque)
            }
            Expr::Tuple(t) => {
                for x in &t.elems {
                    let v = self.eval(x, env)?;
                    if !v.is_opaque_or_lit() {
                        return fail(e, "tuple containing a model input");
                    }
                }
                Ok(Val::Opaque)
            }
            Expr::Index(ix) => {
                let a = self.eval(&ix.expr, env)?;
                let b = self.eval(&ix.index, env)?;
                if a.is_opaque_or_lit() && b.is_opaque_or_lit() {
                    Ok(Val::Opaque)
                } else {
                    fail(e, "indexing with a model input")
                }
            }
            Expr::Macro(m) => self.eval_macro(&m.mac, env, e),
            Expr::Call(c) => {
                let fname = match &*c.func {
                    Expr::Path(p) => p.path.segments.last().map(|s| s.ident.to_string()).unwrap_or_default(),
                    _ => return fail(e, "call of a computed function"),
                };
                let mut args = vec![];
                for a in &c.args {
                    args.push(self.eval(a, env)?);
                }
                if self.t.pred_fns.contains(&fname) {
                    if args.len() != 1 {
                        return fail(e, "input predicate with more than one argument");
                    }
                    return match &args[0] {
                        Val::PredStr { preds } => match preds.get(&fname) {
                            Some(b) => Ok(Val::Bool(b.clone())),
                            None => fail(e, "this string input has no such predicate in the model"),
                        },
                        v if v.is_opaque_or_lit() => Ok(Val::Opaque),
                        other => fail(e, &format!("input predicate applied to a {}", other.kind())),
                    };
                }
                if args.iter().all(|a| a.is_opaque_or_lit()) {
                    Ok(Val::Opaque)
                } else {
                    fail(e, "unknown function applied to a model input (add it to the target's tables or inline it)")
                }
            }
            Expr::MethodCall(m) => {
                // self.helper()
                if let Expr::Path(p) = &*m.receiver {
                    if p.path.is_ident("self") {
                        let name = m.method.to_string();
                        for a in &m.args {
                            let v = self.eval(a, env)?;
                            if !v.is_opaque_or_lit() {
                                return fail(e, "helper method applied to a model input");
                            }
                        }
                        return if self.t.opaque_self_methods.contains(&name) {
                            Ok(Val::Opaque)
                        } else {
                            fail(e, "helper method on self that is not known to be independent of the model inputs")
                        };
                    }
                }
                let recv = self.eval(&m.receiver, env)?;
                let name = m.method.to_string();
                let mut args = vec![];
                for a in &m.args {
                    args.push(self.eval(a, env)?);
                }
                match recv {
                    v if v.is_opaque_or_lit() => {
                        if args.iter().all(|a| a.is_opaque_or_lit()) {
                            Ok(Val::Opaque)
                        } else {
                            fail(e, "method of an unrelated value applied to a model input")
                        }
                    }
                    Val::ClassStr { atom, mut ops } => match (name.as_str(), args.len()) {
                        ("trim", 0) | ("to_ascii_lowercase", 0) | ("to_lowercase", 0) | ("to_ascii_uppercase", 0)
                        | ("trim_start", 0) | ("trim_end", 0) => {
                            ops.push(name);
                            Ok(Val::ClassStr { atom, ops })
                        }
                        ("as_str", 0) | ("as_ref", 0) | ("clone", 0) | ("to_string", 0) | ("to_owned", 0) => {
                            Ok(Val::ClassStr { atom, ops })
                        }
                        ("is_empty", 0) => Ok(Val::Bool(self.class_cmp(&atom, &ops, "", e)?)),
                        ("eq", 1) => self.eq_vals(Val::ClassStr { atom, ops }, args.remove(0), e),
                        _ => fail(e, "string method not in the translator's subset (its meaning for the classifier is unknown)"),
                    },
                    Val::PredStr { preds } => match (name.as_str(), args.len()) {
                        ("as_str", 0) | ("as_ref", 0) | ("clone", 0) | ("to_string", 0) | ("to_owned", 0) => {
                            Ok(Val::PredStr { preds })
                        }
                        // any other pure method: its result is not a function of the predicates the
                        // model knows, so it is an arbitrary (universally quantified) value
                        _ if args.iter().all(|a| a.is_opaque_or_lit()) => Ok(Val::Opaque),
                        _ => fail(e, "method mixing two model inputs"),
                    },
                    Val::Opt { some, inner } => match (name.as_str(), args.len()) {
                        ("is_some", 0) => Ok(Val::Bool(some)),
                        ("is_none", 0) => Ok(Val::Bool(some.not())),
                        ("as_deref", 0) | ("as_ref", 0) | ("clone", 0) => Ok(Val::Opt { some, inner }),
                        ("unwrap_or", 1) => match (*inner, args.remove(0)) {
                            (Val::PredStr { preds: a }, Val::PredStr { preds: b }) => {
                                let mut out = BTreeMap::new();
                                for (k, va) in a {
                                    match b.get(&k) {
                                        Some(vb) => {
                                            out.insert(k, B::If(Box::new(some.clone()), Box::new(va), Box::new(vb.clone())));
                                        }
                                        None => return fail(e, "unwrap_or between strings with different predicates"),
                                    }
                                }
                                Ok(Val::PredStr { preds: out })
                            }
                            (Val::Bool(a), Val::Bool(b)) => Ok(Val::Bool(B::If(Box::new(some), Box::new(a), Box::new(b)))),
                            _ => fail(e, "unwrap_or on this kind of option"),
                        },
                        _ => fail(e, "option method not in the translator's subset"),
                    },
                    Val::Bool(b) if name == "clone" && args.is_empty() => Ok(Val::Bool(b)),
                    Val::Enum { ty, term } if name == "clone" && args.is_empty() => Ok(Val::Enum { ty, term }),
                    other => fail(e, &format!("method call on a {}", other.kind())),
                }
            }
            // everything else is outside the subset
            Expr::If(_) => fail(e, "`if` used as an expression"),
            Expr::Match(_) => fail(e, "`match` expression"),
            Expr::Block(_) => fail(e, "block expression"),
            Expr::Closure(_) => fail(e, "closure"),
            Expr::Try(_) => fail(e, "`?` operator (an early return hidden in an expression)"),
            Expr::Return(_) => fail(e, "`return` inside an expression"),
            Expr::Assign(_) => fail(e, "assignment"),
            Expr::Let(_) => fail(e, "`let` in expression position"),
            Expr::Loop(_) | Expr::While(_) | Expr::ForLoop(_) => fail(e, "loop"),
            Expr::Await(_) | Expr::Async(_) => fail(e, "async construct"),
            Expr::Unsafe(_) => fail(e, "unsafe block"),
            Expr::Break(_) | Expr::Continue(_) => fail(e, "break/continue"),
            _ => fail(e, "expression form outside the translator's subset"),
        }
    }

    fn eval_macro<T: Spanned + ToTokens>(&mut self, mac: &syn::Macro, env: &Locals, at: &T) -> Res<Val> {
        let name = mac.path.segments.last().map(|s| s.ident.to_string()).unwrap_or_default();
        if name == "matches" {
            struct MatchesArgs {
                scrutinee: Expr,
                pat: syn::Pat,
                guard: Option<Expr>,
            }
            impl syn::parse::Parse for MatchesArgs {
                fn parse(input: syn::parse::ParseStream) -> syn::Result<Self> {
                    let scrutinee: Expr = input.parse()?;
                    input.parse::<syn::Token![,]>()?;
                    let pat = syn::Pat::parse_multi_with_leading_vert(input)?;
                    let guard = if input.peek(syn::Token![if]) {
                        input.parse::<syn::Token![if]>()?;
                        Some(input.parse()?)
                    } else {
                        None
                    };
                    let _ = input.parse::<Option<syn::Token![,]>>()?;
                    Ok(MatchesArgs { scrutinee, pat, guard })
                }
            }
            let a: MatchesArgs = match mac.parse_body() {
                Ok(a) => a,
                Err(_) => return fail(at, "cannot parse matches! arguments"),
            };
            if a.guard.is_some() {
                return fail(at, "matches! with an `if` guard");
            }
            let v = self.eval(&a.scrutinee, env)?;
            let mut alts = vec![];
            fn flatten<'p>(p: &'p syn::Pat, out: &mut Vec<&'p syn::Pat>) {
                match p {
                    syn::Pat::Or(o) => o.cases.iter().for_each(|c| flatten(c, out)),
                    syn::Pat::Paren(pp) => flatten(&pp.pat, out),
                    other => out.push(other),
                }
            }
            flatten(&a.pat, &mut alts);
            return match v {
                Val::Opaque => Ok(Val::Opaque),
                Val::Enum { ty, term } => {
                    let mut acc: Option<B> = None;
                    for p in alts {
                        let b = match p {
                            syn::Pat::Path(pp) => match self.enum_variant_of_path(&pp.path) {
                                Some(Val::Enum { ty: t2, term: ctor }) if t2 == ty => {
                                    B::Atom { term: format!("{}_eqb ({}) {}", ty, term, ctor), input: true }
                                }
                                _ => return fail(at, "matches! pattern is not a variant of the scrutinee's enum"),
                            },
                            syn::Pat::Wild(_) => B::True,
                            _ => return fail(at, "matches! pattern form outside the subset"),
                        };
                        acc = Some(match acc {
                            None => b,
                            Some(x) => B::or(x, b),
                        });
                    }
                    Ok(Val::Bool(acc.unwrap_or(B::False)))
                }
                Val::ClassStr { atom, ops } => {
                    let mut acc: Option<B> = None;
                    for p in alts {
                        let b = match p {
                            syn::Pat::Lit(l) => match &l.lit {
                                syn::Lit::Str(s) => self.class_cmp(&atom, &ops, &s.value(), at)?,
                                _ => return fail(at, "matches! on a string with a non-string pattern"),
                            },
                            _ => return fail(at, "matches! pattern form outside the subset"),
                        };
                        acc = Some(match acc {
                            None => b,
                            Some(x) => B::or(x, b),
                        });
                    }
                    Ok(Val::Bool(acc.unwrap_or(B::False)))
                }
                other => fail(at, &format!("matches! on a {}", other.kind())),
            };
        }
        if name == "format" || name == "concat" || name == "stringify" {
            self.scan_macro_args(mac, env, at, false)?;
            return Ok(Val::Opaque);
        }
        fail(at, &format!("macro `{}!` in expression position is not in the translator's subset", name))
    }

    /// Traverse the comma-separated argument expressions of a message/logging macro: they must be in
    /// the expression subset (so they cannot hide control flow).  Returns them.
    fn scan_macro_args<T: Spanned + ToTokens>(&mut self, mac: &syn::Macro, env: &Locals, at: &T, allow_named: bool) -> Res<Vec<Expr>> {
        let args = match mac.parse_body_with(syn::punctuated::Punctuated::<Expr, syn::Token![,]>::parse_terminated) {
            Ok(a) => a,
            Err(_) => return fail(at, "cannot parse macro arguments as a comma-separated expression list"),
        };
        let v: Vec<Expr> = args.into_iter().collect();
        let saved = self.cur_opaque.len();
        for a in &v {
            match a {
                Expr::Assign(asg) if allow_named => {
                    self.eval(&asg.right, env)?;
                }
                _ => {
                    self.eval(a, env)?;
                }
            }
        }
        self.cur_opaque.truncate(saved);
        Ok(v)
    }

    // ---------------------------------------------------------------- statements
    pub fn translate_fn_body(&mut self, block: &syn::Block) -> Res<B> {
        self.tr_from(&block.stmts, 0, Locals::new(), &Kont::FnEnd)
    }

    fn is_ok_unit(e: &Expr) -> bool {
        if let Expr::Call(c) = e {
            if let Expr::Path(p) = &*c.func {
                if p.path.is_ident("Ok") && c.args.len() == 1 {
                    if let Expr::Tuple(t) = &c.args[0] {
                        return t.elems.is_empty();
                    }
                }
            }
        }
        false
    }
    fn is_err_call(e: &Expr) -> bool {
        if let Expr::Call(c) = e {
            if let Expr::Path(p) = &*c.func {
                return p.path.is_ident("Err");
            }
        }
        false
    }

    fn block_has_return_ok(b: &syn::Block) -> bool {
        struct V(bool);
        impl<'ast> syn::visit::Visit<'ast> for V {
            fn visit_expr_return(&mut self, r: &'ast syn::ExprReturn) {
                match &r.expr {
                    Some(e) if Translator::is_err_call(e) => {}
                    _ => self.0 = true,
                }
            }
        }
        let mut v = V(false);
        syn::visit::visit_block(&mut v, b);
        v.0
    }

    fn record_guard(&mut self, line: usize, kind: &str, cond: String, msg: String, own_input: bool, opaque_from: usize) {
        let enclosing_input = self.enclosing_input.iter().any(|x| *x);
        let opaque_fields = self.cur_opaque[opaque_from..].to_vec();
        self.guards.push(GuardInfo { line, kind: kind.into(), cond, message_prefix: msg, own_input, enclosing_input, opaque_fields });
    }

    fn message_prefix(args: &[Expr]) -> String {
        for a in args {
            if let Expr::Lit(l) = a {
                if let syn::Lit::Str(s) = &l.lit {
                    let v = s.value();
                    return v.split('{').next().unwrap_or("").to_string();
                }
            }
        }
        String::new()
    }

    fn tr_macro_stmt<T: Spanned + ToTokens>(&mut self, mac: &syn::Macro, at: &T, stmts: &[Stmt], i: usize, locals: Locals, k: &Kont) -> Res<B> {
        let name = mac.path.segments.last().map(|s| s.ident.to_string()).unwrap_or_default();
        let line = line_of(at);
        if self.t.ensure_macros.contains(&name) {
            let args = match mac.parse_body_with(syn::punctuated::Punctuated::<Expr, syn::Token![,]>::parse_terminated) {
                Ok(a) => a.into_iter().collect::<Vec<Expr>>(),
                Err(_) => return fail(at, "cannot parse ensure! arguments"),
            };
            if args.is_empty() {
                return fail(at, "ensure! without a condition");
            }
            let from = self.cur_opaque.len();
            let v = self.eval(&args[0], &locals)?;
            let cond = self.to_bool(v, &args[0])?;
            let mark = self.cur_opaque.len();
            for a in &args[1..] {
                self.eval(a, &locals)?; // message arguments: subset check only
            }
            self.cur_opaque.truncate(mark);
            self.record_guard(line, "ensure", src_of(&args[0]), Self::message_prefix(&args[1..]), cond.mentions_input(), from);
            let rest = self.tr_from(stmts, i + 1, locals, k)?;
            let noted = B::Note(format!("L{} ensure!({})", line, src_of(&args[0])), Box::new(cond));
            return Ok(B::and(noted, rest));
        }
        if self.t.bail_macros.contains(&name) {
            let args = self.scan_macro_args(mac, &locals, at, false)?;
            let from = self.cur_opaque.len();
            self.record_guard(line, "bail", "false".into(), Self::message_prefix(&args), false, from);
            if i + 1 < stmts.len() {
                self.notes.push(format!("line {}: statements after bail! are unreachable and were not translated", line));
            }
            return Ok(B::Note(format!("L{} bail!", line), Box::new(B::False)));
        }
        if self.t.noop_macros.contains(&name) {
            self.scan_macro_args(mac, &locals, at, true)?;
            return self.tr_from(stmts, i + 1, locals, k);
        }
        fail(at, &format!("statement macro `{}!` is not in the translator's subset", name))
    }

    fn tr_block(&mut self, b: &syn::Block, locals: &Locals, k: &Kont) -> Res<B> {
        self.tr_from(&b.stmts, 0, locals.clone(), k)
    }

    fn tr_if(&mut self, ifx: &syn::ExprIf, locals: &Locals, k_after: Option<&B>) -> Res<B> {
        // condition
        let mut then_locals = locals.clone();
        let cond: B = match &*ifx.cond {
            Expr::Let(l) => {
                // if let Some(x) = OPT
                let scrut = self.eval(&l.expr, locals)?;
                let binder: Option<String> = match &*l.pat {
                    syn::Pat::TupleStruct(ts)
                        if ts.path.is_ident("Some") && ts.elems.len() == 1 =>
                    {
                        match &ts.elems[0] {
                            syn::Pat::Ident(id) if id.subpat.is_none() => Some(id.ident.to_string()),
                            syn::Pat::Wild(_) => None,
                            _ => return fail(&*l.pat, "`if let Some(<pattern>)` with a nested pattern"),
                        }
                    }
                    _ => return fail(&*l.pat, "`if let` with a pattern other than Some(x)"),
                };
                match scrut {
                    Val::Opt { some, inner } => {
                        if let Some(b) = binder {
                            then_locals.insert(b, *inner);
                        }
                        some
                    }
                    Val::Opaque => {
                        if let Some(b) = binder {
                            then_locals.insert(b, Val::Opaque);
                        }
                        self.fresh_opaque(&*l.expr)
                    }
                    other => return fail(&*l.expr, &format!("`if let Some(..)` on a {}", other.kind())),
                }
            }
            c => {
                let v = self.eval(c, locals)?;
                self.to_bool(v, c)?
            }
        };
        let line = line_of(ifx);
        let note = format!("L{} if {}", line, src_of(&*ifx.cond));
        let cps = k_after.is_some();
        let kb = match k_after {
            Some(b) => Kont::Value(b.clone()),
            None => Kont::Value(B::True),
        };
        self.enclosing_input.push(cond.mentions_input());
        let then_b = self.tr_block(&ifx.then_branch, &then_locals, &kb);
        let else_b = match &ifx.else_branch {
            None => Ok(match &kb {
                Kont::Value(b) => b.clone(),
                Kont::FnEnd => B::True,
            }),
            Some((_, e)) => match &**e {
                Expr::Block(bl) if bl.attrs.is_empty() && bl.label.is_none() => self.tr_block(&bl.block, locals, &kb),
                Expr::If(inner) => self.tr_if(inner, locals, k_after),
                other => fail(other, "else branch form"),
            },
        };
        self.enclosing_input.pop();
        let (then_b, else_b) = (then_b?, else_b?);
        if !cps && then_b.is_true() && else_b.is_true() {
            // no guard inside: the statement cannot change the verdict
            return Ok(B::Note(format!("{} {{ no guard inside }}", note), Box::new(B::True)));
        }
        Ok(B::Note(note, Box::new(B::If(Box::new(cond), Box::new(then_b), Box::new(else_b)))))
    }

    fn tr_from(&mut self, stmts: &[Stmt], i: usize, mut locals: Locals, k: &Kont) -> Res<B> {
        if i >= stmts.len() {
            return match k {
                Kont::Value(b) => Ok(b.clone()),
                Kont::FnEnd => Err(TrError {
                    line: 0,
                    construct: "end of function body".into(),
                    msg: "the function does not end in `Ok(())`".into(),
                }),
            };
        }
        let last = i + 1 == stmts.len();
        match &stmts[i] {
            Stmt::Local(l) => {
                let name = match &l.pat {
                    syn::Pat::Ident(id) if id.by_ref.is_none() && id.subpat.is_none() => id.ident.to_string(),
                    syn::Pat::Type(pt) => match &*pt.pat {
                        syn::Pat::Ident(id) if id.by_ref.is_none() && id.subpat.is_none() => id.ident.to_string(),
                        _ => return fail(&l.pat, "`let` with a destructuring pattern"),
                    },
                    _ => return fail(&l.pat, "`let` with a destructuring pattern"),
                };
                let init = match &l.init {
                    Some(init) => {
                        if init.diverge.is_some() {
                            return fail(l, "`let … else`");
                        }
                        &init.expr
                    }
                    None => return fail(l, "`let` without initialiser"),
                };
                let saved = self.cur_opaque.len();
                let v = self.eval(init, &locals)?;
                self.cur_opaque.truncate(saved);
                locals.insert(name, v);
                self.tr_from(stmts, i + 1, locals, k)
            }
            Stmt::Macro(m) => self.tr_macro_stmt(&m.mac, m, stmts, i, locals, k),
            Stmt::Expr(e, semi) => match e {
                Expr::Macro(m) => self.tr_macro_stmt(&m.mac, e, stmts, i, locals, k),
                Expr::If(ifx) => {
                    let has_ret = Self::block_has_return_ok(&ifx.then_branch)
                        || ifx.else_branch.as_ref().map_or(false, |(_, e)| {
                            struct V(bool);
                            impl<'ast> syn::visit::Visit<'ast> for V {
                                fn visit_expr_return(&mut self, r: &'ast syn::ExprReturn) {
                                    match &r.expr {
                                        Some(e) if Translator::is_err_call(e) => {}
                                        _ => self.0 = true,
                                    }
                                }
                            }
                            let mut v = V(false);
                            syn::visit::visit_expr(&mut v, e);
                            v.0
                        });
                    if has_ret {
                        // accept-early inside a branch: continuation-passing (the rest is duplicated)
                        let rest = self.tr_from(stmts, i + 1, locals.clone(), k)?;
                        self.tr_if(ifx, &locals, Some(&rest))
                    } else {
                        let here = self.tr_if(ifx, &locals, None)?;
                        let rest = self.tr_from(stmts, i + 1, locals, k)?;
                        Ok(B::and(here, rest))
                    }
                }
                Expr::Return(r) => {
                    let line = line_of(e);
                    match &r.expr {
                        Some(x) if Self::is_ok_unit(x) => {
                            self.early_ok_lines.push(line);
                            Ok(B::Note(format!("L{} return Ok(())", line), Box::new(B::True)))
                        }
                        Some(x) if Self::is_err_call(x) => {
                            if let Expr::Call(c) = &**x {
                                for a in &c.args {
                                    // Err(anyhow!(..)) etc.: scan only
                                    if let Expr::Macro(m) = a {
                                        self.scan_macro_args(&m.mac, &locals, a, false)?;
                                    } else {
                                        self.eval(a, &locals)?;
                                    }
                                }
                            }
                            let from = self.cur_opaque.len();
                            self.record_guard(line, "return-err", "false".into(), String::new(), false, from);
                            Ok(B::Note(format!("L{} return Err(..)", line), Box::new(B::False)))
                        }
                        _ => fail(e, "`return` of something other than Ok(()) or Err(..)"),
                    }
                }
                _ if Self::is_ok_unit(e) && semi.is_none() && last && matches!(k, Kont::FnEnd) => Ok(B::True),
                _ if Self::is_err_call(e) && semi.is_none() && last && matches!(k, Kont::FnEnd) => {
                    let from = self.cur_opaque.len();
                    self.record_guard(line_of(e), "return-err", "false".into(), String::new(), false, from);
                    Ok(B::False)
                }
                _ => fail(e, "statement form outside the translator's subset"),
            },
            Stmt::Item(it) => fail(it, "nested item"),
        }
    }
}

// ------------------------------------------------------------------------------------------------
// source navigation helpers shared by target drivers
// ------------------------------------------------------------------------------------------------
pub fn parse_file(path: &str) -> Result<syn::File, String> {
    let text = std::fs::read_to_string(path).map_err(|e| format!("cannot read {}: {}", path, e))?;
    syn::parse_file(&text).map_err(|e| format!("cannot parse {}: {} (line {})", path, e, e.span().start().line))
}

/// `impl <ty> { fn <name> }` (inherent impls only)
pub fn find_method<'f>(file: &'f syn::File, ty: &str, name: &str) -> Option<&'f syn::ImplItemFn> {
    for it in &file.items {
        if let syn::Item::Impl(im) = it {
            if im.trait_.is_some() {
                continue;
            }
            if let syn::Type::Path(tp) = &*im.self_ty {
                if tp.path.is_ident(ty) {
                    for ii in &im.items {
                        if let syn::ImplItem::Fn(f) = ii {
                            if f.sig.ident == name {
                                return Some(f);
                            }
                        }
                    }
                }
            }
        }
    }
    None
}

pub fn find_fn<'f>(file: &'f syn::File, name: &str) -> Option<&'f syn::ItemFn> {
    file.items.iter().find_map(|it| match it {
        syn::Item::Fn(f) if f.sig.ident == name => Some(f),
        _ => None,
    })
}

pub fn find_enum<'f>(file: &'f syn::File, name: &str) -> Option<&'f syn::ItemEnum> {
    file.items.iter().find_map(|it| match it {
        syn::Item::Enum(e) if e.ident == name => Some(e),
        _ => None,
    })
}

/// All `self.a.b.c` paths mentioned anywhere in a block (used to check that a helper method is
/// independent of the model inputs).
pub fn self_paths_in_block(b: &syn::Block) -> BTreeSet<String> {
    struct V(BTreeSet<String>);
    impl<'ast> syn::visit::Visit<'ast> for V {
        fn visit_expr_field(&mut self, f: &'ast syn::ExprField) {
            if let Some((root, fields)) = Translator::field_path(&Expr::Field(f.clone())) {
                if root == "self" {
                    // maximal path only (do not record its prefixes)
                    self.0.insert(format!("self.{}", fields.join(".")));
                    return;
                }
            }
            syn::visit::visit_expr_field(self, f);
        }
    }
    let mut v = V(BTreeSet::new());
    syn::visit::visit_block(&mut v, b);
    v.0
}

pub fn write_if_changed(path: &str, text: &str) -> std::io::Result<bool> {
    if let Ok(old) = std::fs::read_to_string(path) {
        if old == text {
            return Ok(false);
        }
    }
    if let Some(dir) = std::path::Path::new(path).parent() {
        std::fs::create_dir_all(dir)?;
    }
    let tmp = format!("{}.tmp{}", path, std::process::id());
    std::fs::write(&tmp, text)?;
    std::fs::rename(&tmp, path)?;
    Ok(true)
}

/// Mirror a field-less Rust enum as a Coq inductive with a boolean equality.
pub fn coq_enum(ty: &str, ctors: &[String], comment: &str) -> String {
    let mut s = String::new();
    s.push_str(&format!("(* {} *)\n", coq_comment(comment)));
    s.push_str(&format!("Inductive {} : Set := {}.\n", ty, ctors.iter().map(|c| format!("| {}", c)).collect::<Vec<_>>().join(" ")));
    s.push_str(&format!("Definition {}_eqb (a b : {}) : bool :=\n  match a, b with\n", ty, ty));
    for c in ctors {
        s.push_str(&format!("  | {}, {} => true\n", c, c));
    }
    if ctors.len() > 1 {
        s.push_str("  | _, _ => false\n");
    }
    s.push_str("  end.\n");
    s.push_str(&format!("Definition all_{} : list {} := [{}].\n\n", ty, ty, ctors.join("; ")));
    s
}
