//! Generic translator for small *pure / state-updating* Rust functions into typed Gallina definitions
//! (used by the targets token_bucket, tenant_id_mapper, ordered_f64).  Unlike the guard translator of
//! lib.rs (which abstracts everything it does not know into opaque booleans) this one translates every
//! expression exactly or FAILS CLOSED (TrError naming construct and line).
//!
//! Types:   bool; unsigned integers of width w (Gallina N or Z, chosen by the target; operations that
//!          wrap in Rust carry an explicit `mod 2^w`); f64 either as an exact rational Q (`FloatMode::ExactQ`:
//!          + - * min max, comparisons) or as its IEEE bit pattern (`FloatMode::Bits`: only == / != through the
//!          target's comparison function, `to_bits`); `Instant` as a rational number of seconds, the clock
//!          (`Instant::now()`, `verif_clock::now()`) being the extra parameter `now`; `Result<T, _>` as option T.
//! Methods: `&mut self` methods become functions  self -> [args] -> [now] -> self' | (self' * ret);
//!          field assignments update a symbolic copy of the record; `self.m()` statements thread the state.
//! cfg:     statements / blocks under `#[cfg(<hook>)]` are translated twice (hook on and off) by the target
//!          and both readings must give the same Gallina text (the hook only swaps the clock source).
use crate::{fail, line_of, src_of, Res, TrError};
use std::collections::BTreeMap;
use syn::{BinOp, Expr, Lit, Pat, Stmt, UnOp};

#[derive(Clone, Copy, PartialEq, Debug)]
pub enum FloatMode {
    ExactQ,
    Bits,
}

#[derive(Clone, PartialEq, Debug)]
pub enum Ty {
    Bool,
    /// decidable proposition (sumbool) — only usable as an `if` condition
    Dec,
    /// unsigned integer of the given width; width 0 = untyped literal
    Int(u32),
    Float,
    Time,
    Dur,
    Unit,
    SelfTy,
    Opt(Box<Ty>),
}

#[derive(Clone, Debug)]
pub struct Tm {
    pub ty: Ty,
    pub s: String,
}

#[derive(Clone, Debug)]
pub struct Field {
    pub name: String,
    pub ty: Ty,
}

#[derive(Clone, Debug)]
pub enum SelfKind {
    /// no Self type in this target
    None,
    /// record with a Coq type name, constructor and one projection (prefix + field name) per field
    Record { ty_name: String, ctor: String, prefix: String, fields: Vec<Field> },
    /// tuple struct with one field: erased to the field's type
    Newtype(Ty),
}

pub struct Cfg {
    /// "N" or "Z"
    pub int_mod: &'static str,
    pub float_mode: FloatMode,
    pub self_kind: SelfKind,
    /// the cfg name of the verification hook, e.g. "kyrodb_verif"
    pub hook_cfg: &'static str,
    pub hook_on: bool,
    /// float equality on bit patterns (FloatMode::Bits)
    pub float_eq_fn: &'static str,
    /// signatures of sibling methods that may be called: name -> (takes &mut self, uses clock, param types, return type)
    pub methods: BTreeMap<String, MethodSig>,
}

#[derive(Clone, Debug)]
pub struct MethodSig {
    pub mut_self: bool,
    pub has_self: bool,
    pub uses_clock: bool,
    pub params: Vec<(String, Ty)>,
    pub ret: Ty,
    pub coq_name: String,
}

#[derive(Clone)]
struct State {
    var: String,
    over: BTreeMap<String, String>,
}

pub struct Pure<'a> {
    pub cfg: &'a Cfg,
    fresh: usize,
    cur_ret: Ty,
    cur_mut_self: bool,
    self_base: String,
}

pub fn paren(s: &str) -> String {
    if s.contains(' ') && !(s.starts_with('(') && s.ends_with(')') && balanced_outer(s)) {
        format!("({})", s)
    } else {
        s.to_string()
    }
}
fn balanced_outer(s: &str) -> bool {
    let mut depth = 0i32;
    for (i, c) in s.char_indices() {
        match c {
            '(' => depth += 1,
            ')' => {
                depth -= 1;
                if depth == 0 && i + 1 != s.len() {
                    return false;
                }
            }
            _ => {}
        }
    }
    true
}

pub fn ty_of_rust(t: &syn::Type, self_kind: &SelfKind) -> Option<Ty> {
    let s = src_of(t).replace(' ', "");
    Some(match s.as_str() {
        "bool" => Ty::Bool,
        "u8" => Ty::Int(8),
        "u16" => Ty::Int(16),
        "u32" => Ty::Int(32),
        "u64" => Ty::Int(64),
        "f64" => Ty::Float,
        "Instant" => Ty::Time,
        "Self" => match self_kind {
            SelfKind::Newtype(t) => t.clone(),
            SelfKind::Record { .. } => Ty::SelfTy,
            SelfKind::None => return None,
        },
        _ => {
            // Result<T, E>
            if let syn::Type::Path(tp) = t {
                let last = tp.path.segments.last()?;
                if last.ident == "Result" {
                    if let syn::PathArguments::AngleBracketed(ab) = &last.arguments {
                        if let Some(syn::GenericArgument::Type(inner)) = ab.args.first() {
                            return Some(Ty::Opt(Box::new(ty_of_rust(inner, self_kind)?)));
                        }
                    }
                }
            }
            return None;
        }
    })
}

pub fn coq_ty(t: &Ty, cfg: &Cfg) -> String {
    match t {
        Ty::Bool => "bool".into(),
        Ty::Int(_) => cfg.int_mod.into(),
        Ty::Float => match cfg.float_mode {
            FloatMode::ExactQ => "Q".into(),
            FloatMode::Bits => cfg.int_mod.into(),
        },
        Ty::Time | Ty::Dur => "Q".into(),
        Ty::Unit => "unit".into(),
        Ty::SelfTy => match &cfg.self_kind {
            SelfKind::Record { ty_name, .. } => ty_name.clone(),
            _ => "unit".into(),
        },
        Ty::Opt(t) => format!("option {}", coq_ty(t, cfg)),
        Ty::Dec => "bool".into(),
    }
}

/// does the function body (syntactically) read the clock?
pub fn reads_clock(block: &syn::Block) -> bool {
    let s = src_of(block);
    s.contains("Instant::now()") || s.contains("verif_clock::now()")
}

impl<'a> Pure<'a> {
    pub fn new(cfg: &'a Cfg) -> Self {
        Pure { cfg, fresh: 0, cur_ret: Ty::Unit, cur_mut_self: false, self_base: "b".into() }
    }

    fn num(&self, v: u128) -> String {
        format!("{}%{}", v, self.cfg.int_mod)
    }
    fn im(&self, f: &str) -> String {
        format!("{}.{}", self.cfg.int_mod, f)
    }

    // ------------------------------------------------------------ attributes
    /// Ok(true) = keep, Ok(false) = drop (cfg hook off)
    fn attrs_keep(&self, attrs: &[syn::Attribute]) -> Res<bool> {
        for a in attrs {
            let name = a.path().segments.last().map(|s| s.ident.to_string()).unwrap_or_default();
            match name.as_str() {
                "allow" | "inline" | "doc" | "must_use" => {}
                "cfg" => {
                    let txt = src_of(a).replace(' ', "");
                    if txt == format!("#[cfg({})]", self.cfg.hook_cfg) {
                        if !self.cfg.hook_on {
                            return Ok(false);
                        }
                    } else if txt == format!("#[cfg(not({}))]", self.cfg.hook_cfg) {
                        if self.cfg.hook_on {
                            return Ok(false);
                        }
                    } else {
                        return fail(a, "cfg attribute other than the verification hook");
                    }
                }
                _ => return fail(a, "attribute outside the translator's subset"),
            }
        }
        Ok(true)
    }

    // ------------------------------------------------------------ state
    fn fields(&self) -> &[Field] {
        match &self.cfg.self_kind {
            SelfKind::Record { fields, .. } => fields,
            _ => &[],
        }
    }
    fn read_field(&self, st: &State, f: &str) -> Option<Tm> {
        let fld = self.fields().iter().find(|x| x.name == f)?;
        let s = match st.over.get(f) {
            Some(t) => t.clone(),
            None => match &self.cfg.self_kind {
                SelfKind::Record { prefix, .. } => format!("({}{} {})", prefix, f, st.var),
                _ => return None,
            },
        };
        Some(Tm { ty: fld.ty.clone(), s })
    }
    fn materialize(&self, st: &State) -> String {
        if st.over.is_empty() {
            return st.var.clone();
        }
        match &self.cfg.self_kind {
            SelfKind::Record { ctor, fields, .. } => {
                let parts: Vec<String> = fields.iter().map(|f| paren(&self.read_field(st, &f.name).unwrap().s)).collect();
                format!("({} {})", ctor, parts.join(" "))
            }
            _ => st.var.clone(),
        }
    }
    fn fresh_state(&mut self) -> String {
        self.fresh += 1;
        format!("{}{}", self.self_base, self.fresh)
    }

    // ------------------------------------------------------------ literals
    fn float_lit<T: syn::spanned::Spanned + quote::ToTokens>(&self, text: &str, at: &T) -> Res<Tm> {
        let clean = text.replace('_', "");
        match self.cfg.float_mode {
            FloatMode::Bits => {
                let v: f64 = clean.parse().map_err(|_| TrError { line: line_of(at), construct: src_of(at), msg: "float literal".into() })?;
                Ok(Tm { ty: Ty::Float, s: self.num(v.to_bits() as u128) })
            }
            FloatMode::ExactQ => {
                if clean.contains('e') || clean.contains('E') {
                    return fail(at, "float literal with an exponent");
                }
                let (ip, fp) = match clean.split_once('.') {
                    Some((a, b)) => (a.to_string(), b.to_string()),
                    None => (clean.clone(), String::new()),
                };
                let digits = format!("{}{}", ip, fp);
                let mut num: u128 = digits.parse().map_err(|_| TrError { line: line_of(at), construct: src_of(at), msg: "float literal".into() })?;
                let mut den: u128 = 10u128.pow(fp.len() as u32);
                fn gcd(a: u128, b: u128) -> u128 { if b == 0 { a } else { gcd(b, a % b) } }
                let g = gcd(num, den).max(1);
                num /= g;
                den /= g;
                Ok(Tm { ty: Ty::Float, s: format!("({} # {})", num, den) })
            }
        }
    }

    fn unify_int<T: syn::spanned::Spanned + quote::ToTokens>(&self, a: &Tm, b: &Tm, at: &T) -> Res<u32> {
        match (&a.ty, &b.ty) {
            (Ty::Int(x), Ty::Int(y)) if x == y && *x != 0 => Ok(*x),
            (Ty::Int(0), Ty::Int(y)) if *y != 0 => Ok(*y),
            (Ty::Int(x), Ty::Int(0)) if *x != 0 => Ok(*x),
            (Ty::Int(0), Ty::Int(0)) => fail(at, "operation between two untyped integer literals"),
            _ => fail(at, "integer operands of different widths"),
        }
    }

    // ------------------------------------------------------------ expressions
    fn eval(&mut self, e: &Expr, env: &BTreeMap<String, Tm>, st: &State) -> Res<Tm> {
        match e {
            Expr::Paren(p) => self.eval(&p.expr, env, st),
            Expr::Group(g) => self.eval(&g.expr, env, st),
            Expr::Reference(r) if r.mutability.is_none() => self.eval(&r.expr, env, st),
            Expr::Lit(l) => match &l.lit {
                Lit::Bool(b) => Ok(Tm { ty: Ty::Bool, s: if b.value { "true".into() } else { "false".into() } }),
                Lit::Int(i) => {
                    let v: u128 = i.base10_parse().map_err(|_| TrError { line: line_of(e), construct: src_of(e), msg: "integer literal out of range".into() })?;
                    let w = match i.suffix() {
                        "" => 0,
                        "u8" => 8,
                        "u16" => 16,
                        "u32" => 32,
                        "u64" => 64,
                        _ => return fail(e, "integer literal suffix outside the subset"),
                    };
                    if w != 0 && v >= (1u128 << w) {
                        return fail(e, "integer literal does not fit its type");
                    }
                    Ok(Tm { ty: Ty::Int(w), s: self.num(v) })
                }
                Lit::Float(f) => {
                    if !(f.suffix().is_empty() || f.suffix() == "f64") {
                        return fail(e, "float literal that is not f64");
                    }
                    self.float_lit(f.base10_digits(), e)
                }
                _ => fail(e, "literal outside the subset"),
            },
            Expr::Path(p) => {
                let segs: Vec<String> = p.path.segments.iter().map(|s| s.ident.to_string()).collect();
                if segs.len() == 1 {
                    if let Some(t) = env.get(&segs[0]) {
                        return Ok(t.clone());
                    }
                    return fail(e, "unknown variable");
                }
                if segs.len() == 2 && segs[1] == "MAX" {
                    let w = match segs[0].as_str() {
                        "u8" => 8,
                        "u16" => 16,
                        "u32" => 32,
                        "u64" => 64,
                        _ => return fail(e, "MAX of a type outside the subset"),
                    };
                    return Ok(Tm { ty: Ty::Int(w), s: self.num((1u128 << w) - 1) });
                }
                fail(e, "path expression outside the subset")
            }
            Expr::Field(f) => {
                if let (Expr::Path(p), syn::Member::Named(id)) = (&*f.base, &f.member) {
                    if p.path.is_ident("self") {
                        return match self.read_field(st, &id.to_string()) {
                            Some(t) => Ok(t),
                            None => fail(e, "unknown field of self"),
                        };
                    }
                }
                fail(e, "field access other than self.<field>")
            }
            Expr::Cast(c) => {
                let v = self.eval(&c.expr, env, st)?;
                let target = src_of(&*c.ty).replace(' ', "");
                match (&v.ty, target.as_str()) {
                    (Ty::Int(w), "u8" | "u16" | "u32" | "u64") => {
                        let w2: u32 = target[1..].parse().unwrap();
                        if *w == 0 || w2 >= *w {
                            Ok(Tm { ty: Ty::Int(w2), s: v.s })
                        } else {
                            // truncating cast
                            Ok(Tm { ty: Ty::Int(w2), s: format!("({} {} {})", self.im("modulo"), paren(&v.s), self.num(1u128 << w2)) })
                        }
                    }
                    (Ty::Int(_), "f64") if self.cfg.float_mode == FloatMode::ExactQ => {
                        let z = if self.cfg.int_mod == "N" { format!("(Z.of_N {})", paren(&v.s)) } else { paren(&v.s) };
                        Ok(Tm { ty: Ty::Float, s: format!("(inject_Z {})", z) })
                    }
                    _ => fail(e, "cast outside the subset"),
                }
            }
            Expr::Unary(u) => {
                let v = self.eval(&u.expr, env, st)?;
                match (&u.op, &v.ty) {
                    (UnOp::Not(_), Ty::Bool) => Ok(Tm { ty: Ty::Bool, s: format!("(negb {})", paren(&v.s)) }),
                    (UnOp::Not(_), Ty::Int(w)) if *w != 0 => {
                        // bitwise complement within w bits
                        let s = if self.cfg.int_mod == "N" {
                            format!("(N.lnot {} {})", paren(&v.s), self.num(*w as u128))
                        } else {
                            format!("(Z.modulo (Z.lnot {}) {})", paren(&v.s), self.num(1u128 << w))
                        };
                        Ok(Tm { ty: v.ty.clone(), s })
                    }
                    (UnOp::Deref(_), _) => Ok(v),
                    _ => fail(e, "unary operator outside the subset"),
                }
            }
            Expr::Binary(b) => self.eval_binary(b, e, env, st),
            Expr::If(ifx) => {
                let c = self.eval_cond(&ifx.cond, env, st)?;
                let t = self.eval_block_expr(&ifx.then_branch, env, st)?;
                let el = match &ifx.else_branch {
                    Some((_, x)) => match &**x {
                        Expr::Block(bl) => self.eval_block_expr(&bl.block, env, st)?,
                        other => self.eval(other, env, st)?,
                    },
                    None => return fail(e, "`if` expression without else"),
                };
                if t.ty != el.ty && !matches!((&t.ty, &el.ty), (Ty::Int(_), Ty::Int(_))) {
                    return fail(e, "branches of different types");
                }
                Ok(Tm { ty: t.ty.clone(), s: format!("(if {} then {} else {})", c.s, t.s, el.s) })
            }
            Expr::Block(bl) if bl.label.is_none() => {
                if !self.attrs_keep(&bl.attrs)? {
                    return fail(e, "block expression removed by cfg");
                }
                self.eval_block_expr(&bl.block, env, st)
            }
            Expr::Struct(sx) => {
                self.attrs_keep(&sx.attrs)?;
                if !sx.path.is_ident("Self") || sx.rest.is_some() {
                    return fail(e, "struct literal other than Self { .. }");
                }
                let (ctor, fields) = match &self.cfg.self_kind {
                    SelfKind::Record { ctor, fields, .. } => (ctor.clone(), fields.clone()),
                    _ => return fail(e, "Self literal but the target has no record"),
                };
                let mut vals: BTreeMap<String, Tm> = BTreeMap::new();
                for fv in &sx.fields {
                    let name = match &fv.member {
                        syn::Member::Named(id) => id.to_string(),
                        _ => return fail(e, "positional field"),
                    };
                    let v = self.eval(&fv.expr, env, st)?;
                    vals.insert(name, v);
                }
                let mut parts = vec![];
                for f in &fields {
                    match vals.remove(&f.name) {
                        Some(v) => {
                            let ok = v.ty == f.ty || matches!((&v.ty, &f.ty), (Ty::Int(0), Ty::Int(_)));
                            if !ok {
                                return fail(e, &format!("field {} has the wrong type", f.name));
                            }
                            parts.push(paren(&v.s));
                        }
                        None => return fail(e, &format!("field {} missing in Self literal", f.name)),
                    }
                }
                if !vals.is_empty() {
                    return fail(e, "unknown field in Self literal");
                }
                Ok(Tm { ty: Ty::SelfTy, s: format!("({} {})", ctor, parts.join(" ")) })
            }
            Expr::Call(c) => {
                let fname = match &*c.func {
                    Expr::Path(p) => p.path.segments.iter().map(|s| s.ident.to_string()).collect::<Vec<_>>().join("::"),
                    _ => return fail(e, "call of a computed function"),
                };
                match fname.as_str() {
                    "Instant::now" | "verif_clock::now" if c.args.is_empty() => Ok(Tm { ty: Ty::Time, s: "now".into() }),
                    "Ok" if c.args.len() == 1 => {
                        let v = self.eval(&c.args[0], env, st)?;
                        Ok(Tm { ty: Ty::Opt(Box::new(v.ty.clone())), s: format!("(Some {})", paren(&v.s)) })
                    }
                    "Err" if c.args.len() == 1 => {
                        self.scan_error_value(&c.args[0])?;
                        let inner = match &self.cur_ret {
                            Ty::Opt(t) => (**t).clone(),
                            _ => return fail(e, "Err(..) in a function that does not return Result"),
                        };
                        Ok(Tm { ty: Ty::Opt(Box::new(inner)), s: "None".into() })
                    }
                    "Self" if c.args.len() == 1 => match &self.cfg.self_kind {
                        SelfKind::Newtype(t) => {
                            let v = self.eval(&c.args[0], env, st)?;
                            if &v.ty != t {
                                return fail(e, "Self(..) applied to a value of the wrong type");
                            }
                            Ok(v)
                        }
                        _ => fail(e, "Self(..) but Self is not a one-field tuple struct"),
                    },
                    _ => fail(e, "call of a function outside the subset"),
                }
            }
            Expr::MethodCall(m) => {
                // self.method(args) of a sibling, non-mutating
                if let Expr::Path(p) = &*m.receiver {
                    if p.path.is_ident("self") {
                        return fail(e, "method call on self in expression position (only `self.m();` statements are in the subset)");
                    }
                }
                let recv = self.eval(&m.receiver, env, st)?;
                let name = m.method.to_string();
                let mut args = vec![];
                for a in &m.args {
                    args.push(self.eval(a, env, st)?);
                }
                match (&recv.ty, name.as_str(), args.len(), self.cfg.float_mode) {
                    (Ty::Float, "min", 1, FloatMode::ExactQ) if args[0].ty == Ty::Float => Ok(Tm { ty: Ty::Float, s: format!("(Qmin {} {})", paren(&recv.s), paren(&args[0].s)) }),
                    (Ty::Float, "max", 1, FloatMode::ExactQ) if args[0].ty == Ty::Float => Ok(Tm { ty: Ty::Float, s: format!("(Qmax {} {})", paren(&recv.s), paren(&args[0].s)) }),
                    (Ty::Float, "to_bits", 0, FloatMode::Bits) => Ok(Tm { ty: Ty::Int(64), s: recv.s }),
                    (Ty::Time, "duration_since", 1, _) if args[0].ty == Ty::Time => Ok(Tm { ty: Ty::Dur, s: format!("({} - {})", paren(&recv.s), paren(&args[0].s)) }),
                    (Ty::Dur, "as_secs_f64", 0, FloatMode::ExactQ) => Ok(Tm { ty: Ty::Float, s: recv.s }),
                    _ => fail(e, "method outside the subset for this receiver type"),
                }
            }
            Expr::Try(_) => fail(e, "`?` operator"),
            Expr::Return(_) => fail(e, "`return` inside an expression"),
            Expr::Closure(_) => fail(e, "closure"),
            Expr::Match(_) => fail(e, "`match` expression"),
            Expr::Assign(_) => fail(e, "assignment inside an expression"),
            Expr::Macro(_) => fail(e, "macro in expression position"),
            Expr::Unsafe(_) => fail(e, "unsafe block"),
            Expr::Loop(_) | Expr::While(_) | Expr::ForLoop(_) => fail(e, "loop"),
            _ => fail(e, "expression form outside the translator's subset"),
        }
    }

    /// the payload of Err(..): it never reaches the model (Result is read as option), but it must not
    /// hide control flow: calls / paths / literals only
    fn scan_error_value(&self, e: &Expr) -> Res<()> {
        match e {
            Expr::Lit(_) | Expr::Path(_) => Ok(()),
            Expr::Call(c) => {
                for a in &c.args {
                    self.scan_error_value(a)?;
                }
                Ok(())
            }
            Expr::Paren(p) => self.scan_error_value(&p.expr),
            Expr::Reference(r) => self.scan_error_value(&r.expr),
            Expr::Macro(m) => {
                let n = m.mac.path.segments.last().map(|s| s.ident.to_string()).unwrap_or_default();
                if n == "format" { Ok(()) } else { fail(e, "macro in an error value") }
            }
            _ => fail(e, "error value outside the subset"),
        }
    }

    fn eval_block_expr(&mut self, b: &syn::Block, env: &BTreeMap<String, Tm>, st: &State) -> Res<Tm> {
        let mut env = env.clone();
        let mut lets: Vec<(String, String)> = vec![];
        let n = b.stmts.len();
        for (i, s) in b.stmts.iter().enumerate() {
            match s {
                Stmt::Local(l) => {
                    if !self.attrs_keep(&l.attrs)? {
                        continue;
                    }
                    let (name, v) = self.eval_let(l, &env, st)?;
                    if let Some(name) = name {
                        if v.s != name {
                            lets.push((name.clone(), v.s.clone()));
                        }
                        env.insert(name.clone(), Tm { ty: v.ty, s: name });
                    }
                }
                Stmt::Expr(e, None) if i + 1 == n => {
                    let v = self.eval(e, &env, st)?;
                    let mut s = v.s;
                    for (nme, t) in lets.iter().rev() {
                        s = format!("(let {} := {} in {})", nme, t, s);
                    }
                    return Ok(Tm { ty: v.ty, s });
                }
                other => return fail(other, "statement inside a block expression (only `let` and a tail expression are in the subset)"),
            }
        }
        fail(b, "block expression without a tail expression")
    }

    fn eval_let(&mut self, l: &syn::Local, env: &BTreeMap<String, Tm>, st: &State) -> Res<(Option<String>, Tm)> {
        let name = match &l.pat {
            Pat::Ident(id) if id.by_ref.is_none() && id.subpat.is_none() => Some(id.ident.to_string()),
            Pat::Wild(_) => None,
            Pat::Type(pt) => match &*pt.pat {
                Pat::Ident(id) if id.by_ref.is_none() && id.subpat.is_none() => Some(id.ident.to_string()),
                _ => return fail(&l.pat, "`let` with a destructuring pattern"),
            },
            _ => return fail(&l.pat, "`let` with a destructuring pattern"),
        };
        let init = match &l.init {
            Some(i) if i.diverge.is_none() => &i.expr,
            _ => return fail(l, "`let` without initialiser / with else"),
        };
        let v = self.eval(init, env, st)?;
        if let Some(n) = &name {
            if ["if", "then", "else", "let", "in", "fun", "match", "with", "end", "forall", "exists", "at", "as"].contains(&n.as_str()) {
                return fail(l, "local name is a Gallina keyword");
            }
        }
        Ok((name, v))
    }

    fn eval_cond(&mut self, c: &Expr, env: &BTreeMap<String, Tm>, st: &State) -> Res<Tm> {
        let v = self.eval(c, env, st)?;
        match v.ty {
            Ty::Bool | Ty::Dec => Ok(v),
            _ => fail(c, "condition is not a boolean"),
        }
    }

    fn eval_binary(&mut self, b: &syn::ExprBinary, e: &Expr, env: &BTreeMap<String, Tm>, st: &State) -> Res<Tm> {
        let l = self.eval(&b.left, env, st)?;
        let r = self.eval(&b.right, env, st)?;
        let (ls, rs) = (paren(&l.s), paren(&r.s));
        match (&l.ty, &r.ty) {
            (Ty::Bool, Ty::Bool) => match b.op {
                BinOp::And(_) => Ok(Tm { ty: Ty::Bool, s: format!("(andb {} {})", ls, rs) }),
                BinOp::Or(_) => Ok(Tm { ty: Ty::Bool, s: format!("(orb {} {})", ls, rs) }),
                BinOp::Eq(_) => Ok(Tm { ty: Ty::Bool, s: format!("(Bool.eqb {} {})", ls, rs) }),
                _ => fail(e, "boolean operator outside the subset"),
            },
            (Ty::Int(_), Ty::Int(_)) => {
                match b.op {
                    BinOp::Shl(_) | BinOp::Shr(_) => {
                        let w = match l.ty {
                            Ty::Int(w) if w != 0 => w,
                            _ => return fail(e, "shift of an untyped literal"),
                        };
                        // shift amount must be a literal below the width (otherwise Rust panics / masks)
                        let k: u128 = match &*b.right {
                            Expr::Lit(syn::ExprLit { lit: Lit::Int(i), .. }) => i.base10_parse().unwrap_or(u128::MAX),
                            _ => return fail(e, "shift by a non-literal amount"),
                        };
                        if k >= w as u128 {
                            return fail(e, "shift amount not below the bit width");
                        }
                        return Ok(match b.op {
                            BinOp::Shl(_) => Tm { ty: l.ty.clone(), s: format!("({} ({} {} {}) {})", self.im("modulo"), self.im("shiftl"), ls, self.num(k), self.num(1u128 << w)) },
                            _ => Tm { ty: l.ty.clone(), s: format!("({} {} {})", self.im("shiftr"), ls, self.num(k)) },
                        });
                    }
                    _ => {}
                }
                let w = self.unify_int(&l, &r, e)?;
                let bit = |f: &str| Ok(Tm { ty: Ty::Int(w), s: format!("({} {} {})", self.im(f), ls, rs) });
                let cmp = |f: &str, a: &str, c: &str| Ok(Tm { ty: Ty::Bool, s: format!("({} {} {})", self.im(f), a, c) });
                match b.op {
                    BinOp::BitOr(_) => bit("lor"),
                    BinOp::BitAnd(_) => bit("land"),
                    BinOp::BitXor(_) => bit("lxor"),
                    BinOp::Eq(_) => cmp("eqb", &ls, &rs),
                    BinOp::Ne(_) => Ok(Tm { ty: Ty::Bool, s: format!("(negb ({} {} {}))", self.im("eqb"), ls, rs) }),
                    BinOp::Lt(_) => cmp("ltb", &ls, &rs),
                    BinOp::Le(_) => cmp("leb", &ls, &rs),
                    BinOp::Gt(_) => cmp("ltb", &rs, &ls),
                    BinOp::Ge(_) => cmp("leb", &rs, &ls),
                    _ => fail(e, "integer arithmetic that can overflow is outside the subset"),
                }
            }
            (Ty::Float, Ty::Float) => match self.cfg.float_mode {
                FloatMode::ExactQ => match b.op {
                    BinOp::Add(_) => Ok(Tm { ty: Ty::Float, s: format!("({} + {})", ls, rs) }),
                    BinOp::Sub(_) => Ok(Tm { ty: Ty::Float, s: format!("({} - {})", ls, rs) }),
                    BinOp::Mul(_) => Ok(Tm { ty: Ty::Float, s: format!("({} * {})", ls, rs) }),
                    BinOp::Gt(_) => Ok(Tm { ty: Ty::Dec, s: format!("Qlt_le_dec {} {}", rs, ls) }),
                    BinOp::Lt(_) => Ok(Tm { ty: Ty::Dec, s: format!("Qlt_le_dec {} {}", ls, rs) }),
                    BinOp::Ge(_) => Ok(Tm { ty: Ty::Bool, s: format!("(Qle_bool {} {})", rs, ls) }),
                    BinOp::Le(_) => Ok(Tm { ty: Ty::Bool, s: format!("(Qle_bool {} {})", ls, rs) }),
                    BinOp::Eq(_) => Ok(Tm { ty: Ty::Bool, s: format!("(Qeq_bool {} {})", ls, rs) }),
                    _ => fail(e, "float operator outside the subset"),
                },
                FloatMode::Bits => match b.op {
                    BinOp::Eq(_) => Ok(Tm { ty: Ty::Bool, s: format!("({} {} {})", self.cfg.float_eq_fn, ls, rs) }),
                    BinOp::Ne(_) => Ok(Tm { ty: Ty::Bool, s: format!("(negb ({} {} {}))", self.cfg.float_eq_fn, ls, rs) }),
                    _ => fail(e, "float operator outside the subset (bit-pattern mode knows only == and !=)"),
                },
            },
            _ => fail(e, "operands of different or unsupported types"),
        }
    }

    // ------------------------------------------------------------ statements
    fn finish(&self, st: &State, v: Option<Tm>, at_line: usize) -> Res<String> {
        let state = self.materialize(st);
        match (&self.cur_ret, v, self.cur_mut_self) {
            (Ty::Unit, None, true) => Ok(state),
            (Ty::Unit, None, false) => Ok("tt".into()),
            (rt, Some(v), m) => {
                let ok = &v.ty == rt
                    || matches!((&v.ty, rt), (Ty::Int(0), Ty::Int(_)))
                    || matches!((&v.ty, rt), (Ty::Opt(a), Ty::Opt(b)) if a == b || matches!((&**a, &**b), (Ty::Int(0), Ty::Int(_))));
                if !ok {
                    return Err(TrError { line: at_line, construct: v.s, msg: format!("returned value has type {:?} but the function returns {:?}", v.ty, rt) });
                }
                if m { Ok(format!("({}, {})", state, v.s)) } else { Ok(v.s) }
            }
            (_, None, _) => Err(TrError { line: at_line, construct: "end of block".into(), msg: "the function falls off its end without a value".into() }),
        }
    }

    fn block_diverges(b: &syn::Block) -> bool {
        matches!(b.stmts.last(), Some(Stmt::Expr(Expr::Return(_), _)))
    }
    fn has_return(b: &syn::Block) -> bool {
        struct V(bool);
        impl<'ast> syn::visit::Visit<'ast> for V {
            fn visit_expr_return(&mut self, _r: &'ast syn::ExprReturn) {
                self.0 = true;
            }
        }
        let mut v = V(false);
        syn::visit::visit_block(&mut v, b);
        v.0
    }

    /// Translate statements i.. of a function body (tail position): the Gallina term of the result.
    fn tr_from(&mut self, stmts: &[Stmt], i: usize, env: BTreeMap<String, Tm>, st: State) -> Res<String> {
        if i >= stmts.len() {
            return self.finish(&st, None, 0);
        }
        let last = i + 1 == stmts.len();
        match &stmts[i] {
            Stmt::Local(l) => {
                if !self.attrs_keep(&l.attrs)? {
                    return self.tr_from(stmts, i + 1, env, st);
                }
                let (name, v) = self.eval_let(l, &env, &st)?;
                let mut env = env;
                match name {
                    None => self.tr_from(stmts, i + 1, env, st),
                    Some(n) => {
                        let same = v.s == n;
                        env.insert(n.clone(), Tm { ty: v.ty.clone(), s: n.clone() });
                        let rest = self.tr_from(stmts, i + 1, env, st)?;
                        if same { Ok(rest) } else { Ok(format!("let {} := {} in\n  {}", n, v.s, rest)) }
                    }
                }
            }
            Stmt::Expr(e, semi) => match e {
                Expr::Return(r) => {
                    let v = match &r.expr {
                        Some(x) => Some(self.eval(x, &env, &st)?),
                        None => None,
                    };
                    self.finish(&st, v, line_of(e))
                }
                Expr::Block(bl) if bl.label.is_none() => {
                    if !self.attrs_keep(&bl.attrs)? {
                        return self.tr_from(stmts, i + 1, env, st);
                    }
                    if bl.block.stmts.iter().any(|s| matches!(s, Stmt::Local(_))) {
                        return fail(e, "block statement with its own `let` bindings");
                    }
                    if Self::block_diverges(&bl.block) {
                        return self.tr_from(&bl.block.stmts, 0, env, st);
                    }
                    let mut joined: Vec<Stmt> = bl.block.stmts.clone();
                    joined.extend_from_slice(&stmts[i + 1..]);
                    self.tr_from(&joined, 0, env, st)
                }
                Expr::Assign(a) => {
                    let f = self.assigned_field(&a.left)?;
                    let v = self.eval(&a.right, &env, &st)?;
                    let st2 = self.set_field(st, &f, v, e)?;
                    self.tr_from(stmts, i + 1, env, st2)
                }
                Expr::Binary(b) if matches!(b.op, BinOp::AddAssign(_) | BinOp::SubAssign(_) | BinOp::MulAssign(_)) => {
                    let f = self.assigned_field(&b.left)?;
                    let cur = self.read_field(&st, &f).unwrap();
                    let rhs = self.eval(&b.right, &env, &st)?;
                    if cur.ty != Ty::Float || rhs.ty != Ty::Float || self.cfg.float_mode != FloatMode::ExactQ {
                        return fail(e, "compound assignment outside the subset (exact-rational floats only)");
                    }
                    let op = match b.op {
                        BinOp::AddAssign(_) => "+",
                        BinOp::SubAssign(_) => "-",
                        _ => "*",
                    };
                    let v = Tm { ty: Ty::Float, s: format!("({} {} {})", paren(&cur.s), op, paren(&rhs.s)) };
                    let st2 = self.set_field(st, &f, v, e)?;
                    self.tr_from(stmts, i + 1, env, st2)
                }
                Expr::MethodCall(m) if semi.is_some() && matches!(&*m.receiver, Expr::Path(p) if p.path.is_ident("self")) => {
                    let sig = match self.cfg.methods.get(&m.method.to_string()) {
                        Some(s) => s.clone(),
                        None => return fail(e, "call of a method that is not part of the translated set"),
                    };
                    if !(sig.mut_self && sig.ret == Ty::Unit) || !self.cur_mut_self {
                        return fail(e, "only `self.m(..);` calls of unit-returning &mut self methods are in the subset");
                    }
                    let mut args = vec![paren(&self.materialize(&st))];
                    if m.args.len() != sig.params.len() {
                        return fail(e, "wrong number of arguments");
                    }
                    for (a, (_, pt)) in m.args.iter().zip(sig.params.iter()) {
                        let v = self.eval(a, &env, &st)?;
                        if &v.ty != pt && !matches!((&v.ty, pt), (Ty::Int(0), Ty::Int(_))) {
                            return fail(a, "argument of the wrong type");
                        }
                        args.push(paren(&v.s));
                    }
                    if sig.uses_clock {
                        args.push("now".into());
                    }
                    let nv = self.fresh_state();
                    let rest = self.tr_from(stmts, i + 1, env, State { var: nv.clone(), over: BTreeMap::new() })?;
                    Ok(format!("let {} := {} {} in\n  {}", nv, sig.coq_name, args.join(" "), rest))
                }
                Expr::If(ifx) => {
                    self.attrs_keep(&ifx.attrs)?;
                    let c = self.eval_cond(&ifx.cond, &env, &st)?;
                    let else_block: Option<&syn::Block> = match &ifx.else_branch {
                        None => None,
                        Some((_, x)) => match &**x {
                            Expr::Block(bl) => Some(&bl.block),
                            other => return fail(other, "`else if` chains are outside the subset"),
                        },
                    };
                    let tail_value = last && semi.is_none() && self.cur_ret != Ty::Unit;
                    if tail_value {
                        // `if c { ..; v } else { ..; w }` as the function's value
                        let eb = match else_block {
                            Some(b) => b,
                            None => return fail(e, "value-producing `if` without else"),
                        };
                        let t = self.tr_from(&ifx.then_branch.stmts, 0, env.clone(), st.clone())?;
                        let el = self.tr_from(&eb.stmts, 0, env, st)?;
                        return Ok(format!("if {}\n  then {}\n  else {}", c.s, t, el));
                    }
                    let then_ret = Self::has_return(&ifx.then_branch);
                    let else_ret = else_block.map_or(false, Self::has_return);
                    if then_ret || else_ret {
                        // early exit: only `if c { …; return v; }` without else
                        if !(Self::block_diverges(&ifx.then_branch) && else_block.is_none()) {
                            return fail(e, "early return in a shape other than `if c { …; return v; }`");
                        }
                        let t = self.tr_from(&ifx.then_branch.stmts, 0, env.clone(), st.clone())?;
                        let rest = self.tr_from(stmts, i + 1, env, st)?;
                        return Ok(format!("if {}\n  then {}\n  else {}", c.s, t, rest));
                    }
                    // state-updating branches, then continue with the merged state
                    let st_t = self.tr_state_block(&ifx.then_branch, &env, st.clone())?;
                    let st_e = match else_block {
                        Some(b) => self.tr_state_block(b, &env, st.clone())?,
                        None => st.clone(),
                    };
                    let merged = format!("(if {} then {} else {})", c.s, self.materialize(&st_t), self.materialize(&st_e));
                    let nv = self.fresh_state();
                    let rest = self.tr_from(stmts, i + 1, env, State { var: nv.clone(), over: BTreeMap::new() })?;
                    Ok(format!("let {} := {} in\n  {}", nv, merged, rest))
                }
                other if last && semi.is_none() => {
                    let v = self.eval(other, &env, &st)?;
                    self.finish(&st, Some(v), line_of(other))
                }
                other => fail(other, "statement form outside the translator's subset"),
            },
            Stmt::Macro(m) => fail(m, "statement macro outside the translator's subset"),
            Stmt::Item(it) => fail(it, "nested item"),
        }
    }

    /// a block made only of field assignments / lets / nested state-updating ifs: the state after it
    fn tr_state_block(&mut self, b: &syn::Block, env: &BTreeMap<String, Tm>, mut st: State) -> Res<State> {
        let mut env = env.clone();
        for s in &b.stmts {
            match s {
                Stmt::Local(l) => {
                    if !self.attrs_keep(&l.attrs)? {
                        continue;
                    }
                    let (name, v) = self.eval_let(l, &env, &st)?;
                    if let Some(n) = name {
                        // inline (no sharing needed for correctness: expressions are pure)
                        env.insert(n, v);
                    }
                }
                Stmt::Expr(Expr::Assign(a), Some(_)) => {
                    let f = self.assigned_field(&a.left)?;
                    let v = self.eval(&a.right, &env, &st)?;
                    st = self.set_field(st, &f, v, s)?;
                }
                other => return fail(other, "statement inside a state-updating branch outside the subset (only `let` and `self.f = e;`)"),
            }
        }
        Ok(st)
    }

    fn assigned_field(&self, lhs: &Expr) -> Res<String> {
        if let Expr::Field(f) = lhs {
            if let (Expr::Path(p), syn::Member::Named(id)) = (&*f.base, &f.member) {
                if p.path.is_ident("self") && self.cur_mut_self {
                    return Ok(id.to_string());
                }
            }
        }
        fail(lhs, "assignment to something other than a field of `&mut self`")
    }
    fn set_field<T: syn::spanned::Spanned + quote::ToTokens>(&self, mut st: State, f: &str, v: Tm, at: &T) -> Res<State> {
        let fld = match self.fields().iter().find(|x| x.name == f) {
            Some(x) => x,
            None => return fail(at, "assignment to an unknown field"),
        };
        if fld.ty != v.ty && !matches!((&v.ty, &fld.ty), (Ty::Int(0), Ty::Int(_))) {
            return fail(at, "assigned value has the wrong type");
        }
        st.over.insert(f.to_string(), v.s);
        Ok(st)
    }

    // ------------------------------------------------------------ functions
    /// Translate one function; returns (signature text, body text).
    pub fn translate_fn(&mut self, sig: &syn::Signature, block: &syn::Block, msig: &MethodSig) -> Res<String> {
        self.fresh = 0;
        self.cur_ret = msig.ret.clone();
        self.cur_mut_self = msig.mut_self;
        let mut env: BTreeMap<String, Tm> = BTreeMap::new();
        let mut binders: Vec<String> = vec![];
        if msig.has_self {
            binders.push(format!("({} : {})", self.self_base, coq_ty(&Ty::SelfTy, self.cfg)));
        }
        for (n, t) in &msig.params {
            env.insert(n.clone(), Tm { ty: t.clone(), s: n.clone() });
            binders.push(format!("({} : {})", n, coq_ty(t, self.cfg)));
        }
        if msig.uses_clock {
            binders.push("(now : Q)".into());
        }
        let _ = sig;
        let st = State { var: self.self_base.clone(), over: BTreeMap::new() };
        let body = self.tr_from(&block.stmts, 0, env, st)?;
        let rty = match (&msig.ret, msig.mut_self) {
            (Ty::Unit, true) => coq_ty(&Ty::SelfTy, self.cfg),
            (t, true) => format!("{} * {}", coq_ty(&Ty::SelfTy, self.cfg), coq_ty(t, self.cfg)),
            (t, false) => coq_ty(t, self.cfg),
        };
        Ok(format!("Definition {} {} : {} :=\n  {}.\n", msig.coq_name, binders.join(" "), rty, body))
    }
}

/// Build the MethodSig of a function from its Rust signature.
pub fn method_sig(f_sig: &syn::Signature, block: &syn::Block, self_kind: &SelfKind, coq_name: &str) -> Result<MethodSig, TrError> {
    let mut has_self = false;
    let mut mut_self = false;
    let mut params = vec![];
    for inp in &f_sig.inputs {
        match inp {
            syn::FnArg::Receiver(r) => {
                if r.reference.is_none() {
                    return fail(r, "method taking self by value");
                }
                has_self = true;
                mut_self = r.mutability.is_some();
            }
            syn::FnArg::Typed(pt) => {
                let name = match &*pt.pat {
                    Pat::Ident(id) => id.ident.to_string(),
                    _ => return fail(pt, "parameter pattern"),
                };
                let ty = match ty_of_rust(&pt.ty, self_kind) {
                    Some(t) => t,
                    None => return fail(&*pt.ty, "parameter type outside the subset"),
                };
                params.push((name, ty));
            }
        }
    }
    let ret = match &f_sig.output {
        syn::ReturnType::Default => Ty::Unit,
        syn::ReturnType::Type(_, t) => match ty_of_rust(t, self_kind) {
            Some(t) => t,
            None => return fail(&**t, "return type outside the subset"),
        },
    };
    if f_sig.asyncness.is_some() || f_sig.unsafety.is_some() || !f_sig.generics.params.is_empty() {
        return fail(f_sig, "async / unsafe / generic function");
    }
    Ok(MethodSig { mut_self, has_self, uses_clock: reads_clock(block), params, ret, coq_name: coq_name.to_string() })
}
