//! Target "config": `KyroDbConfig::validate` (engine/src/config.rs) -> coq/gen/Config_gen.v  (C18)
//!
//! Model inputs (fields of the Coq record `safety_cfg`) and the Rust expressions they stand for:
//!   env               : env_t              class of the *normalised* `self.environment.environment_type`
//!                                          (the normalisation itself is discovered from the code and emitted
//!                                          as `env_normalise`)
//!   fsync             : fsync_t            self.persistence.fsync_policy            (enum FsyncPolicy)
//!   snapshot_interval : snap_t             self.persistence.snapshot_interval_mutations  (u64; zero / positive)
//!   recovery          : recovery_t         self.persistence.recovery_mode           (enum RecoveryMode)
//!   strategy          : cache_strategy_t   self.cache.strategy                      (enum CacheStrategy)
//!   auth              : bool               self.auth.enabled
//!   rate_limit        : bool               self.rate_limit.enabled
//!   obs_auth          : obs_auth_t         self.server.observability_auth           (enum ObservabilityAuthMode)
//!   fresh_start       : bool               self.persistence.allow_fresh_start_on_recovery_failure
//!   tls               : bool               self.server.tls.enabled
//!   grpc_loopback     : bool               is_loopback_host(&self.server.host)            (input predicate)
//!   http_host_set     : bool               self.server.http_host.is_some()
//!   http_loopback     : bool               is_loopback_host(h) for self.server.http_host = Some(h)
use crate::*;
use serde_json::json;

pub struct Outcome {
    pub coq: String,
    pub report: serde_json::Value,
}

const RESERVED: [&str; 14] = [
    "None", "Some", "True", "False", "O", "S", "Set", "Prop", "Type", "nil", "cons", "pair", "N0", "Npos",
];

struct AtomSpec {
    path: &'static [&'static str],
    field: &'static str,
    kind: AtomKind,
}
enum AtomKind {
    Bool,
    Enum(&'static str),
    ZeroU,      // unsigned integer abstracted to zero / positive
    EnvString,  // classified string
    HostString, // string known through is_loopback_host
    OptHostString,
}

const ENUMS: [(&str, &str, &str); 4] = [
    // rust enum, coq type, constructor prefix
    ("CacheStrategy", "cache_strategy_t", ""),
    ("FsyncPolicy", "fsync_t", "Fs"),
    ("RecoveryMode", "recovery_t", ""),
    ("ObservabilityAuthMode", "obs_auth_t", "Obs"),
];

fn atoms() -> Vec<AtomSpec> {
    vec![
        AtomSpec { path: &["environment", "environment_type"], field: "env", kind: AtomKind::EnvString },
        AtomSpec { path: &["persistence", "fsync_policy"], field: "fsync", kind: AtomKind::Enum("FsyncPolicy") },
        AtomSpec { path: &["persistence", "snapshot_interval_mutations"], field: "snapshot_interval", kind: AtomKind::ZeroU },
        AtomSpec { path: &["persistence", "recovery_mode"], field: "recovery", kind: AtomKind::Enum("RecoveryMode") },
        AtomSpec { path: &["cache", "strategy"], field: "strategy", kind: AtomKind::Enum("CacheStrategy") },
        AtomSpec { path: &["auth", "enabled"], field: "auth", kind: AtomKind::Bool },
        AtomSpec { path: &["rate_limit", "enabled"], field: "rate_limit", kind: AtomKind::Bool },
        AtomSpec { path: &["server", "observability_auth"], field: "obs_auth", kind: AtomKind::Enum("ObservabilityAuthMode") },
        AtomSpec { path: &["persistence", "allow_fresh_start_on_recovery_failure"], field: "fresh_start", kind: AtomKind::Bool },
        AtomSpec { path: &["server", "tls", "enabled"], field: "tls", kind: AtomKind::Bool },
        AtomSpec { path: &["server", "host"], field: "grpc_loopback", kind: AtomKind::HostString },
        AtomSpec { path: &["server", "http_host"], field: "http_host_set/http_loopback", kind: AtomKind::OptHostString },
    ]
}

/// (field name, Coq type) of `safety_cfg`, in record order — the fixed interface towards the proofs
/// and the c18 driver (which always builds records by field name).
const RECORD: [(&str, &str); 13] = [
    ("env", "env_t"),
    ("fsync", "fsync_t"),
    ("snapshot_interval", "snap_t"),
    ("recovery", "recovery_t"),
    ("strategy", "cache_strategy_t"),
    ("auth", "bool"),
    ("rate_limit", "bool"),
    ("obs_auth", "obs_auth_t"),
    ("fresh_start", "bool"),
    ("tls", "bool"),
    ("grpc_loopback", "bool"),
    ("http_host_set", "bool"),
    ("http_loopback", "bool"),
];

fn find_struct<'f>(file: &'f syn::File, name: &str) -> Option<&'f syn::ItemStruct> {
    file.items.iter().find_map(|it| match it {
        syn::Item::Struct(s) if s.ident == name => Some(s),
        _ => None,
    })
}

/// type (as a token string) of `KyroDbConfig.<path>`
fn resolve_type(file: &syn::File, path: &[&str]) -> Result<String, String> {
    let mut cur = "KyroDbConfig".to_string();
    for (i, seg) in path.iter().enumerate() {
        let st = find_struct(file, &cur).ok_or_else(|| format!("struct {} not found in config.rs", cur))?;
        let fld = st
            .fields
            .iter()
            .find(|f| f.ident.as_ref().map_or(false, |id| id == seg))
            .ok_or_else(|| format!("field `{}` not found in struct {}", seg, cur))?;
        let ty = src_of(&fld.ty).replace(' ', "");
        if i + 1 == path.len() {
            return Ok(ty);
        }
        cur = ty;
    }
    Err("empty path".into())
}

fn err_json(stage: &str, e: &TrError, file: &str) -> serde_json::Value {
    json!({"ok": false, "stage": stage, "file": file, "line": e.line, "construct": e.construct, "message": e.msg})
}

pub fn fail_text(v: &serde_json::Value) -> String {
    format!(
        "translator: FAIL-CLOSED target=config stage={} {}:{}: construct `{}`: {}",
        v["stage"].as_str().unwrap_or("?"),
        v["file"].as_str().unwrap_or("?"),
        v["line"],
        v["construct"].as_str().unwrap_or("?"),
        v["message"].as_str().unwrap_or("?")
    )
}

fn plain_err(stage: &str, file: &str, msg: String) -> serde_json::Value {
    json!({"ok": false, "stage": stage, "file": file, "line": 0, "construct": "-", "message": msg})
}

// ------------------------------------------------------------------------------------------------
// structure checks
// ------------------------------------------------------------------------------------------------
fn is_try_method_call(e: &Expr, var: &str, method: &str) -> bool {
    if let Expr::Try(t) = e {
        if let Expr::MethodCall(m) = &*t.expr {
            if m.method == method && m.args.is_empty() {
                if let Expr::Path(p) = &*m.receiver {
                    return p.path.is_ident(var);
                }
            }
        }
    }
    false
}

fn check_load(cfg: &syn::File) -> serde_json::Value {
    let f = match find_method(cfg, "KyroDbConfig", "load") {
        Some(f) => f,
        None => return json!({"ok": false, "why": "KyroDbConfig::load not found"}),
    };
    let stmts = &f.block.stmts;
    let n = stmts.len();
    if n < 2 {
        return json!({"ok": false, "why": "load has fewer than two statements"});
    }
    // tail: Ok(<ident>)
    let var = match &stmts[n - 1] {
        Stmt::Expr(Expr::Call(c), None) => match (&*c.func, c.args.first()) {
            (Expr::Path(p), Some(Expr::Path(a))) if p.path.is_ident("Ok") && c.args.len() == 1 => a.path.get_ident().map(|i| i.to_string()),
            _ => None,
        },
        _ => None,
    };
    let var = match var {
        Some(v) => v,
        None => return json!({"ok": false, "why": "load does not end in `Ok(<config variable>)`", "line": line_of(&stmts[n - 1])}),
    };
    let validates = matches!(&stmts[n - 2], Stmt::Expr(e, Some(_)) if is_try_method_call(e, &var, "validate"));
    // no other way to return Ok: no `return` with a non-Err value anywhere in the body
    struct V(Vec<usize>);
    impl<'ast> syn::visit::Visit<'ast> for V {
        fn visit_expr_return(&mut self, r: &'ast syn::ExprReturn) {
            self.0.push(r.span().start().line);
        }
    }
    let mut v = V(vec![]);
    syn::visit::visit_block(&mut v, &f.block);
    // the variable must not be re-bound or mutated between deserialisation and validate: it is bound once
    let binds = stmts
        .iter()
        .filter(|s| matches!(s, Stmt::Local(l) if src_of(&l.pat).split(':').next().unwrap_or("").trim().trim_start_matches("mut ").trim() == var))
        .count();
    json!({
        "ok": validates && v.0.is_empty() && binds == 1,
        "returned_variable": var,
        "validate_is_last_statement_before_ok": validates,
        "validate_line": line_of(&stmts[n - 2]),
        "explicit_returns_at_lines": v.0,
        "bindings_of_returned_variable": binds,
    })
}

fn check_main(server: &syn::File) -> serde_json::Value {
    let f = match find_fn(server, "main") {
        Some(f) => f,
        None => return json!({"ok": false, "why": "fn main not found"}),
    };
    let stmts = &f.block.stmts;
    // 1. the statement that loads the configuration
    let mut load_idx = None;
    let mut var = String::new();
    let mut load_is_tried = false;
    let mut loader = String::new();
    for (i, s) in stmts.iter().enumerate() {
        if let Stmt::Local(l) = s {
            if let Some(init) = &l.init {
                let txt = src_of(&*init.expr);
                if txt.contains("KyroDbConfig::load(") || txt.contains("KyroDbConfig::from_file(") {
                    load_idx = Some(i);
                    loader = if txt.contains("KyroDbConfig::load(") { "load".into() } else { "from_file".into() };
                    load_is_tried = matches!(&*init.expr, Expr::Try(_));
                    if let syn::Pat::Ident(id) = &l.pat {
                        var = id.ident.to_string();
                    }
                    break;
                }
            }
        }
    }
    let load_idx = match load_idx {
        Some(i) => i,
        None => return json!({"ok": false, "why": "main does not bind the result of KyroDbConfig::load / from_file in a top-level let"}),
    };
    if var.is_empty() {
        return json!({"ok": false, "why": "configuration is not bound to a plain variable", "line": line_of(&stmts[load_idx])});
    }
    // 2. mutations of the configuration variable, anywhere (nested) in a top-level statement
    struct Mut<'a> {
        var: &'a str,
        lines: Vec<usize>,
    }
    impl<'a, 'ast> syn::visit::Visit<'ast> for Mut<'a> {
        fn visit_expr_assign(&mut self, a: &'ast syn::ExprAssign) {
            if let Some((root, _)) = Translator::field_path(&a.left) {
                if root == self.var {
                    self.lines.push(a.span().start().line);
                }
            }
            syn::visit::visit_expr_assign(self, a);
        }
        fn visit_expr_binary(&mut self, b: &'ast syn::ExprBinary) {
            use syn::BinOp::*;
            if matches!(b.op, AddAssign(_) | SubAssign(_) | MulAssign(_) | DivAssign(_) | RemAssign(_) | BitXorAssign(_) | BitAndAssign(_) | BitOrAssign(_) | ShlAssign(_) | ShrAssign(_)) {
                if let Some((root, _)) = Translator::field_path(&b.left) {
                    if root == self.var {
                        self.lines.push(b.span().start().line);
                    }
                }
            }
            syn::visit::visit_expr_binary(self, b);
        }
        fn visit_expr_reference(&mut self, r: &'ast syn::ExprReference) {
            if r.mutability.is_some() {
                if let Some((root, _)) = Translator::field_path(&r.expr) {
                    if root == self.var {
                        self.lines.push(r.span().start().line);
                    }
                }
            }
            syn::visit::visit_expr_reference(self, r);
        }
    }
    let mut last_mut_idx: Option<usize> = None;
    let mut mut_lines = vec![];
    let mut validate_idxs = vec![];
    let mut first_construct: Option<(usize, usize, String)> = None;
    const CONSTRUCT: [&str; 9] = [
        "AuthManager::", "TieredEngine::", "TenantIdMapper::", "RateLimiter::", "HnswBackend::", "TcpListener::", "Server::builder", "File::create", "create_dir",
    ];
    for (i, s) in stmts.iter().enumerate().skip(load_idx + 1) {
        let mut m = Mut { var: &var, lines: vec![] };
        syn::visit::visit_stmt(&mut m, s);
        if !m.lines.is_empty() {
            last_mut_idx = Some(i);
            mut_lines.extend(m.lines);
        }
        // a re-binding `let config = …` also counts as a mutation
        if let Stmt::Local(l) = s {
            if let syn::Pat::Ident(id) = &l.pat {
                if id.ident == var.as_str() {
                    last_mut_idx = Some(i);
                    mut_lines.push(line_of(s));
                }
            }
        }
        if let Stmt::Expr(e, Some(_)) = s {
            if is_try_method_call(e, &var, "validate") {
                validate_idxs.push(i);
            }
        }
        if first_construct.is_none() {
            let txt = src_of(s);
            if let Some(k) = CONSTRUCT.iter().find(|k| txt.contains(**k)) {
                first_construct = Some((i, line_of(s), k.to_string()));
            }
        }
    }
    let load_validates = loader == "load";
    // the validate call that counts: the last one that is after every mutation
    let good_validate = validate_idxs.iter().copied().filter(|v| last_mut_idx.map_or(true, |m| *v > m)).min();
    let validated_after_overrides = match (good_validate, last_mut_idx) {
        (Some(_), _) => true,
        (None, None) => load_validates, // no override at all: load's own validate is final
        (None, Some(_)) => false,
    };
    let final_validate_idx = good_validate.or(if last_mut_idx.is_none() && load_validates { Some(load_idx) } else { None });
    let before_construct = match (final_validate_idx, &first_construct) {
        (Some(v), Some((c, _, _))) => v < *c,
        (Some(_), None) => true,
        (None, _) => false,
    };
    json!({
        "ok": load_is_tried && validated_after_overrides && before_construct,
        "config_variable": var,
        "loader": loader,
        "load_line": line_of(&stmts[load_idx]),
        "load_result_propagated_with_try": load_is_tried,
        "override_lines": mut_lines,
        "validate_lines": validate_idxs.iter().map(|i| line_of(&stmts[*i])).collect::<Vec<_>>(),
        "validated_after_last_override": validated_after_overrides,
        "first_construction": first_construct.as_ref().map(|(_, l, k)| json!({"line": l, "what": k})),
        "validate_before_first_construction": before_construct,
    })
}

// ------------------------------------------------------------------------------------------------
// the translation
// ------------------------------------------------------------------------------------------------
pub fn run(repo: &str) -> Result<Outcome, serde_json::Value> {
    let cfg_path = format!("{}/engine/src/config.rs", repo);
    let srv_path = format!("{}/engine/src/bin/kyrodb_server.rs", repo);
    let cfg = parse_file(&cfg_path).map_err(|m| plain_err("parse", &cfg_path, m))?;

    // ---- tables
    let mut t = Tables::default();
    t.opaque_var = "o".into();
    for m in ["ensure"] {
        t.ensure_macros.insert(m.into());
    }
    for m in ["bail"] {
        t.bail_macros.insert(m.into());
    }
    for m in ["eprintln", "println", "warn", "info", "debug", "trace", "error"] {
        t.noop_macros.insert(m.into());
    }
    t.pred_fns.insert("is_loopback_host".into());
    let mut coq_enums = String::new();
    let mut enum_report = serde_json::Map::new();
    for (rust, coq_ty, prefix) in ENUMS {
        let en = find_enum(&cfg, rust).ok_or_else(|| plain_err("tables", &cfg_path, format!("enum {} not found", rust)))?;
        let mut ctors = vec![];
        for v in &en.variants {
            if !matches!(v.fields, syn::Fields::Unit) {
                return Err(err_json("tables", &TrError { line: line_of(v), construct: src_of(v), msg: format!("variant of {} carries data; the mirror inductive would not be finite", rust) }, &cfg_path));
            }
            let c = format!("{}{}", prefix, v.ident);
            if RESERVED.contains(&c.as_str()) {
                return Err(err_json("tables", &TrError { line: line_of(v), construct: src_of(v), msg: format!("constructor name {} clashes with a Coq standard name", c) }, &cfg_path));
            }
            ctors.push((v.ident.to_string(), c));
        }
        coq_enums.push_str(&coq_enum(
            coq_ty,
            &ctors.iter().map(|(_, c)| c.clone()).collect::<Vec<_>>(),
            &format!("enum {} (config.rs:{})", rust, line_of(en)),
        ));
        enum_report.insert(rust.to_string(), json!(ctors.iter().map(|(r, c)| json!({"rust": r, "coq": c})).collect::<Vec<_>>()));
        t.enums.insert(rust.to_string(), EnumInfo { rust: rust.into(), coq_ty: coq_ty.into(), ctors, line: line_of(en) });
    }
    let c = "c";
    let atom_b = |f: &str| B::Atom { term: format!("{} {}", f, c), input: true };
    for a in atoms() {
        let ty = resolve_type(&cfg, a.path).map_err(|m| plain_err("tables", &cfg_path, m))?;
        let path = format!("self.{}", a.path.join("."));
        let expect = |want: &str| -> Result<(), serde_json::Value> {
            if ty == want {
                Ok(())
            } else {
                Err(plain_err("tables", &cfg_path, format!("{} has type {} but the model expects {}", path, ty, want)))
            }
        };
        let v = match a.kind {
            AtomKind::Bool => {
                expect("bool")?;
                Val::Bool(atom_b(a.field))
            }
            AtomKind::Enum(e) => {
                expect(e)?;
                Val::Enum { ty: t.enums[e].coq_ty.clone(), term: format!("{} {}", a.field, c) }
            }
            AtomKind::ZeroU => {
                if !["u8", "u16", "u32", "u64", "u128", "usize"].contains(&ty.as_str()) {
                    return Err(plain_err("tables", &cfg_path, format!("{} has type {}; the zero/positive abstraction needs an unsigned integer", path, ty)));
                }
                Val::ZeroClass { zero: B::Atom { term: format!("snap_t_eqb ({} {}) SnapZero", a.field, c), input: true } }
            }
            AtomKind::EnvString => {
                expect("String")?;
                t.class_strs.insert(
                    "env".into(),
                    ClassStrSpec { coq_ty: "env_t".into(), term: format!("env {}", c), ctor_prefix: "".into(), empty_ctor: "EnvEmpty".into() },
                );
                Val::ClassStr { atom: "env".into(), ops: vec![] }
            }
            AtomKind::HostString => {
                expect("String")?;
                let mut p = std::collections::BTreeMap::new();
                p.insert("is_loopback_host".to_string(), atom_b("grpc_loopback"));
                Val::PredStr { preds: p }
            }
            AtomKind::OptHostString => {
                expect("Option<String>")?;
                let mut p = std::collections::BTreeMap::new();
                p.insert("is_loopback_host".to_string(), atom_b("http_loopback"));
                Val::Opt { some: atom_b("http_host_set"), inner: Box::new(Val::PredStr { preds: p }) }
            }
        };
        t.atoms.insert(path, v);
    }
    // helper methods on self that read no model input
    for it in &cfg.items {
        if let syn::Item::Impl(im) = it {
            if im.trait_.is_none() && matches!(&*im.self_ty, syn::Type::Path(tp) if tp.path.is_ident("KyroDbConfig")) {
                for ii in &im.items {
                    if let syn::ImplItem::Fn(f) = ii {
                        let takes_ref_self = matches!(f.sig.inputs.first(), Some(syn::FnArg::Receiver(r)) if r.reference.is_some() && r.mutability.is_none());
                        if !takes_ref_self {
                            continue;
                        }
                        let paths = self_paths_in_block(&f.block);
                        let touches = paths.iter().any(|p| {
                            t.atoms.keys().any(|k| p == k || p.starts_with(&format!("{}.", k)) || k.starts_with(&format!("{}.", p)))
                        });
                        let body = src_of(&f.block);
                        let uses_whole_self = body.contains("self)") || body.contains("self,") || body.contains("self.clone") || body.contains("* self");
                        if !touches && !uses_whole_self {
                            t.opaque_self_methods.insert(f.sig.ident.to_string());
                        }
                    }
                }
            }
        }
    }

    // ---- is_loopback_host must exist as a free function of one &str argument returning bool
    match find_fn(&cfg, "is_loopback_host") {
        Some(f) if f.sig.inputs.len() == 1 && src_of(&f.sig.output).contains("bool") => {}
        _ => return Err(plain_err("tables", &cfg_path, "fn is_loopback_host(&str) -> bool not found (it is the model's input predicate)".into())),
    }

    // ---- translate validate
    let vf = find_method(&cfg, "KyroDbConfig", "validate").ok_or_else(|| plain_err("translate", &cfg_path, "KyroDbConfig::validate not found".into()))?;
    let takes_ref_self = matches!(vf.sig.inputs.first(), Some(syn::FnArg::Receiver(r)) if r.reference.is_some() && r.mutability.is_none());
    if !takes_ref_self || vf.sig.inputs.len() != 1 {
        return Err(plain_err("translate", &cfg_path, "validate must take exactly `&self`".into()));
    }
    let mut tr = Translator::new(&t);
    let body = tr.translate_fn_body(&vf.block).map_err(|e| err_json("translate", &e, &cfg_path))?;

    // ---- the environment classifier
    let use_env = tr.class_uses.get("env").cloned().unwrap_or_default();
    let lits: Vec<String> = use_env.lits.keys().cloned().collect();
    let expected = ["", "benchmark", "pilot", "production"];
    if lits != expected {
        return Err(plain_err(
            "translate",
            &cfg_path,
            format!("validate compares the environment name with {:?}; the model (and the C18 statement) is written for exactly {:?}", lits, expected),
        ));
    }
    let ops = use_env.ops.clone().unwrap_or_default();
    let mut norm = "raw".to_string();
    for op in &ops {
        let f = match op.as_str() {
            "trim" => "str_trim",
            "trim_start" => "str_trim_start",
            "trim_end" => "str_trim_end",
            "to_ascii_lowercase" => "str_to_ascii_lowercase",
            "to_ascii_uppercase" => "str_to_ascii_uppercase",
            other => {
                return Err(plain_err("translate", &cfg_path, format!("environment name is normalised with `{}`, which has no Gallina counterpart in Model/RustStr.v", other)));
            }
        };
        norm = format!("{} ({})", f, norm);
    }

    // ---- structure
    let load = check_load(&cfg);
    let main = match parse_file(&srv_path) {
        Ok(f) => check_main(&f),
        Err(m) => json!({"ok": false, "why": m}),
    };
    let from_file_validates = find_method(&cfg, "KyroDbConfig", "from_file").map(|f| src_of(&f.block).contains("validate("));

    // ---- emit Coq
    let mut s = String::new();
    s.push_str("(* GENERATED by harness/p/translator (target config) from /repo/engine/src/config.rs — do not edit.\n");
    s.push_str("   Guard-by-guard translation of KyroDbConfig::validate; comments carry source line numbers.\n");
    s.push_str("   safety_cfg  = the safety-relevant settings (model inputs);\n");
    s.push_str("   opaque_guards = one boolean per condition that does not depend on them (universally quantified in the theorems). *)\n");
    s.push_str("From Coq Require Import Bool List NArith.\nFrom Kyro Require Import Model.RustStr.\nImport ListNotations.\nOpen Scope bool_scope.\n\n");
    // env_t
    let mut env_ctors = vec!["EnvEmpty".to_string()];
    for l in ["production", "pilot", "benchmark"] {
        env_ctors.push(use_env.lits[l].clone());
    }
    env_ctors.push("EnvOther".to_string());
    s.push_str(&coq_enum("env_t", &env_ctors, "class of the normalised environment.type string"));
    s.push_str(&coq_enums);
    s.push_str(&coq_enum("snap_t", &["SnapZero".to_string(), "SnapPositive".to_string()], "persistence.snapshot_interval_mutations: 0 / > 0 (unsigned)"));
    s.push_str("Record safety_cfg : Set := mk_safety_cfg {\n");
    s.push_str(&RECORD.iter().map(|(f, ty)| format!("  {} : {}", f, ty)).collect::<Vec<_>>().join(";\n"));
    s.push_str("\n}.\n\n");
    s.push_str("Record opaque_guards : Set := mk_opaque_guards {\n");
    if tr.opaque_fields.is_empty() {
        s.push_str("  g_none : bool\n");
    }
    s.push_str(
        &tr.opaque_fields
            .iter()
            .map(|f| format!("  {} : bool (* L{}: {} *)", f.name, f.line, coq_comment(&f.src)))
            .collect::<Vec<_>>()
            .join(";\n"),
    );
    s.push_str("\n}.\n\n");
    s.push_str("Definition all_opaque_true : opaque_guards := {|\n");
    if tr.opaque_fields.is_empty() {
        s.push_str("  g_none := true\n");
    }
    s.push_str(&tr.opaque_fields.iter().map(|f| format!("  {} := true", f.name)).collect::<Vec<_>>().join(";\n"));
    s.push_str("\n|}.\n\n");
    s.push_str(&format!(
        "(* environment-name normalisation as performed by validate (config.rs:{}): {} *)\nDefinition env_normalise (raw : str) : str := {}.\n",
        use_env.ops_line,
        if ops.is_empty() { "none".to_string() } else { ops.join(" . ") },
        norm
    ));
    for l in ["production", "pilot", "benchmark"] {
        s.push_str(&format!("Definition env_lit_{} : str := {}. (* '{}' *)\n", l, coq_str_lit(l), l));
    }
    s.push_str("Definition env_classify (s : str) : env_t :=\n  if str_eqb s [] then EnvEmpty\n");
    for l in ["production", "pilot", "benchmark"] {
        s.push_str(&format!("  else if str_eqb s env_lit_{} then {}\n", l, use_env.lits[l]));
    }
    s.push_str("  else EnvOther.\nDefinition env_of_raw (raw : str) : env_t := env_classify (env_normalise raw).\n\n");
    s.push_str(&format!("(* KyroDbConfig::validate (config.rs:{}) returns Ok(()) *)\n", line_of(vf)));
    s.push_str("Definition validate (c : safety_cfg) (o : opaque_guards) : bool :=\n  ");
    s.push_str(&body.render(2));
    s.push_str(".\n\n");
    s.push_str("Definition with_env (e : env_t) (c : safety_cfg) : safety_cfg := {|\n  env := e;\n");
    s.push_str(&RECORD.iter().skip(1).map(|(f, _)| format!("  {} := {} c", f, f)).collect::<Vec<_>>().join(";\n"));
    s.push_str("\n|}.\n");
    s.push_str("(* the verdict as a function of the raw environment.type string *)\n");
    s.push_str("Definition validate_raw (raw : str) (c : safety_cfg) (o : opaque_guards) : bool :=\n  validate (with_env (env_of_raw raw) c) o.\n");

    let guards: Vec<serde_json::Value> = tr
        .guards
        .iter()
        .map(|g| {
            json!({"line": g.line, "kind": g.kind, "cond": g.cond, "message_prefix": g.message_prefix,
                   "own_input": g.own_input, "enclosing_input": g.enclosing_input,
                   "safety": g.own_input || (g.kind != "ensure" && g.enclosing_input),
                   "opaque_fields": g.opaque_fields})
        })
        .collect();
    let n_safety = tr.guards.iter().filter(|g| g.own_input || (g.kind != "ensure" && g.enclosing_input)).count();
    let report = json!({
        "ok": true,
        "target": "config",
        "source": cfg_path,
        "validate_line": line_of(vf),
        "guards": guards,
        "guards_total": tr.guards.len(),
        "guards_safety": n_safety,
        "opaque_fields": tr.opaque_fields.iter().map(|f| json!({"name": f.name, "line": f.line, "src": f.src})).collect::<Vec<_>>(),
        "env_normalisation": ops,
        "env_literals": lits,
        "enums": enum_report,
        "record_fields": RECORD.iter().map(|(f, ty)| json!([f, ty])).collect::<Vec<_>>(),
        "opaque_self_methods": t.opaque_self_methods.iter().collect::<Vec<_>>(),
        "notes": tr.notes,
        "structure": {
            "no_early_ok": tr.early_ok_lines.is_empty(),
            "early_ok_lines": tr.early_ok_lines,
            "load_ends_with_validate": load,
            "main_validates_before_construction": main,
            "from_file_validates": from_file_validates,
        },
    });
    Ok(Outcome { coq: s, report })
}
