//! Target `search_k`: `fn compute_search_k(k, live_docs, total_slots) -> usize` (engine/src/hnsw_backend.rs)
//! -> coq/gen/SearchK_gen.v (property C06).
//!
//! Accepted subset (everything else FAILS CLOSED, naming construct and line):
//!   statements  `let x = e;` (plain identifier pattern), `if c { return e; }` (no else, body is exactly one
//!               `return`), a final `return e;` or tail expression;
//!   usize       integer literals, variables, `==  <  <=  >  >=`, `||  &&  !`, `/` by a non-zero literal,
//!               `.min(_) .max(_) .clamp(lo, hi) .saturating_add(_) .saturating_sub(_)`;
//!               `+ - * %` on usize are refused (overflow/underflow panics in debug builds, wraps in release);
//!   f64         `x as f64` (x: usize), `a / b`; a float may only flow back into an integer through
//!               `<float>.ceil() as usize`, and at most ONE such site may exist.
//!
//! Floating point.  `ceil(k as f64 / (live as f64 / total as f64))` is NOT equal to the exact integer
//! ceiling `ceil(k*total/live)` in general, for any magnitude: the two roundings can land one ulp above an
//! integer quotient (k=1, live=1, total=49 gives 50, not 49).  So the site is emitted three ways:
//!   * `search_k_fsite`        — faithful: Model/F64Lite.v (round-to-nearest-even on exact integers),
//!   * `search_k_fsite_exact`  — the same expression over exact rationals (integer ceiling),
//!   * `compute_search_k_with fx` — the integer part of the function with the site as a parameter;
//! `compute_search_k = compute_search_k_with (search_k_fsite …)` holds by conversion and is re-checked in
//! Proofs/KnnProofs.v.  The theorems about bounds hold for EVERY value of the site; the oversampling
//! inequality needs `search_k_fsite_exact <= fx`, which the C06 driver checks for the faithful site on its
//! whole grid inside coqc on every run (and which is where f64 accuracy stays a named, unproved premise).
//! `.clamp(lo, hi)` panics when lo > hi: the reachability of that panic is emitted as
//! `compute_search_k_panics_with` and proved to be `false`.
use crate::{coq_comment, fail, find_fn, line_of, parse_file, src_of, Res, TrError};
use serde_json::json;
use std::collections::BTreeMap;
use syn::{BinOp, Expr, Lit, Pat, Stmt, UnOp};

pub struct Outcome {
    pub coq: String,
    pub report: serde_json::Value,
}

#[derive(Clone, Copy, PartialEq, Debug)]
enum Ty {
    N,
    F,
    B,
}

/// exact rational value of a float-typed term: num / den, both Gallina N terms
#[derive(Clone, Debug)]
struct Ratio {
    num: String,
    den: String,
}

#[derive(Clone, Debug)]
struct Tm {
    ty: Ty,
    /// faithful Gallina term (F64Lite for floats)
    full: String,
    /// the same term with the float->usize site replaced by the parameter `fx` (None for float-typed terms)
    with_fx: Option<String>,
    /// exact-rational reading of the float->usize site / of a float term
    exact: Option<String>,
    ratio: Option<Ratio>,
}

fn paren(s: &str) -> String {
    if s.contains(' ') && !(s.starts_with('(') && s.ends_with(')') && balanced_outer(s)) {
        format!("({})", s)
    } else {
        s.to_string()
    }
}
fn balanced_outer(s: &str) -> bool {
    let mut depth = 0i32;
    for (i, c) in s.char_indices() {
        match c {
            '(' => depth += 1,
            ')' => {
                depth -= 1;
                if depth == 0 && i + 1 != s.len() {
                    return false;
                }
            }
            _ => {}
        }
    }
    true
}

const RESERVED: &[&str] = &["fx", "if", "then", "else", "let", "in", "fun", "match", "with", "end", "forall", "exists", "Set", "Prop", "Type", "N", "Z"];

struct Tr {
    env: BTreeMap<String, Ty>,
    /// panic conditions (Gallina bool, `with_fx` flavour) collected while translating the current expression
    asserts: Vec<String>,
    sites: Vec<(usize, String, String)>, // (line, faithful term, exact term)
    notes: Vec<String>,
    /// float-typed lets in order (name, faithful term): hoisted in front of the site definitions
    lets_all: Vec<(String, Ty, String, Option<String>)>, // name, ty, full, with_fx
    /// exact-rational reading of every float-typed let
    float_lets: Vec<(String, Ratio)>,
}

impl Tr {
    fn n_of(&self, t: &Tm, at: &Expr, what: &str) -> Res<()> {
        if t.ty != Ty::N {
            return fail(at, &format!("{}: expected an unsigned integer operand", what));
        }
        Ok(())
    }

    fn nt(full: String, fx: String, exact: String) -> Tm {
        Tm { ty: Ty::N, full, with_fx: Some(fx), exact: Some(exact), ratio: None }
    }
    fn bt(full: String, fx: String, exact: String) -> Tm {
        Tm { ty: Ty::B, full, with_fx: Some(fx), exact: Some(exact), ratio: None }
    }
    fn fxs(t: &Tm) -> String {
        t.with_fx.clone().unwrap_or_else(|| t.full.clone())
    }
    fn exs(t: &Tm) -> String {
        t.exact.clone().unwrap_or_else(|| t.full.clone())
    }
    fn lift2(ty: Ty, f: &str, a: &Tm, b: &Tm) -> Tm {
        let mk = |x: String, y: String| format!("{} {} {}", f, paren(&x), paren(&y));
        let t = Tm {
            ty,
            full: mk(a.full.clone(), b.full.clone()),
            with_fx: Some(mk(Self::fxs(a), Self::fxs(b))),
            exact: Some(mk(Self::exs(a), Self::exs(b))),
            ratio: None,
        };
        t
    }

    fn eval(&mut self, e: &Expr) -> Res<Tm> {
        match e {
            Expr::Paren(p) => self.eval(&p.expr),
            Expr::Group(g) => self.eval(&g.expr),
            Expr::Lit(l) => match &l.lit {
                Lit::Int(i) => {
                    let suf = i.suffix();
                    if !(suf.is_empty() || suf == "usize") {
                        return fail(e, "integer literal with a suffix other than usize");
                    }
                    let v: u128 = i.base10_parse().map_err(|_| TrError { line: line_of(e), construct: src_of(e), msg: "integer literal out of range".into() })?;
                    let s = format!("{}%N", v);
                    Ok(Self::nt(s.clone(), s.clone(), s))
                }
                _ => fail(e, "literal other than an unsigned integer"),
            },
            Expr::Path(p) => {
                if p.qself.is_some() || p.path.segments.len() != 1 {
                    return fail(e, "path expression (only plain local variables are in the subset)");
                }
                let name = p.path.segments[0].ident.to_string();
                match self.env.get(&name) {
                    Some(Ty::N) => Ok(Self::nt(name.clone(), name.clone(), name)),
                    Some(Ty::B) => Ok(Self::bt(name.clone(), name.clone(), name)),
                    Some(Ty::F) => Ok(Tm { ty: Ty::F, full: name.clone(), with_fx: None, exact: None, ratio: Some(Ratio { num: format!("{}__num", name), den: format!("{}__den", name) }) }),
                    None => fail(e, "unknown variable (not a parameter or an earlier let)"),
                }
            }
            Expr::Unary(u) => match u.op {
                UnOp::Not(_) => {
                    let a = self.eval(&u.expr)?;
                    if a.ty != Ty::B {
                        return fail(e, "`!` on a non-boolean");
                    }
                    let mk = |x: String| format!("negb {}", paren(&x));
                    Ok(Self::bt(mk(a.full.clone()), mk(Self::fxs(&a)), mk(Self::exs(&a))))
                }
                _ => fail(e, "unary operator outside the subset"),
            },
            Expr::Binary(b) => {
                let l = self.eval(&b.left)?;
                let r = self.eval(&b.right)?;
                match &b.op {
                    BinOp::Or(_) | BinOp::And(_) => {
                        if l.ty != Ty::B || r.ty != Ty::B {
                            return fail(e, "boolean connective on non-booleans");
                        }
                        // both operands are pure and total here, so the lazy and the strict reading agree
                        Ok(Self::lift2(Ty::B, if matches!(b.op, BinOp::Or(_)) { "orb" } else { "andb" }, &l, &r))
                    }
                    BinOp::Eq(_) | BinOp::Le(_) | BinOp::Lt(_) | BinOp::Ge(_) | BinOp::Gt(_) | BinOp::Ne(_) => {
                        if l.ty != Ty::N || r.ty != Ty::N {
                            return fail(e, "comparison on operands that are not unsigned integers (float comparisons are outside the subset)");
                        }
                        Ok(match &b.op {
                            BinOp::Eq(_) => Self::lift2(Ty::B, "N.eqb", &l, &r),
                            BinOp::Le(_) => Self::lift2(Ty::B, "N.leb", &l, &r),
                            BinOp::Lt(_) => Self::lift2(Ty::B, "N.ltb", &l, &r),
                            BinOp::Ge(_) => Self::lift2(Ty::B, "N.leb", &r, &l),
                            BinOp::Gt(_) => Self::lift2(Ty::B, "N.ltb", &r, &l),
                            _ => {
                                let t = Self::lift2(Ty::B, "N.eqb", &l, &r);
                                let mk = |x: String| format!("negb ({})", x);
                                Self::bt(mk(t.full.clone()), mk(Self::fxs(&t)), mk(Self::exs(&t)))
                            }
                        })
                    }
                    BinOp::Div(_) => match (l.ty, r.ty) {
                        (Ty::N, Ty::N) => {
                            // only division by a non-zero literal (no division-by-zero panic to model)
                            let lit_ok = matches!(&*b.right, Expr::Lit(x) if matches!(&x.lit, Lit::Int(i) if i.base10_parse::<u128>().map(|v| v != 0).unwrap_or(false)));
                            if !lit_ok {
                                return fail(e, "usize division by something other than a non-zero literal (may panic)");
                            }
                            Ok(Self::lift2(Ty::N, "N.div", &l, &r))
                        }
                        (Ty::F, Ty::F) => {
                            let (rl, rr) = (l.ratio.clone().unwrap(), r.ratio.clone().unwrap());
                            Ok(Tm {
                                ty: Ty::F,
                                full: format!("f64_div {} {}", paren(&l.full), paren(&r.full)),
                                with_fx: None,
                                exact: None,
                                ratio: Some(Ratio {
                                    num: format!("{} * {}", paren(&rl.num), paren(&rr.den)),
                                    den: format!("{} * {}", paren(&rl.den), paren(&rr.num)),
                                }),
                            })
                        }
                        _ => fail(e, "division mixing integer and float operands"),
                    },
                    BinOp::Add(_) | BinOp::Sub(_) | BinOp::Mul(_) | BinOp::Rem(_) => fail(
                        e,
                        "unchecked + - * % (usize: overflow/underflow panics in debug and wraps in release; f64: not in the subset) — use saturating_*/checked_* or extend the translator",
                    ),
                    _ => fail(e, "binary operator outside the subset"),
                }
            }
            Expr::Cast(c) => {
                let ty = src_of(&c.ty);
                match ty.as_str() {
                    "f64" => {
                        let a = self.eval(&c.expr)?;
                        self.n_of(&a, e, "`as f64`")?;
                        if a.full != Self::fxs(&a) {
                            return fail(e, "a value derived from the float site flows back into a float");
                        }
                        Ok(Tm { ty: Ty::F, full: format!("f64_of_N {}", paren(&a.full)), with_fx: None, exact: None, ratio: Some(Ratio { num: a.full.clone(), den: "1%N".into() }) })
                    }
                    "usize" => {
                        // only `<float>.ceil() as usize`
                        let inner = match &*c.expr {
                            Expr::Paren(p) => &*p.expr,
                            x => x,
                        };
                        if let Expr::MethodCall(m) = inner {
                            if m.method == "ceil" && m.args.is_empty() && m.turbofish.is_none() {
                                let a = self.eval(&m.receiver)?;
                                if a.ty != Ty::F {
                                    return fail(e, "`.ceil()` on a non-float");
                                }
                                let r = a.ratio.clone().unwrap();
                                let full = format!("f64_ceil_to_usize {}", paren(&a.full));
                                // exact: ceil(num/den) as usize (saturating); den = 0 cannot happen on the guarded path, N.div gives 0 there
                                let exact = format!("N.min (({} + {} - 1) / {}) usize_max", paren(&r.num), paren(&r.den), paren(&r.den));
                                if !self.sites.is_empty() {
                                    return fail(e, "more than one float->usize site (the model abstracts exactly one)");
                                }
                                self.sites.push((line_of(e), full.clone(), exact.clone()));
                                return Ok(Tm { ty: Ty::N, full, with_fx: Some("fx".into()), exact: Some(exact), ratio: None });
                            }
                        }
                        fail(e, "`as usize` is only accepted in the form `<float>.ceil() as usize`")
                    }
                    _ => fail(e, "cast to a type other than f64 / usize"),
                }
            }
            Expr::MethodCall(m) => {
                if m.turbofish.is_some() {
                    return fail(e, "method call with turbofish");
                }
                let recv = self.eval(&m.receiver)?;
                let name = m.method.to_string();
                let mut args = vec![];
                for a in &m.args {
                    args.push(self.eval(a)?);
                }
                if recv.ty != Ty::N || args.iter().any(|a| a.ty != Ty::N) {
                    return fail(e, "method call on operands that are not unsigned integers");
                }
                match (name.as_str(), args.len()) {
                    ("min", 1) => Ok(Self::lift2(Ty::N, "N.min", &recv, &args[0])),
                    ("max", 1) => Ok(Self::lift2(Ty::N, "N.max", &recv, &args[0])),
                    ("saturating_add", 1) => {
                        let mk = |x: String, y: String| format!("N.min ({} + {}) usize_max", paren(&x), paren(&y));
                        Ok(Self::nt(mk(recv.full.clone(), args[0].full.clone()), mk(Self::fxs(&recv), Self::fxs(&args[0])), mk(Self::exs(&recv), Self::exs(&args[0]))))
                    }
                    ("saturating_sub", 1) => Ok(Self::lift2(Ty::N, "N.sub", &recv, &args[0])),
                    ("clamp", 2) => {
                        // Ord::clamp: assert!(min <= max); then max(min) / min(max)
                        let mk = |x: String, lo: String, hi: String| format!("N.min (N.max {} {}) {}", paren(&x), paren(&lo), paren(&hi));
                        self.asserts.push(format!("N.ltb {} {}", paren(&Self::fxs(&args[1])), paren(&Self::fxs(&args[0]))));
                        Ok(Self::nt(
                            mk(recv.full.clone(), args[0].full.clone(), args[1].full.clone()),
                            mk(Self::fxs(&recv), Self::fxs(&args[0]), Self::fxs(&args[1])),
                            mk(Self::exs(&recv), Self::exs(&args[0]), Self::exs(&args[1])),
                        ))
                    }
                    _ => fail(e, "method outside the subset (min, max, clamp, saturating_add, saturating_sub, ceil-under-cast)"),
                }
            }
            _ => fail(e, "expression form outside the subset"),
        }
    }

    fn take_asserts(&mut self) -> String {
        let a = std::mem::take(&mut self.asserts);
        if a.is_empty() {
            "false".into()
        } else {
            a.join(" || ")
        }
    }

    /// Returns (faithful, with_fx, panics) Gallina terms for the statement list (value of the function).
    fn block(&mut self, stmts: &[Stmt], ind: usize) -> Res<(String, String, String)> {
        let pad = " ".repeat(ind);
        let Some((first, rest)) = stmts.split_first() else {
            return Err(TrError { line: 0, construct: "}".into(), msg: "function body falls off the end without a value".into() });
        };
        match first {
            Stmt::Local(l) => {
                let name = match &l.pat {
                    Pat::Ident(p) if p.by_ref.is_none() && p.subpat.is_none() => p.ident.to_string(),
                    Pat::Type(pt) => match &*pt.pat {
                        Pat::Ident(p) if p.by_ref.is_none() && p.subpat.is_none() => p.ident.to_string(),
                        _ => return fail(first, "let pattern other than a plain identifier"),
                    },
                    _ => return fail(first, "let pattern other than a plain identifier"),
                };
                if let Pat::Ident(p) = &l.pat {
                    if p.mutability.is_some() {
                        return fail(first, "`let mut` (assignments are outside the subset)");
                    }
                }
                if RESERVED.contains(&name.as_str()) || name.contains("__") {
                    return fail(first, "variable name clashes with a name used by the generated model");
                }
                let Some(init) = &l.init else { return fail(first, "let without initialiser") };
                if init.diverge.is_some() {
                    return fail(first, "let-else");
                }
                let t = self.eval(&init.expr)?;
                let pan = self.take_asserts();
                self.env.insert(name.clone(), t.ty);
                self.lets_all.push((name.clone(), t.ty, t.full.clone(), t.with_fx.clone()));
                let (rf, rx, rp) = self.block(rest, ind)?;
                let comment = format!("(* L{}: {} *)", line_of(first), coq_comment(&src_of(first)));
                let full = format!("{}\n{}let {} := {} in\n{}{}", comment, pad, name, t.full, pad, rf);
                let (wfx, pnk) = match t.ty {
                    Ty::F => (rx, rp), // float lets do not exist in the integer part
                    _ => {
                        let x = Self::fxs(&t);
                        (
                            format!("let {} := {} in\n{}{}", name, x, pad, rx),
                            if pan == "false" { format!("let {} := {} in\n{}{}", name, x, pad, rp) } else { format!("({}) || (let {} := {} in\n{}{})", pan, name, x, pad, rp) },
                        )
                    }
                };
                if t.ty == Ty::F {
                    // exact-rational shadow variables of a float let
                    let r = t.ratio.clone().unwrap();
                    self.notes.push(format!("float let {} (L{}) = exact ratio ({}) / ({})", name, line_of(first), r.num, r.den));
                    self.float_lets.push((name, r));
                }
                Ok((full, wfx, pnk))
            }
            Stmt::Expr(Expr::If(i), _) => {
                if i.else_branch.is_some() {
                    return fail(first, "if with an else branch in statement position");
                }
                let ret = match i.then_branch.stmts.as_slice() {
                    [Stmt::Expr(Expr::Return(r), _)] => match &r.expr {
                        Some(x) => &**x,
                        None => return fail(first, "bare return"),
                    },
                    _ => return fail(first, "if-statement whose body is not exactly one `return <expr>;`"),
                };
                let c = self.eval(&i.cond)?;
                if c.ty != Ty::B {
                    return fail(first, "if condition is not boolean");
                }
                let pc = self.take_asserts();
                let v = self.eval(ret)?;
                if v.ty != Ty::N {
                    return fail(first, "returned value is not an unsigned integer");
                }
                let pv = self.take_asserts();
                let (rf, rx, rp) = self.block(rest, ind)?;
                let comment = format!("(* L{}: if {} {{ return {}; }} *)", line_of(first), coq_comment(&src_of(&*i.cond)), coq_comment(&src_of(ret)));
                let full = format!("{}\n{}if {} then {}\n{}else {}", comment, pad, c.full, v.full, pad, rf);
                let wfx = format!("if {} then {}\n{}else {}", Self::fxs(&c), Self::fxs(&v), pad, rx);
                let body = format!("if {} then {}\n{}else {}", Self::fxs(&c), pv, pad, rp);
                let pnk = if pc == "false" { body } else { format!("({}) || ({})", pc, body) };
                Ok((full, wfx, pnk))
            }
            Stmt::Expr(e, semi) => {
                let value = match (e, semi) {
                    (Expr::Return(r), _) => match &r.expr {
                        Some(x) => &**x,
                        None => return fail(first, "bare return"),
                    },
                    (x, None) => x,
                    _ => return fail(first, "expression statement (side effects are outside the subset)"),
                };
                if !rest.is_empty() {
                    return fail(&rest[0], "statement after the function's final value");
                }
                let v = self.eval(value)?;
                if v.ty != Ty::N {
                    return fail(first, "function value is not an unsigned integer");
                }
                let pv = self.take_asserts();
                Ok((v.full.clone(), Self::fxs(&v), pv))
            }
            _ => fail(first, "statement form outside the subset (items, macros)"),
        }
    }
}

impl Tr {
    fn new() -> Self {
        Tr { env: BTreeMap::new(), asserts: vec![], sites: vec![], notes: vec![], lets_all: vec![], float_lets: vec![] }
    }
}
fn err_json(stage: &str, e: &TrError, file: &str) -> serde_json::Value {
    json!({"ok": false, "target": "search_k", "stage": stage, "file": file, "line": e.line, "construct": e.construct, "message": e.msg})
}
fn plain_err(stage: &str, file: &str, msg: String) -> serde_json::Value {
    json!({"ok": false, "target": "search_k", "stage": stage, "file": file, "line": 0, "construct": "", "message": msg})
}
pub fn fail_text(v: &serde_json::Value) -> String {
    format!(
        "translator: FAIL-CLOSED target=search_k stage={} {}:{}: construct `{}`: {}",
        v["stage"].as_str().unwrap_or("?"),
        v["file"].as_str().unwrap_or("?"),
        v["line"],
        v["construct"].as_str().unwrap_or("?"),
        v["message"].as_str().unwrap_or("?")
    )
}

pub fn run(repo: &str) -> Result<Outcome, serde_json::Value> {
    let path = format!("{}/engine/src/hnsw_backend.rs", repo);
    let file = parse_file(&path).map_err(|m| plain_err("parse", &path, m))?;
    let f = find_fn(&file, "compute_search_k").ok_or_else(|| plain_err("translate", &path, "fn compute_search_k not found".into()))?;
    // signature: exactly (k: usize, live_docs: usize, total_slots: usize) -> usize, no generics, not async/unsafe
    let sig = &f.sig;
    if sig.asyncness.is_some() || sig.unsafety.is_some() || !sig.generics.params.is_empty() {
        return Err(plain_err("translate", &path, "compute_search_k must be a plain fn".into()));
    }
    let mut params = vec![];
    for a in &sig.inputs {
        match a {
            syn::FnArg::Typed(pt) => {
                let name = match &*pt.pat {
                    Pat::Ident(p) if p.mutability.is_none() && p.by_ref.is_none() => p.ident.to_string(),
                    _ => return Err(plain_err("translate", &path, "parameter pattern is not a plain immutable identifier".into())),
                };
                if src_of(&pt.ty) != "usize" {
                    return Err(plain_err("translate", &path, format!("parameter {} has type {}, expected usize", name, src_of(&pt.ty))));
                }
                params.push(name);
            }
            _ => return Err(plain_err("translate", &path, "compute_search_k takes self".into())),
        }
    }
    if params != ["k", "live_docs", "total_slots"] {
        return Err(plain_err("translate", &path, format!("parameters are {:?}; the C06 model and statements are written for (k, live_docs, total_slots)", params)));
    }
    match &sig.output {
        syn::ReturnType::Type(_, t) if src_of(&**t) == "usize" => {}
        _ => return Err(plain_err("translate", &path, "return type is not usize".into())),
    }
    let mut tr = Tr::new();
    for p in &params {
        tr.env.insert(p.clone(), Ty::N);
    }
    let (full, wfx, pnk) = tr.block(&f.block.stmts, 2).map_err(|e| err_json("translate", &e, &path))?;
    if tr.sites.len() != 1 {
        return Err(plain_err("translate", &path, format!("{} float->usize sites found; the C06 model abstracts exactly one", tr.sites.len())));
    }
    let (site_line, site_full, site_exact) = tr.sites[0].clone();
    // hoisted pure lets in front of the site definitions (all let-bound terms are total, so evaluating them
    // outside their guards is harmless); integer lets that depend on the site cannot occur before it
    let mut pre_full = String::new();
    let mut pre_exact = String::new();
    for (name, ty, lf, lx) in &tr.lets_all {
        if lf.contains("f64_ceil_to_usize") {
            break; // the let that holds the site: stop hoisting here
        }
        match ty {
            Ty::F => {
                pre_full.push_str(&format!("  let {} := {} in\n", name, lf));
                let r = &tr.float_lets.iter().find(|(n, _)| n == name).unwrap().1;
                pre_exact.push_str(&format!("  let {}__num := {} in\n  let {}__den := {} in\n", name, r.num, name, r.den));
            }
            _ => {
                let x = lx.clone().unwrap_or_else(|| lf.clone());
                pre_full.push_str(&format!("  let {} := {} in\n", name, x));
                pre_exact.push_str(&format!("  let {} := {} in\n", name, x));
            }
        }
    }
    let hdr = "(k live_docs total_slots : N)";
    let mut s = String::new();
    s.push_str("(* GENERATED by harness/p/translator (target search_k) from /repo/engine/src/hnsw_backend.rs — do not edit.\n");
    s.push_str(&format!("   Statement-by-statement translation of fn compute_search_k (line {}); comments carry source lines.\n", line_of(f)));
    s.push_str("   usize = N (saturating ops saturate at usize_max = 2^64-1); the single f64 sub-expression is given\n");
    s.push_str("   faithfully (Model/F64Lite.v), over exact rationals, and abstracted as the parameter fx. *)\n");
    s.push_str("From Coq Require Import NArith ZArith Bool.\nFrom Kyro Require Import Model.F64Lite.\nOpen Scope N_scope.\nOpen Scope bool_scope.\n\n");
    s.push_str(&format!("Definition compute_search_k {} : N :=\n  {}.\n\n", hdr, full));
    s.push_str(&format!("(* the integer part; fx stands for the value of the float expression at L{} *)\n", site_line));
    s.push_str(&format!("Definition compute_search_k_with (fx : N) {} : N :=\n  {}.\n\n", hdr, wfx));
    s.push_str(&format!("(* L{}: the float expression, IEEE binary64 round-to-nearest-even (F64Lite) *)\n", site_line));
    s.push_str(&format!("Definition search_k_fsite {} : N :=\n{}  {}.\n\n", hdr, pre_full, site_full));
    s.push_str("(* the same expression over exact rationals: an integer ceiling, saturated like the cast *)\n");
    s.push_str(&format!("Definition search_k_fsite_exact {} : N :=\n{}  {}.\n\n", hdr, pre_exact, site_exact));
    s.push_str("(* true iff a `.clamp(lo, hi)` with lo > hi (a panic) is reached *)\n");
    s.push_str(&format!("Definition compute_search_k_panics_with (fx : N) {} : bool :=\n  {}.\n", hdr, pnk));
    let report = json!({
        "ok": true, "target": "search_k", "source": path, "fn_line": line_of(f),
        "float_site_line": site_line, "float_site": site_full, "float_site_exact": site_exact,
        "lets": tr.lets_all.iter().map(|(n, t, _, _)| json!([n, format!("{:?}", t)])).collect::<Vec<_>>(),
        "notes": tr.notes,
    });
    Ok(Outcome { coq: s, report })
}
