//! Stage D: fabricated data directories driven through the real BackupManager / RestoreManager.
//! No engine involved: the point is to tie every decision of Model/Backup.v (which files go into which
//! archive, which errors are raised, chain building, verification, clear guard, dry run, extraction
//! order, point-in-time selection) to the implementation, inside coqc.
use crate::abs::*;
use crate::Acc;
use kvh::rng::Rng;
use kyrodb_engine::backup::{BackupManager, BackupMetadata, BackupType, ClearDirectoryOptions, RestoreManager};
use serde_json::json;
use std::collections::{BTreeMap, BTreeSet};
use std::path::Path;
use uuid::Uuid;

#[derive(Clone, Debug)]
enum Man {
    Missing,
    Garbage(Vec<u8>),
    Modern { snap: Option<u64>, seq: Option<u64>, segs: Vec<u64>, last_updated: u64 },
}

#[derive(Clone, Debug)]
struct SynDir {
    man: Man,
    man_mtime: u64,
    files: BTreeMap<String, (Vec<u8>, u64)>, // wal / snapshot / other files
    ver: u64,
}

impl SynDir {
    fn wal_ids(&self) -> Vec<u64> {
        let mut v: Vec<u64> = self.files.keys().filter_map(|n| wal_id(n)).collect();
        v.sort_unstable();
        v
    }
    fn write(&self, dir: &Path) {
        let _ = std::fs::remove_dir_all(dir);
        std::fs::create_dir_all(dir).unwrap();
        match &self.man {
            Man::Missing => {}
            Man::Garbage(b) => { std::fs::write(dir.join("MANIFEST"), b).unwrap(); set_mtime(&dir.join("MANIFEST"), self.man_mtime); }
            Man::Modern { snap, seq, segs, last_updated } => {
                let m = kyrodb_engine::Manifest { version: 1, latest_snapshot: snap.map(|s| format!("snapshot_{}.snap", s)), latest_snapshot_wal_seq: *seq,
                    wal_segments: segs.iter().map(|s| format!("wal_{}.wal", s)).collect(), last_updated: *last_updated };
                std::fs::write(dir.join("MANIFEST"), serde_json::to_string_pretty(&m).unwrap()).unwrap();
                set_mtime(&dir.join("MANIFEST"), self.man_mtime);
            }
        }
        for (n, (b, mt)) in &self.files {
            std::fs::write(dir.join(n), b).unwrap();
            set_mtime(&dir.join(n), *mt);
        }
    }
    fn bump(&mut self) -> Vec<u8> {
        self.ver += 1;
        format!("content-v{}", self.ver).into_bytes()
    }
}

fn gen_dir(r: &mut Rng, t0: u64) -> SynDir {
    let mut d = SynDir { man: Man::Missing, man_mtime: t0 - 20, files: BTreeMap::new(), ver: 0 };
    let k = *r.pick(&[0usize, 1, 1, 2, 3]);
    let mut segs = vec![];
    for i in 0..k {
        let id = 100 + 10 * i as u64;
        let c = d.bump();
        d.files.insert(format!("wal_{}.wal", id), (c, t0 - 30 + i as u64));
        segs.push(id);
    }
    let snap = if r.chance(1, 2) { let c = d.bump(); d.files.insert("snapshot_50.snap".into(), (c, t0 - 40)); Some(50) } else { None };
    d.man = Man::Modern { snap, seq: snap.map(|_| 3), segs: segs.clone(), last_updated: 7 };
    // irregular shapes
    match r.below(14) {
        0 => d.man = Man::Missing,
        1 => d.man = Man::Garbage(b"not a manifest".to_vec()),
        2 => d.man = Man::Garbage(vec![0xff, 0xfe, 0x00, 0x41]),
        3 => { // listed but missing
            if let Man::Modern { segs, .. } = &mut d.man { segs.push(95); }
        }
        4 => { // on disk but unlisted
            let c = d.bump(); d.files.insert("wal_105.wal".into(), (c, t0 - 25));
        }
        5 => { // unsorted / duplicated list
            if let Man::Modern { segs, .. } = &mut d.man { segs.reverse(); if let Some(f) = segs.first().cloned() { segs.push(f); } }
        }
        6 => { // named snapshot missing
            if let Man::Modern { snap, .. } = &mut d.man { *snap = Some(77); }
        }
        7 => { let c = d.bump(); d.files.insert("notes.txt".into(), (c, t0 - 5)); }
        _ => {}
    }
    d
}

fn mutate_dir(r: &mut Rng, d: &mut SynDir, t_parent: u64) {
    let n = r.range(1, 3);
    for _ in 0..n {
        let delta = *r.pick(&[-10i64, -1, 0, 0, 1, 50]);
        let mt = (t_parent as i64 + delta) as u64;
        let ids = d.wal_ids();
        match r.below(12) {
            0..=3 => { // append to the newest segment
                if let Some(id) = ids.last() { let c = d.bump(); d.files.insert(format!("wal_{}.wal", id), (c, mt)); }
            }
            4..=5 => { // rotation
                let id = ids.last().cloned().unwrap_or(90) + *r.pick(&[1u64, 10]);
                let c = d.bump();
                d.files.insert(format!("wal_{}.wal", id), (c, mt));
                if !r.chance(1, 8) { if let Man::Modern { segs, .. } = &mut d.man { segs.push(id); } }
                d.man_mtime = mt;
            }
            6..=7 => { // snapshot
                let sid = 200 + d.ver;
                let c = d.bump();
                d.files.insert(format!("snapshot_{}.snap", sid), (c, mt));
                if let Man::Modern { snap, seq, .. } = &mut d.man { *snap = Some(sid); *seq = Some(seq.unwrap_or(0) + 2); }
                d.man_mtime = mt;
            }
            8 => { // compaction of the oldest segment
                if ids.len() > 1 {
                    let victim = ids[0];
                    let how = r.below(5);
                    if how != 0 { d.files.remove(&format!("wal_{}.wal", victim)); }
                    if how != 1 { if let Man::Modern { segs, .. } = &mut d.man { segs.retain(|s| *s != victim); } }
                    d.man_mtime = mt;
                }
            }
            9 => { // mtime only
                if !ids.is_empty() { let id = *r.pick(&ids); if let Some(e) = d.files.get_mut(&format!("wal_{}.wal", id)) { e.1 = mt; } }
            }
            10 => { // rewrite of an older segment (the engine never does this)
                if ids.len() > 1 { let c = d.bump(); d.files.insert(format!("wal_{}.wal", ids[0]), (c, mt)); }
            }
            _ => {
                if r.chance(1, 3) { d.man = Man::Missing; }
            }
        }
    }
}

fn target_variant(r: &mut Rng) -> Files {
    let mut f = Files::new();
    match r.below(6) {
        0 | 1 => {}
        2 => { f.insert("MANIFEST".into(), b"{\"old\":1}".to_vec()); }
        3 => { f.insert("MANIFEST".into(), b"{\"old\":1}".to_vec()); f.insert("wal_5.wal".into(), b"stale".to_vec()); f.insert("zzz.bin".into(), b"z".to_vec()); }
        4 => { f.insert("keep.txt".into(), b"keep".to_vec()); }
        _ => { f.insert("wal_100.wal".into(), b"stale-100".to_vec()); f.insert("snapshot_50.snap".into(), b"stale-snap".to_vec()); }
    }
    f
}

pub fn run(seed: u64, n: usize, work: &Path, env_allow: bool, only: Option<usize>) -> Acc {
    let mut acc = Acc::default();
    let root = work.join(if env_allow { "synth_env" } else { "synth" });
    let _ = std::fs::remove_dir_all(&root);
    for i in 0..n {
        if let Some(o) = only { if o != i { continue; } }
        let mut r = Rng::new(seed ^ (0xD0D0_0000 + i as u64).wrapping_mul(0x9E37_79B9_7F4A_7C15));
        let base = 1_000_000u64;
        let src = root.join("src");
        let bk = root.join(format!("bk{}", i));
        let mut d = gen_dir(&mut r, base);
        let mgr = BackupManager::new(&bk, &src).unwrap();
        let mut metas: Vec<BackupMetadata> = vec![];
        let mut pristine: BTreeMap<Uuid, Vec<(String, Vec<u8>)>> = BTreeMap::new();
        let rep = json!({"stage": "D", "seed": seed, "index": i});
        let mut ab = Abs::default(); // one token space per scenario
        let nb = r.range(1, 4) as usize;
        for k in 0..nb {
            d.write(&src);
            let snap = DirSnap::read(&src);
            let full = k == 0 || metas.is_empty() || r.chance(1, 4);
            let (res, kind) = if full {
                (mgr.create_full_backup(format!("s{}b{}", i, k)), "None".to_string())
            } else if r.chance(1, 12) {
                (mgr.create_incremental_backup(Uuid::from_u128(0xdead_0000 + k as u128), "orphan".into()), format!("(Some ({}, 9999))", meta_store_literal(&metas)))
            } else {
                let p = if r.chance(3, 4) { metas.last().unwrap().clone() } else { r.pick(&metas).clone() };
                (mgr.create_incremental_backup(p.id, format!("s{}b{}", i, k)), format!("(Some ({}, {}))", meta_store_literal(&metas), store_index(&metas, p.id)))
            };
            let obs = match &res { Ok(m) => created_literal(&mut ab, &bk, m), Err(e) => format!("(Err {})", create_err_class(&format!("{:#}", e))) };
            let cid = acc.new_case(json!({"stage": "D", "kind": "create", "scenario": i, "step": k, "full": full, "env_allow": env_allow, "replay": rep}));
            let lit = format!("{}, {}, {}", snap.sdir_literal(&mut ab), kind, obs);
            acc.create_cases.push(format!("(@ID{}@, {})", cid, lit));
            if acc.distinct.insert(format!("Dc:{}", lit)) { acc.nontrivial += 1; }
            match res {
                Ok(mut m) => {
                    acc.bump(if m.backup_type == BackupType::Full { "synth_create_full_ok" } else { "synth_create_incremental_ok" });
                    pristine.insert(m.id, read_members(&bk, m.id));
                    // fake clock: distinct, increasing timestamps
                    m.timestamp = base + 100 * (metas.len() as u64 + 1) + r.below(3);
                    std::fs::write(bk.join(format!("backup_{}.json", m.id)), serde_json::to_string_pretty(&m).unwrap()).unwrap();
                    metas.push(m);
                }
                Err(e) => acc.bump(&format!("synth_create_refused:{}", create_err_class(&format!("{:#}", e)))),
            }
            let tp = metas.last().map(|m| m.timestamp).unwrap_or(base);
            mutate_dir(&mut r, &mut d, tp);
        }
        if metas.is_empty() { let _ = std::fs::remove_dir_all(&bk); acc.close_unit(); continue; }
        // ---- damage some archives, remove some metadata
        let mut bad: BTreeSet<Uuid> = BTreeSet::new();
        let mut present: Vec<BackupMetadata> = vec![];
        for m in &metas {
            let tar = bk.join(format!("backup_{}.tar", m.id));
            match r.below(14) {
                0 => { let mut b = std::fs::read(&tar).unwrap(); if let Some(ms) = parse_archive(&b) { if let Some(x) = ms.iter().find(|x| !x.data.is_empty()) { let o = x.data_off + r.below(x.data.len() as u64) as usize; b[o] ^= 0x40; std::fs::write(&tar, b).unwrap(); bad.insert(m.id); } } }
                1 => { std::fs::remove_file(&tar).unwrap(); bad.insert(m.id); }
                2 => { let b = std::fs::read(&tar).unwrap(); std::fs::write(&tar, &b[..b.len() - 1 - r.below(3) as usize]).unwrap(); bad.insert(m.id); }
                3 => { std::fs::remove_file(bk.join(format!("backup_{}.json", m.id))).unwrap(); continue; }
                _ => {}
            }
            present.push(m.clone());
        }
        let store_name = format!("sst_@ID{}@", acc.case_json.len());
        acc.defs.push(format!("Definition {} : store := {}.", store_name, store_literal_with(&mut ab, &present, &|u| pristine.get(&u).cloned().unwrap_or_default(), &bad)));
        // ---- requests
        let mut reqs: Vec<(bool, u64, Uuid)> = vec![]; // (by_id, ts, id)
        for m in &metas { reqs.push((true, 0, m.id)); }
        reqs.push((true, 0, Uuid::from_u128(0xbeef)));
        for m in &metas { for dt in [0i64, -1, 1] { if r.chance(1, 2) { reqs.push((false, (m.timestamp as i64 + dt) as u64, Uuid::nil())); } } }
        reqs.push((false, base - 5, Uuid::nil()));
        reqs.push((false, base + 100_000, Uuid::nil()));
        for (by_id, ts, id) in reqs {
            let tfiles = target_variant(&mut r);
            let (allow, dry) = match r.below(10) { 0..=3 => (false, false), 4..=7 => (true, false), 8 => (false, true), _ => (true, true) };
            let tgt = root.join("tgt");
            let _ = std::fs::remove_dir_all(&tgt);
            write_files(&tfiles, &tgt);
            let rm = RestoreManager::new(&bk, &tgt).unwrap();
            let opts = ClearDirectoryOptions::new().with_allow_clear(allow).with_dry_run(dry);
            let res = if by_id { rm.restore_from_backup_with_options(id, &opts) } else { rm.restore_point_in_time_with_options(ts, &opts) };
            let after = read_files(&tgt);
            let store = store_name.clone();
            let tlit = ab.tdir(&tfiles.iter().map(|(a, b)| (a.clone(), b.clone())).collect::<Vec<_>>());
            let rq = if by_id { format!("inl {}", store_index(&present, id)) } else { format!("inr {}", ts) };
            let obs = outcome_literal(&mut ab, &res, &tgt);
            let cid = acc.new_case(json!({"stage": "D", "kind": if by_id { "restore" } else { "pitr" }, "scenario": i, "allow_clear": allow, "dry_run": dry, "env_allow": env_allow,
                "target_files": tfiles.keys().collect::<Vec<_>>(), "outcome": match &res { Ok(()) => "ok".to_string(), Err(e) => format!("{:#}", e) }, "replay": rep}));
            let lit = format!("{}, {}, {}, mkOpts {} {} {}, {}", store, tlit, rq, allow, dry, env_allow, obs);
            acc.restore_cases.push(format!("(@ID{}@, {})", cid, lit));
            if acc.distinct.insert(format!("Dr:{}", lit)) { acc.nontrivial += 1; }
            acc.bump(&format!("synth_{}:{}", if by_id { "restore" } else { "pitr" }, match &res { Ok(()) => if dry { "ok-dry-run" } else { "ok" }, Err(e) => restore_err_class(&format!("{:#}", e)) }));
            // direct oracles
            let mut why = None;
            if res.is_err() && after != tfiles { why = Some("a refused restore modified the target directory"); }
            if !allow && !env_allow && !tfiles.is_empty() && (res.is_ok() || after != tfiles) { why = Some("non-empty target cleared or overwritten without confirmation"); }
            if dry && after != tfiles { why = Some("dry run modified the target directory"); }
            if let Some(w) = why {
                acc.fails.push(json!({"stage": "D", "why": w, "class": null, "case": acc.case_json[cid], "target_after": after.keys().collect::<Vec<_>>(), "replay": rep}));
            }
        }
        if acc.samples.is_empty() { acc.samples.push(json!({"stage": "D", "scenario": i, "backups": metas.iter().map(|m| json!({"type": format!("{:?}", m.backup_type), "members": pristine.get(&m.id).map(|v| v.iter().map(|(n, _)| n.clone()).collect::<Vec<_>>())})).collect::<Vec<_>>()})); }
        let _ = std::fs::remove_dir_all(&bk);
        acc.close_unit();
    }
    let _ = std::fs::remove_dir_all(&root);
    acc
}
