//! File-system helpers, an independent parser of the backup archive format, and the abstraction of
//! directories / archives / metadata into Gallina literals of Model/Backup.v.
use kyrodb_engine::backup::{BackupMetadata, BackupType};
use std::collections::{BTreeMap, BTreeSet, HashMap};
use std::path::Path;
use uuid::Uuid;

pub type Files = BTreeMap<String, Vec<u8>>;

pub fn now_secs() -> u64 {
    std::time::SystemTime::now().duration_since(std::time::UNIX_EPOCH).map(|d| d.as_secs()).unwrap_or(0)
}

pub fn read_files(dir: &Path) -> Files {
    let mut f = Files::new();
    if let Ok(rd) = std::fs::read_dir(dir) {
        for e in rd.flatten() {
            if e.path().is_file() {
                f.insert(e.file_name().to_string_lossy().to_string(), std::fs::read(e.path()).unwrap_or_default());
            }
        }
    }
    f
}

pub fn write_files(files: &Files, dir: &Path) {
    std::fs::create_dir_all(dir).unwrap();
    for (n, b) in files {
        std::fs::write(dir.join(n), b).unwrap();
    }
}

pub fn copy_dir(from: &Path, to: &Path) {
    let _ = std::fs::remove_dir_all(to);
    write_files(&read_files(from), to);
}

pub fn mtime_secs(p: &Path) -> u64 {
    std::fs::metadata(p).ok().and_then(|m| m.modified().ok()).and_then(|t| t.duration_since(std::time::UNIX_EPOCH).ok()).map(|d| d.as_secs()).unwrap_or(0)
}

pub fn set_mtime(p: &Path, secs: u64) {
    use std::os::unix::ffi::OsStrExt;
    let c = std::ffi::CString::new(p.as_os_str().as_bytes()).unwrap();
    let ts = [libc::timespec { tv_sec: secs as libc::time_t, tv_nsec: 0 }, libc::timespec { tv_sec: secs as libc::time_t, tv_nsec: 0 }];
    let rc = unsafe { libc::utimensat(libc::AT_FDCWD, c.as_ptr(), ts.as_ptr(), 0) };
    assert_eq!(rc, 0, "utimensat failed for {}", p.display());
}

// ---- archive format: [count u32] ([name_len u32][name][data_len u64][data])*
#[derive(Clone, Debug)]
pub struct Member {
    pub name: String,
    pub name_off: usize,
    pub data_off: usize,
    pub data: Vec<u8>,
}

pub fn parse_archive(b: &[u8]) -> Option<Vec<Member>> {
    if b.len() < 4 {
        return None;
    }
    let n = u32::from_le_bytes(b[0..4].try_into().ok()?) as usize;
    let mut p = 4usize;
    let mut v = vec![];
    for _ in 0..n {
        if p + 4 > b.len() { return None; }
        let nl = u32::from_le_bytes(b[p..p + 4].try_into().ok()?) as usize;
        p += 4;
        if p + nl + 8 > b.len() { return None; }
        let name = String::from_utf8(b[p..p + nl].to_vec()).ok()?;
        let name_off = p;
        p += nl;
        let dl = u64::from_le_bytes(b[p..p + 8].try_into().ok()?) as usize;
        p += 8;
        if p + dl > b.len() { return None; }
        v.push(Member { name, name_off, data_off: p, data: b[p..p + dl].to_vec() });
        p += dl;
    }
    Some(v)
}

pub fn read_members(bk: &Path, id: Uuid) -> Vec<(String, Vec<u8>)> {
    std::fs::read(bk.join(format!("backup_{}.tar", id))).ok().and_then(|b| parse_archive(&b)).map(|ms| ms.into_iter().map(|m| (m.name, m.data)).collect()).unwrap_or_default()
}

// ---- names
pub fn wal_id(name: &str) -> Option<u64> {
    let id = name.strip_prefix("wal_")?.strip_suffix(".wal")?.parse::<u64>().ok()?;
    if format!("wal_{}.wal", id) == name { Some(id) } else { None }
}
pub fn snap_id(name: &str) -> Option<u64> {
    let id = name.strip_prefix("snapshot_")?.strip_suffix(".snap")?.parse::<u64>().ok()?;
    if format!("snapshot_{}.snap", id) == name { Some(id) } else { None }
}
pub fn opt_n(x: Option<u64>) -> String {
    match x { Some(v) => format!("(Some {})", v), None => "None".into() }
}

/// Interning of contents / foreign names (one per case, so literals stay small).
#[derive(Default)]
pub struct Abs {
    blobs: HashMap<Vec<u8>, u64>,
    others: HashMap<String, u64>,
    aux: HashMap<String, u64>,
}

impl Abs {
    pub fn fname(&mut self, name: &str) -> String {
        if name == "MANIFEST" { return "FManifest".into(); }
        if let Some(i) = wal_id(name) { return format!("FWal {}", i); }
        if let Some(i) = snap_id(name) { return format!("FSnap {}", i); }
        let n = self.others.len() as u64;
        format!("FOther {}", *self.others.entry(name.to_string()).or_insert(n))
    }
    pub fn manifest(&mut self, bytes: &[u8]) -> Option<String> {
        let m: kyrodb_engine::Manifest = serde_json::from_slice(bytes).ok()?;
        let snap = match &m.latest_snapshot { Some(s) => Some(snap_id(s)?), None => None };
        let mut segs = vec![];
        for s in &m.wal_segments { segs.push(wal_id(s)?.to_string()); }
        let key = format!("{}:{}", m.version, m.last_updated);
        let n = self.aux.len() as u64;
        let aux = *self.aux.entry(key).or_insert(n);
        Some(format!("(mkMan {} {} [{}] {})", opt_n(snap), opt_n(m.latest_snapshot_wal_seq), segs.join("; "), aux))
    }
    pub fn content(&mut self, name: &str, bytes: &[u8]) -> String {
        if name == "MANIFEST" {
            if let Some(m) = self.manifest(bytes) { return format!("CMan {}", m); }
        }
        let n = self.blobs.len() as u64;
        format!("CBlob {}", *self.blobs.entry(bytes.to_vec()).or_insert(n))
    }
    pub fn tdir(&mut self, members: &[(String, Vec<u8>)]) -> String {
        let v: Vec<String> = members.iter().map(|(n, b)| format!("({}, {})", self.fname(n), self.content(n, b))).collect();
        format!("[{}]", v.join("; "))
    }
}

/// A data directory with mtimes (whole seconds), as the backup code sees it.
#[derive(Clone, Default)]
pub struct DirSnap {
    pub files: BTreeMap<String, (Vec<u8>, u64)>,
}

impl DirSnap {
    pub fn read(dir: &Path) -> DirSnap {
        let mut d = DirSnap::default();
        for (n, b) in read_files(dir) {
            let mt = mtime_secs(&dir.join(&n));
            d.files.insert(n, (b, mt));
        }
        d
    }
    pub fn sdir_literal(&self, ab: &mut Abs) -> String {
        let v: Vec<String> = self.files.iter().map(|(n, (b, mt))| format!("({}, ({}, {}))", ab.fname(n), ab.content(n, b), mt)).collect();
        format!("[{}]", v.join("; "))
    }
    pub fn manifest_literal(&self, ab: &mut Abs) -> Option<String> {
        self.files.get("MANIFEST").and_then(|(b, _)| ab.manifest(b))
    }
}

pub fn create_err_class(s: &str) -> &'static str {
    if s.contains("MANIFEST references missing WAL segment") { "EManifestSegMissing" }
    else if s.contains("MANIFEST references missing snapshot") { "ESnapshotMissing" }
    else if s.contains("Failed to parse MANIFEST") || s.contains("MANIFEST is not valid UTF-8") { "EBadManifest" }
    else if s.contains("No recoverable state") { "ENoState" }
    else if s.contains("No new WAL files") { "ENoNewWal" }
    else if s.contains("Cannot create incremental backup without MANIFEST") { "ENoManifest" }
    else if s.contains("Parent backup") { "EParentMetaMissing" }
    else { "EDiverge" }
}

pub fn restore_err_class(s: &str) -> &'static str {
    if s.contains("Backup file not found") || s.contains("checksum mismatch") || s.contains("failed to validate backup archive structure") { "EVerify" }
    else if s.contains("Parent backup") { "EParentNotFound" }
    else if s.contains("No full backup found before timestamp") { "ENoFullBefore" }
    else if s.contains("No full backup found in chain") { "ENoFull" }
    else if s.contains("requires explicit confirmation") { "ENeedConfirm" }
    else if s.starts_with("Backup ") && s.contains("not found") { "ENotFound" }
    else { "EDiverge" }
}

pub fn created_literal(ab: &mut Abs, bk: &Path, m: &BackupMetadata) -> String {
    let members = read_members(bk, m.id);
    format!("(Ok ({}, {}, {}))", ab.tdir(&members), opt_n(m.max_wal_file_id), opt_n(m.snapshot_file.as_deref().and_then(snap_id)))
}

pub fn store_index(metas: &[BackupMetadata], id: Uuid) -> u64 {
    match metas.iter().position(|m| m.id == id) { Some(p) => p as u64 + 1, None => 9000 + (id.as_u128() % 1000) as u64 }
}

pub fn store_literal_with(ab: &mut Abs, metas: &[BackupMetadata], members: &dyn Fn(Uuid) -> Vec<(String, Vec<u8>)>, bad: &BTreeSet<Uuid>) -> String {
    let v: Vec<String> = metas.iter().map(|m| {
        format!("mkBackup {} {} {} {} {} {} {} {} 0", store_index(metas, m.id),
            match m.parent_id { Some(p) => format!("(Some {})", store_index(metas, p)), None => "None".into() },
            if m.backup_type == BackupType::Full { "Full" } else { "Incremental" }, m.timestamp,
            ab.tdir(&members(m.id)), if bad.contains(&m.id) { "false" } else { "true" },
            opt_n(m.max_wal_file_id), opt_n(m.snapshot_file.as_deref().and_then(snap_id)))
    }).collect();
    format!("[{}]", v.join("; "))
}

/// metadata only (archives are irrelevant to create_incremental)
pub fn meta_store_literal(metas: &[BackupMetadata]) -> String {
    let v: Vec<String> = metas.iter().map(|m| {
        format!("mkBackup {} {} {} {} [] true {} {} 0", store_index(metas, m.id),
            match m.parent_id { Some(p) => format!("(Some {})", store_index(metas, p)), None => "None".into() },
            if m.backup_type == BackupType::Full { "Full" } else { "Incremental" }, m.timestamp,
            opt_n(m.max_wal_file_id), opt_n(m.snapshot_file.as_deref().and_then(snap_id)))
    }).collect();
    format!("[{}]", v.join("; "))
}

pub fn store_literal(ab: &mut Abs, bk: &Path, metas: &[BackupMetadata], bad: &BTreeSet<Uuid>) -> String {
    store_literal_with(ab, metas, &|id| read_members(bk, id), bad)
}

pub fn outcome_literal(ab: &mut Abs, res: &anyhow::Result<()>, tgt: &Path) -> String {
    let files: Vec<(String, Vec<u8>)> = read_files(tgt).into_iter().collect();
    let r = match res { Ok(()) => "None".to_string(), Err(e) => format!("(Some {})", restore_err_class(&format!("{:#}", e))) };
    format!("({}, {})", r, ab.tdir(&files))
}
