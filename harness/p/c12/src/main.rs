//! C12 driver: restoring a backup reproduces the collection as of that backup.
//!   c12 --out DIR --n N [--tier T] [--replay FILE]
//! Stages (all on the REAL BackupManager / RestoreManager of /repo):
//!   D  fabricated data directories (no engine): create full / incremental backups, restores by id and
//!      point-in-time into varied targets with varied options and tampered archives; every decision is
//!      written into cases_*.v and compared with Model/Backup.v inside coqc;
//!   A  seeded histories on the real HnswBackend with backups at quiescent points; every backup is
//!      restored into an empty directory, the real engine is started (strict) on it and its census must
//!      equal the census recorded when the backup was taken; PITR targets; prune with the default policy
//!      followed by a restore of every retained backup;
//!   B  every class of single-byte corruption / truncation of the archives and metadata of a real chain:
//!      restore must fail with the (pre-populated) target untouched, or give the untampered result;
//!   C  prune_backups on synthetic timelines vs the model and vs "every retained backup keeps its parents".
mod abs;
mod synth;

use abs::*;
use kvh::rng::Rng;
use kvh_pers::eng;
use kvh_pers::hist::*;
use kyrodb_engine::backup::{
    BackupManager, BackupMetadata, BackupType, ClearDirectoryOptions, RestoreManager, RetentionPolicy,
};
use serde_json::{json, Value};
use std::collections::{BTreeMap, BTreeSet, HashSet};
use std::path::{Path, PathBuf};
use std::sync::Mutex;
use uuid::Uuid;

pub const CLASS_PRUNE: &str = "C12-prune-deletes-parent-of-retained-incremental";
pub const CLASS_SNAP: &str = "C12-incremental-after-snapshot-compaction";
pub const CLASS_NAME: &str = "C12-archive-member-name-not-covered-by-checksum";

/// Everything a stage produces.
#[derive(Default)]
pub struct Acc {
    pub defs: Vec<String>,          // Gallina definitions shared by the cases of this unit
    pub create_cases: Vec<String>,  // Gallina tuples
    pub restore_cases: Vec<String>,
    pub prune_cases: Vec<String>,
    pub wf_cases: Vec<String>,
    pub evolve_cases: Vec<String>,
    pub snap_cases: Vec<String>,
    pub units: Vec<Unit>,           // closed units (definitions + the cases that use them)
    pub case_json: Vec<Value>,      // index = case id
    pub fails: Vec<Value>,
    pub hist: BTreeMap<String, u64>,
    pub distinct: HashSet<String>,
    pub nontrivial: u64,
    pub samples: Vec<Value>,
    pub notes: Vec<String>,
}

#[derive(Default, Clone)]
pub struct Unit {
    pub defs: Vec<String>,
    pub create: Vec<String>,
    pub restore: Vec<String>,
    pub prune: Vec<String>,
    pub wf: Vec<String>,
    pub evolve: Vec<String>,
    pub snap: Vec<String>,
}

impl Acc {
    /// close the current unit: its definitions and cases stay together in one shard
    pub fn close_unit(&mut self) {
        let u = Unit { defs: std::mem::take(&mut self.defs), create: std::mem::take(&mut self.create_cases), restore: std::mem::take(&mut self.restore_cases),
            prune: std::mem::take(&mut self.prune_cases), wf: std::mem::take(&mut self.wf_cases), evolve: std::mem::take(&mut self.evolve_cases), snap: std::mem::take(&mut self.snap_cases) };
        if !(u.create.is_empty() && u.restore.is_empty() && u.prune.is_empty() && u.wf.is_empty() && u.evolve.is_empty() && u.snap.is_empty()) {
            self.units.push(u);
        }
    }
    pub fn bump(&mut self, k: &str) {
        *self.hist.entry(k.to_string()).or_insert(0) += 1;
    }
    pub fn new_case(&mut self, v: Value) -> usize {
        self.case_json.push(v);
        self.case_json.len() - 1
    }
    pub fn merge(&mut self, o: Acc, id_shift: usize) {
        // case ids inside o's Gallina tuples are local; they are written as @ID<n>@ and shifted here
        let mut o = o;
        o.close_unit();
        let fix = |v: &Vec<String>| -> Vec<String> { v.iter().map(|s| shift_ids(s, id_shift)).collect() };
        for u in &o.units {
            self.units.push(Unit { defs: fix(&u.defs), create: fix(&u.create), restore: fix(&u.restore), prune: fix(&u.prune), wf: fix(&u.wf), evolve: fix(&u.evolve), snap: fix(&u.snap) });
        }
        self.case_json.extend(o.case_json);
        self.fails.extend(o.fails);
        for (k, v) in o.hist {
            *self.hist.entry(k).or_insert(0) += v;
        }
        for d in o.distinct {
            if self.distinct.insert(d) {}
        }
        self.nontrivial += o.nontrivial;
        for s in o.samples {
            if self.samples.len() < 4 {
                self.samples.push(s);
            }
        }
        self.notes.extend(o.notes);
    }
}

fn shift_ids(s: &str, shift: usize) -> String {
    // "@ID12@" -> "<12+shift>"
    let mut out = String::with_capacity(s.len());
    let mut rest = s;
    while let Some(p) = rest.find("@ID") {
        out.push_str(&rest[..p]);
        let tail = &rest[p + 3..];
        let q = tail.find('@').unwrap();
        let n: usize = tail[..q].parse().unwrap();
        out.push_str(&format!("{}", n + shift));
        rest = &tail[q + 1..];
    }
    out.push_str(rest);
    out
}

// ------------------------------------------------------------------------------------------------
// Stage A: real engine histories
// ------------------------------------------------------------------------------------------------
#[derive(Clone)]
#[allow(dead_code)]
struct Taken {
    meta: BackupMetadata,
    census: Census,
    dir: DirSnap,
    after: String, // what happened since the previous backup (for the non-triviality rule)
}

fn census_json(c: &Census) -> Value {
    json!(c.iter().map(|(k, v)| json!([k, v.0, v.1])).collect::<Vec<_>>())
}

fn wait_new_second(last: u64) {
    while now_secs() <= last {
        std::thread::sleep(std::time::Duration::from_millis(40));
    }
}

/// chain (oldest first) of a backup inside `all`, following parent ids
fn chain_of<'a>(all: &'a [Taken], id: Uuid) -> Vec<&'a Taken> {
    let mut v = vec![];
    let mut cur = all.iter().find(|t| t.meta.id == id);
    while let Some(t) = cur {
        v.push(t);
        if t.meta.backup_type == BackupType::Full {
            break;
        }
        cur = t.meta.parent_id.and_then(|p| all.iter().find(|x| x.meta.id == p));
    }
    v.reverse();
    v
}

/// input class (8b): the tip is an incremental whose shipped MANIFEST names a snapshot that no
/// archive of its chain contains.
fn snapshot_not_in_chain(bk: &Path, chain: &[&Taken]) -> bool {
    let tip = match chain.last() {
        Some(t) if t.meta.backup_type == BackupType::Incremental => t,
        _ => return false,
    };
    let members = |id: Uuid| -> Vec<(String, Vec<u8>)> {
        std::fs::read(bk.join(format!("backup_{}.tar", id))).ok().and_then(|b| parse_archive(&b)).map(|ms| ms.into_iter().map(|m| (m.name, m.data)).collect()).unwrap_or_default()
    };
    let tipm = members(tip.meta.id);
    let man = match tipm.iter().find(|(n, _)| n == "MANIFEST") {
        Some((_, b)) => b.clone(),
        None => return false,
    };
    let snap = match serde_json::from_slice::<kyrodb_engine::Manifest>(&man) {
        Ok(m) => m.latest_snapshot,
        Err(_) => return false,
    };
    match snap {
        None => false,
        Some(s) => !chain.iter().any(|t| members(t.meta.id).iter().any(|(n, _)| *n == s)),
    }
}

fn run_history(seed: u64, idx: usize, work: &Path, backups_per_history: usize) -> (Acc, Option<(PathBuf, Vec<Taken>, Cfg)>) {
    kvh::panicrec::set_input(format!("{{\"c12_history\": {{\"seed\": {}, \"idx\": {}}}}}", seed, idx));
    let mut acc = Acc::default();
    let mut r = Rng::new(seed ^ (0xA5A5_0000 + idx as u64).wrapping_mul(0x9E37_79B9_7F4A_7C15));
    let root = work.join(format!("hist_{}", idx));
    let _ = std::fs::remove_dir_all(&root);
    let src = root.join("src");
    let bk = root.join("bk");
    std::fs::create_dir_all(&src).unwrap();
    let mut cfg = gen_cfg(&mut r, "always");
    if idx % 3 == 0 {
        cfg.max_wal_bytes = 1 << 20; // keep appending to one segment across backups
    }
    if idx % 4 == 1 {
        cfg.snapshot_interval = 1000; // only explicit snapshots
    }
    cfg.capacity = cfg.capacity.max(8);
    let gp = GenParams { max_ops: 7, ids: 6, allow_restart: true, allow_batch: true };
    let mut engine = match eng::start(&cfg, &src) {
        Ok(e) => Some(e),
        Err(e) => {
            acc.fails.push(json!({"stage": "A", "why": format!("fresh engine does not start: {:#}", e), "class": null, "replay": {"stage": "A", "seed": seed, "index": idx}}));
            return (acc, None);
        }
    };
    let mgr = BackupManager::new(&bk, &src).unwrap();
    let mut ab = Abs::default(); // one token space per history
    let mut dir_names: Vec<String> = vec![];
    let mut taken: Vec<Taken> = vec![];
    let mut program: Vec<Value> = vec![];
    let mut shadow_restarts;
    for k in 0..backups_per_history {
        let h = gen_history(&mut r, cfg.clone(), &gp);
        let mut after = vec![];
        shadow_restarts = 0;
        for op in &h.ops {
            let out = eng::apply(&mut engine, &cfg, &src, op);
            match op {
                Op::Snapshot => after.push("snapshot"),
                Op::Restart => { after.push("restart"); shadow_restarts += 1; }
                _ => {}
            }
            if let (Op::Restart, Out::Err(e)) = (op, &out) {
                acc.fails.push(json!({"stage": "A", "why": format!("restart of the live directory failed: {}", e), "class": null, "replay": {"stage": "A", "seed": seed, "index": idx}}));
                return (acc, None);
            }
            acc.bump(match op { Op::Insert { .. } | Op::InsertBits { .. } => "op_insert", Op::Delete { .. } => "op_delete", Op::BatchDelete { .. } => "op_batch_delete", Op::UpdateMeta { .. } => "op_update_meta", Op::Snapshot => "op_snapshot", Op::Restart => "op_restart" });
            program.push(json!({"op": op, "out": out}));
        }
        let _ = shadow_restarts;
        let be = engine.as_ref().unwrap();
        let census = eng::census(be);
        wait_new_second(taken.last().map(|t| t.meta.timestamp).unwrap_or(0));
        let dir = DirSnap::read(&src);
        let full_roll = r.chance(1, 5);
        let full = k == 0 || (full_roll && !(idx % 2 == 1 && k <= 2));
        // the parent of an incremental is usually the backup before it; sometimes an EARLIER backup of the
        // same full chain (two incrementals then share a parent: the timeline of parent pointers branches
        // although the engine's history is linear)
        let last_full = taken.iter().rposition(|t| t.meta.backup_type == BackupType::Full).unwrap_or(0);
        let forced_sibling = idx % 2 == 1 && k == 2; // every second history has two incrementals sharing a parent
        let pidx = if !full && taken.len() >= 2 && taken.len() - 1 > last_full && (forced_sibling || r.chance(1, 3)) {
            acc.bump("incremental_against_earlier_parent");
            last_full + r.below((taken.len() - 1 - last_full) as u64) as usize
        } else {
            taken.len().saturating_sub(1)
        };
        let parent = taken.get(pidx).map(|t| t.meta.clone());
        let res = if full { mgr.create_full_backup(format!("h{}b{}", idx, k)) } else { mgr.create_incremental_backup(parent.as_ref().unwrap().id, format!("h{}b{}", idx, k)) };
        // correspondence: which members did the implementation archive?
        let metas_now: Vec<BackupMetadata> = taken.iter().map(|t| t.meta.clone()).collect();
        let kind = if full { "None".to_string() } else { format!("(Some ({}, {}))", meta_store_literal(&metas_now), store_index(&metas_now, parent.as_ref().unwrap().id)) };
        let obs = match &res {
            Ok(m) => created_literal(&mut ab, &bk, m),
            Err(e) => format!("(Err {})", create_err_class(&format!("{:#}", e))),
        };
        let cid = acc.new_case(json!({"stage": "A", "kind": "create", "history": idx, "backup": k, "full": full, "replay": {"stage": "A", "seed": seed, "index": idx}}));
        let dname = format!("hd_@ID{}@", cid);
        acc.defs.push(format!("Definition {} : sdir := {}.", dname, dir.sdir_literal(&mut ab)));
        acc.create_cases.push(format!("(@ID{}@, {}, {}, {})", cid, dname, kind, obs));
        // premises of the theorems, on the real engine's directory
        if let Some(ml) = dir.manifest_literal(&mut ab) {
            let wid = acc.new_case(json!({"stage": "A", "kind": "premise-wf", "history": idx, "backup": k}));
            acc.wf_cases.push(format!("(@ID{}@, {}, {})", wid, dname, ml));
        }
        if let (false, Some(p), Some(pname)) = (full, parent.as_ref(), dir_names.get(pidx)) {
            let eid = acc.new_case(json!({"stage": "A", "kind": "premise-evolves", "history": idx, "backup": k}));
            acc.evolve_cases.push(format!("(@ID{}@, {}, {}, {}, {})", eid, pname, p.timestamp, opt_n(p.max_wal_file_id), dname));
        }
        for earlier in &dir_names {
            let sid = acc.new_case(json!({"stage": "A", "kind": "premise-snapshot-names-stable", "history": idx, "backup": k}));
            acc.snap_cases.push(format!("(@ID{}@, {}, {})", sid, earlier, dname));
        }
        match res {
            Ok(m) => {
                acc.bump(if full { "backup_full" } else { "backup_incremental" });
                program.push(json!({"backup": if full { "full" } else { "incremental" }, "id": m.id.to_string(), "ts": m.timestamp, "census": census_json(&census)}));
                taken.push(Taken { meta: m, census, dir, after: after.join("+") });
                dir_names.push(dname);
            }
            Err(e) => {
                let s = format!("{:#}", e);
                acc.bump(&format!("backup_refused:{}", create_err_class(&s)));
                program.push(json!({"backup_refused": s}));
                // "No new WAL files" is legitimate only when nothing was logged since the parent backup
                let unchanged = taken.get(pidx).map(|t| t.census == census).unwrap_or(false);
                if !s.contains("No new WAL files") || !unchanged {
                    acc.fails.push(json!({"stage": "A", "why": format!("backup of a quiescent engine directory refused{}: {}", if unchanged { "" } else { " although the collection changed since the parent backup" }, s), "class": null, "program": program, "cfg": cfg, "replay": {"stage": "A", "seed": seed, "index": idx}}));
                }
            }
        }
    }
    drop(engine);
    if acc.samples.is_empty() {
        acc.samples.push(json!({"stage": "A", "cfg": cfg, "program": program.iter().take(12).collect::<Vec<_>>()}));
    }
    // ---- restore every backup into an empty directory, start the real engine, compare the census
    let rep = json!({"stage": "A", "seed": seed, "index": idx});
    let all_meta: Vec<BackupMetadata> = taken.iter().map(|t| t.meta.clone()).collect();
    let store_name = format!("hst_@ID{}@", acc.case_json.len());
    acc.defs.push(format!("Definition {} : store := {}.", store_name, store_literal(&mut ab, &bk, &all_meta, &BTreeSet::new())));
    let check_restore = |acc: &mut Acc, label: &str, tgt: &Path, res: anyhow::Result<()>, expect: Option<&Taken>, bkdir: &Path, deleted: &[Uuid]| {
        let exp = match expect {
            Some(e) => e,
            None => {
                if res.is_ok() {
                    acc.fails.push(json!({"stage": "A", "why": format!("{}: succeeded although no backup qualifies", label), "class": null, "cfg": cfg, "program": program, "replay": rep}));
                }
                return;
            }
        };
        let chain = chain_of(&taken, exp.meta.id);
        let snap_class = snapshot_not_in_chain(bkdir, &chain);
        let mut class: Option<&str> = None;
        let why;
        match res {
            Err(e) => {
                let s = format!("{:#}", e);
                if s.contains("Parent backup") && chain.iter().any(|t| deleted.contains(&t.meta.id)) {
                    class = Some(CLASS_PRUNE);
                }
                why = format!("{}: restore of a verified backup failed: {}", label, s);
            }
            Ok(()) => match eng::start(&cfg, tgt) {
                Err(e) => {
                    if snap_class { class = Some(CLASS_SNAP); }
                    why = format!("{}: engine refuses to start on the restored directory: {:#}", label, e);
                }
                Ok(be) => {
                    let got = eng::census(&be);
                    drop(be);
                    if got == exp.census {
                        acc.bump("restore_exact");
                        let key = format!("A:{}:{}:{}", idx, label, exp.meta.id);
                        if (chain.len() > 1 || !exp.after.is_empty()) && acc.distinct.insert(key) {
                            acc.nontrivial += 1;
                        }
                        return;
                    }
                    if snap_class { class = Some(CLASS_SNAP); }
                    why = format!("{}: restored collection differs from the collection at backup time: ids restored {:?}, at backup time {:?}", label, got.keys().collect::<Vec<_>>(), exp.census.keys().collect::<Vec<_>>());
                }
            },
        }
        acc.bump(&format!("restore_failure:{}", class.unwrap_or("unclassified")));
        acc.fails.push(json!({"stage": "A", "why": why, "class": class, "cfg": cfg,
            "chain": chain.iter().map(|t| json!({"id": t.meta.id.to_string(), "type": format!("{:?}", t.meta.backup_type), "ts": t.meta.timestamp, "since_previous_backup": t.after})).collect::<Vec<_>>(),
            "expected_census": census_json(&exp.census), "program": program, "replay": rep}));
    };
    for (k, t) in taken.iter().enumerate() {
        let tgt = root.join(format!("restore_{}", k));
        let _ = std::fs::remove_dir_all(&tgt);
        std::fs::create_dir_all(&tgt).unwrap();
        let rm = RestoreManager::new(&bk, &tgt).unwrap();
        let res = rm.restore_from_backup_with_options(t.meta.id, &ClearDirectoryOptions::default());
        // model correspondence of this restore
        let store = store_name.clone();
        let obs = outcome_literal(&mut ab, &res, &tgt);
        let cid = acc.new_case(json!({"stage": "A", "kind": "restore", "history": idx, "backup": k, "replay": rep}));
        acc.restore_cases.push(format!("(@ID{}@, {}, [], inl {}, mkOpts false false false, {})", cid, store, store_index(&all_meta, t.meta.id), obs));
        check_restore(&mut acc, &format!("restore backup #{}", k), &tgt, res, Some(t), &bk, &[]);
    }
    // ---- point in time
    let mut targets: Vec<u64> = vec![];
    for t in &taken {
        targets.push(t.meta.timestamp);
        targets.push(t.meta.timestamp + 1);
    }
    if let Some(t0) = taken.first() {
        targets.push(t0.meta.timestamp - 1);
    }
    targets.sort_unstable();
    targets.dedup();
    for (j, ts) in targets.iter().enumerate() {
        let tgt = root.join(format!("pitr_{}", j));
        let _ = std::fs::remove_dir_all(&tgt);
        std::fs::create_dir_all(&tgt).unwrap();
        let rm = RestoreManager::new(&bk, &tgt).unwrap();
        let res = rm.restore_point_in_time_with_options(*ts, &ClearDirectoryOptions::default());
        let store = store_name.clone();
        let obs = outcome_literal(&mut ab, &res, &tgt);
        let cid = acc.new_case(json!({"stage": "A", "kind": "pitr", "history": idx, "target": ts, "replay": rep}));
        acc.restore_cases.push(format!("(@ID{}@, {}, [], inr {}, mkOpts false false false, {})", cid, store, ts, obs));
        // timelines are linear (every incremental's parent is the backup before it): the latest backup <= target
        let expect = taken.iter().filter(|t| t.meta.timestamp <= *ts).last();
        acc.bump("pitr");
        // With branching parent pointers "the chain to the target" is the newest qualifying child at every
        // step from the newest qualifying full backup; the direct oracle applies when that walk ends at the
        // latest backup not after the target (always so on linear timelines and for plain siblings).
        let walk_end = {
            let mut cur = taken.iter().filter(|t| t.meta.timestamp <= *ts && t.meta.backup_type == BackupType::Full).last();
            while let Some(c) = cur {
                match taken.iter().filter(|t| t.meta.parent_id == Some(c.meta.id) && t.meta.timestamp <= *ts && t.meta.backup_type == BackupType::Incremental).last() {
                    Some(n) => cur = Some(n),
                    None => break,
                }
            }
            cur
        };
        if walk_end.map(|t| t.meta.id) == expect.map(|t| t.meta.id) {
            check_restore(&mut acc, &format!("point-in-time {}", ts), &tgt, res, expect, &bk, &[]);
        } else {
            acc.bump("pitr_branching_walk_not_latest(model correspondence only)");
        }
    }
    // ---- prune (default policy) on a copy of the backup directory, then restore every retained backup
    if taken.len() >= 2 {
        let bk2 = root.join("bk_pruned");
        copy_dir(&bk, &bk2);
        let mgr2 = BackupManager::new(&bk2, &src).unwrap();
        let listing = mgr2.list_backups().unwrap_or_default();
        let n0 = now_secs();
        let deleted = mgr2.prune_backups(&RetentionPolicy::default()).unwrap_or_default();
        let n1 = now_secs();
        if n0 == n1 {
            let cid = acc.new_case(json!({"stage": "A", "kind": "prune", "history": idx, "replay": rep}));
            acc.prune_cases.push(prune_literal(cid, n0, &RetentionPolicy::default(), &listing, &deleted));
        }
        acc.bump("prune_real_store");
        for (k, t) in taken.iter().enumerate() {
            if deleted.contains(&t.meta.id) {
                continue;
            }
            let tgt = root.join(format!("restore_pruned_{}", k));
            let _ = std::fs::remove_dir_all(&tgt);
            std::fs::create_dir_all(&tgt).unwrap();
            let rm = RestoreManager::new(&bk2, &tgt).unwrap();
            let res = rm.restore_from_backup_with_options(t.meta.id, &ClearDirectoryOptions::default());
            check_restore(&mut acc, &format!("after prune(default policy): restore retained backup #{}", k), &tgt, res, Some(t), &bk2, &deleted);
        }
    }
    (acc, Some((root, taken, cfg)))
}

// ------------------------------------------------------------------------------------------------
// Stage B: tampering with a real chain
// ------------------------------------------------------------------------------------------------
#[derive(Clone, Debug)]
struct Mutation {
    file: String,   // file name inside the backup directory
    what: String,   // position class
    kind: String,   // "flip" | "truncate"
    offset: usize,
    xor: u8,
}

fn archive_mutations(name: &str, bytes: &[u8], r: &mut Rng, payload_budget: usize) -> Vec<Mutation> {
    let mut v = vec![];
    let ms = match parse_archive(bytes) { Some(m) => m, None => return v };
    let flip = |v: &mut Vec<Mutation>, what: &str, off: usize, r: &mut Rng| {
        let x = *r.pick(&[0x01u8, 0x02, 0x10, 0x20, 0x80, 0xff]);
        v.push(Mutation { file: name.to_string(), what: what.to_string(), kind: "flip".into(), offset: off, xor: x });
    };
    for o in 0..4 { flip(&mut v, "file-count", o, r); }
    let mut cuts: BTreeSet<usize> = [0usize, 1, 3, 4, 5].into_iter().collect();
    for m in &ms {
        for o in 0..4 { flip(&mut v, "member-name-length", m.name_off - 4 + o, r); }
        for o in 0..m.name.len() {
            // both a low-bit and a high-bit change of every name byte
            v.push(Mutation { file: name.to_string(), what: "member-name".into(), kind: "flip".into(), offset: m.name_off + o, xor: 0x01 });
            flip(&mut v, "member-name", m.name_off + o, r);
        }
        for o in 0..8 { flip(&mut v, "member-data-length", m.data_off - 8 + o, r); }
        if m.data.len() > 0 {
            let mut offs: BTreeSet<usize> = [0, m.data.len() - 1, m.data.len() / 2].into_iter().collect();
            for _ in 0..payload_budget { offs.insert(r.below(m.data.len() as u64) as usize); }
            for o in offs { flip(&mut v, "member-payload", m.data_off + o, r); }
        }
        for c in [m.name_off - 4, m.name_off, m.name_off + m.name.len(), m.data_off, m.data_off + 1, m.data_off + m.data.len()] {
            cuts.insert(c);
            if c > 0 { cuts.insert(c - 1); }
        }
    }
    cuts.insert(bytes.len() - 1);
    for c in cuts {
        if c < bytes.len() {
            v.push(Mutation { file: name.to_string(), what: "truncate-archive".into(), kind: "truncate".into(), offset: c, xor: 0 });
        }
    }
    v
}

fn json_field_at(text: &str, off: usize) -> String {
    // name of the top-level field whose line contains the offset (the metadata is pretty-printed, one field per line)
    let line_start = text[..off].rfind('\n').map(|p| p + 1).unwrap_or(0);
    let line = &text[line_start..text[off..].find('\n').map(|p| off + p).unwrap_or(text.len())];
    let key_end_rel = line.find("\":");
    match (line.find('"'), key_end_rel) {
        (Some(a), Some(b)) if b > a => {
            let key = &line[a + 1..b];
            let in_key = off - line_start <= b;
            format!("metadata-{}:{}", if in_key { "key" } else { "value" }, key)
        }
        _ => "metadata-structure".to_string(),
    }
}

fn metadata_mutations(name: &str, bytes: &[u8], r: &mut Rng) -> Vec<Mutation> {
    let text = String::from_utf8_lossy(bytes).to_string();
    let mut v = vec![];
    for o in 0..bytes.len() {
        let what = json_field_at(&text, o);
        v.push(Mutation { file: name.to_string(), what: what.clone(), kind: "flip".into(), offset: o, xor: 0x01 });
        if r.chance(1, 3) {
            v.push(Mutation { file: name.to_string(), what, kind: "flip".into(), offset: o, xor: *r.pick(&[0x02u8, 0x04, 0x10, 0x20, 0x40, 0x80]) });
        }
    }
    for c in [0usize, 1, bytes.len() / 3, bytes.len() / 2, bytes.len() - 2, bytes.len() - 1] {
        v.push(Mutation { file: name.to_string(), what: "truncate-metadata".into(), kind: "truncate".into(), offset: c, xor: 0 });
    }
    v
}

fn apply_mutation(orig: &[u8], m: &Mutation) -> Vec<u8> {
    let mut b = orig.to_vec();
    if m.kind == "truncate" { b.truncate(m.offset); } else { b[m.offset] ^= m.xor; }
    b
}

fn run_tamper(seed: u64, idx: usize, root: &Path, taken: &[Taken], budget: usize) -> Acc {
    let mut acc = Acc::default();
    let mut r = Rng::new(seed ^ 0xB0B0_0000 ^ idx as u64);
    // the newest incremental whose plain restore is exact, else the newest full backup
    let bk = root.join("bk");
    let tip = match taken.iter().rev().find(|t| t.meta.backup_type == BackupType::Incremental).or(taken.last()) { Some(t) => t, None => return acc };
    let chain = chain_of(taken, tip.meta.id);
    let work = root.join("tamper");
    let _ = std::fs::remove_dir_all(&work);
    let bk2 = work.join("bk");
    copy_dir(&bk, &bk2);
    // reference: the untampered restore
    let ref_tgt = work.join("ref");
    std::fs::create_dir_all(&ref_tgt).unwrap();
    if RestoreManager::new(&bk2, &ref_tgt).unwrap().restore_from_backup_with_options(tip.meta.id, &ClearDirectoryOptions::default()).is_err() {
        return acc;
    }
    let reference = read_files(&ref_tgt);
    let sentinels: Files = [("SENTINEL.bin".to_string(), b"keep me".to_vec()), ("MANIFEST".to_string(), b"{\"old\":true}".to_vec())].into_iter().collect();
    let mut muts = vec![];
    for t in &chain {
        let an = format!("backup_{}.tar", t.meta.id);
        let jn = format!("backup_{}.json", t.meta.id);
        muts.extend(archive_mutations(&an, &std::fs::read(bk2.join(&an)).unwrap(), &mut r, budget));
        muts.extend(metadata_mutations(&jn, &std::fs::read(bk2.join(&jn)).unwrap(), &mut r));
    }
    // run the mutations on private copies of the backup directory, in parallel
    let workers = 8usize.min(muts.len().max(1));
    let results: Mutex<Vec<(usize, Option<String>, Files)>> = Mutex::new(Vec::with_capacity(muts.len()));
    let tip_id = tip.meta.id;
    std::thread::scope(|sc| {
        for w in 0..workers {
            let (muts, bk2, work, sentinels, results) = (&muts, &bk2, &work, &sentinels, &results);
            sc.spawn(move || {
                let bkw = work.join(format!("bk_w{}", w));
                copy_dir(bk2, &bkw);
                let tgt = work.join(format!("tgt_w{}", w));
                let mut local = vec![];
                for (j, m) in muts.iter().enumerate() {
                    if j % workers != w { continue; }
                    let path = bkw.join(&m.file);
                    let orig = std::fs::read(&path).unwrap();
                    std::fs::write(&path, apply_mutation(&orig, m)).unwrap();
                    let _ = std::fs::remove_dir_all(&tgt);
                    write_files(sentinels, &tgt);
                    let res = RestoreManager::new(&bkw, &tgt).unwrap().restore_from_backup_with_options(tip_id, &ClearDirectoryOptions::new().with_allow_clear(true));
                    let after = read_files(&tgt);
                    std::fs::write(&path, &orig).unwrap();
                    local.push((j, res.err().map(|e| format!("{:#}", e)), after));
                }
                results.lock().unwrap().extend(local);
            });
        }
    });
    let mut results = results.into_inner().unwrap();
    results.sort_by_key(|x| x.0);
    for (j, err, after) in results {
        let m = &muts[j];
        let res: Result<(), String> = match err { Some(e) => Err(e), None => Ok(()) };
        let role = if m.file.contains(&tip.meta.id.to_string()) { "tip" } else { "ancestor" };
        let desc = json!({"file_role": role, "file_kind": if m.file.ends_with(".tar") { "archive" } else { "metadata" }, "position": m.what, "mutation": m.kind, "offset": m.offset, "xor": m.xor});
        let key = format!("B:{}:{}:{}:{}:{}", idx, m.file, m.kind, m.offset, m.xor);
        match res {
            Err(_) if after == sentinels => {
                acc.bump(&format!("tamper_rejected_untouched:{}", m.what.split(':').next().unwrap_or("")));
                if acc.distinct.insert(key) { acc.nontrivial += 1; }
            }
            Ok(()) if after == reference => {
                acc.bump(&format!("tamper_irrelevant:{}", m.what));
            }
            Err(e) => {
                acc.bump("tamper_failure:rejected-after-touching");
                acc.fails.push(json!({"stage": "B", "why": format!("altered backup was rejected only AFTER the target directory had been modified: {}", e), "class": null, "damage": desc,
                    "target_before": sentinels.keys().collect::<Vec<_>>(), "target_after": after.keys().collect::<Vec<_>>(), "replay": {"stage": "B", "seed": seed, "index": idx}}));
            }
            Ok(()) => {
                let class = if m.what == "member-name" { Some(CLASS_NAME) } else { None };
                acc.bump(&format!("tamper_failure:accepted-with-different-result:{}", m.what));
                let names = |f: &Files| f.keys().cloned().collect::<Vec<_>>();
                acc.fails.push(json!({"stage": "B", "why": "altered backup was accepted and the restored directory differs from the untampered restore", "class": class, "damage": desc,
                    "restored_files": names(&after), "untampered_restore_files": names(&reference), "replay": {"stage": "B", "seed": seed, "index": idx}}));
            }
        }
    }
    acc.bump("tamper_chains");
    acc
}

// ------------------------------------------------------------------------------------------------
// Stage C: prune on synthetic timelines
// ------------------------------------------------------------------------------------------------
fn prune_literal(cid: usize, now: u64, p: &RetentionPolicy, listing: &[BackupMetadata], deleted: &[Uuid]) -> String {
    let idx = |u: Uuid| -> u64 { (u.as_u128() & 0xffff_ffff_ffff) as u64 };
    let bl: Vec<String> = listing.iter().map(|b| format!("pbk {} {} {} {}", idx(b.id), match b.parent_id { Some(p) => format!("(Some {})", idx(p)), None => "None".into() }, if b.backup_type == BackupType::Full { "Full" } else { "Incremental" }, b.timestamp)).collect();
    format!("(@ID{}@, {}, mkPolicy {} {} {} {} {}, [{}], [{}])", cid, now, p.hourly_hours, p.daily_days, p.weekly_weeks, p.monthly_months, p.min_age_days,
        bl.join("; "), deleted.iter().map(|d| idx(*d).to_string()).collect::<Vec<_>>().join("; "))
}

fn run_prune(seed: u64, n: usize, work: &Path, only: Option<usize>) -> Acc {
    let mut acc = Acc::default();
    let root = work.join("prune");
    let _ = std::fs::remove_dir_all(&root);
    let (hour, day, week, month) = (3600u64, 86400u64, 604800u64, 2592000u64);
    let mut known_examples = 0;
    for i in 0..n {
        if let Some(o) = only { if o != i { continue; } }
        let mut r = Rng::new(seed ^ (0xC0C0_0000 + i as u64).wrapping_mul(0xD6E8_FEB8_6659_FD93));
        let pol = RetentionPolicy {
            hourly_hours: *r.pick(&[0usize, 1, 2, 24, 24]),
            daily_days: *r.pick(&[0usize, 1, 7, 7]),
            weekly_weeks: *r.pick(&[0usize, 1, 4, 4]),
            monthly_months: *r.pick(&[0usize, 1, 12, 12]),
            min_age_days: *r.pick(&[0u64, 0, 0, 1, 7, 30]),
        };
        let nb = r.range(1, 9) as usize;
        // ages: mostly near bucket and category boundaries
        let gen_age = |r: &mut Rng, now: u64| -> u64 {
            let thresholds = [pol.hourly_hours as u64 * hour, pol.daily_days as u64 * day, pol.weekly_weeks as u64 * week, pol.monthly_months as u64 * month, pol.min_age_days * day];
            match r.below(6) {
                0 => r.below(2 * hour),
                1 => { let t = *r.pick(&thresholds); (t + r.below(3)).saturating_sub(1) }
                2 => { let unit = *r.pick(&[hour, day, week, month]); let edge = now - now % unit - unit * r.below(3); (now - edge + r.below(3)).saturating_sub(1) }
                3 => r.below(3 * day),
                4 => r.below(40 * day),
                _ => r.below(400 * day),
            }
        };
        let dir = root.join(format!("t{}", i));
        let data = root.join("data");
        let mut attempt = 0;
        loop {
            attempt += 1;
            let _ = std::fs::remove_dir_all(&dir);
            let mgr = BackupManager::new(&dir, &data).unwrap();
            let now = now_secs();
            let mut rr = r.clone();
            let mut ages: Vec<u64> = (0..nb).map(|_| gen_age(&mut rr, now).min(now)).collect();
            if rr.chance(1, 4) && nb >= 2 { ages[1] = ages[0]; }
            ages.sort_unstable_by(|a, b| b.cmp(a)); // oldest first
            let mut metas: Vec<BackupMetadata> = vec![];
            for (j, age) in ages.iter().enumerate() {
                let full = j == 0 || rr.chance(3, 10);
                let parent = if full { None } else if rr.chance(4, 5) { Some(metas[j - 1].id) } else { Some(metas[rr.below(j as u64) as usize].id) };
                let m = BackupMetadata { id: Uuid::from_u128(j as u128 + 1), timestamp: now - age, backup_type: if full { BackupType::Full } else { BackupType::Incremental }, size_bytes: 4, vector_count: 0, checksum: 0, parent_id: parent, description: String::new(), max_wal_file_id: None, snapshot_file: None };
                std::fs::write(dir.join(format!("backup_{}.json", m.id)), serde_json::to_string_pretty(&m).unwrap()).unwrap();
                if rr.chance(9, 10) { std::fs::write(dir.join(format!("backup_{}.tar", m.id)), 0u32.to_le_bytes()).unwrap(); }
                metas.push(m);
            }
            let listing = mgr.list_backups().unwrap();
            let deleted = match mgr.prune_backups(&pol) {
                Ok(d) => d,
                Err(e) => { acc.fails.push(json!({"stage": "C", "why": format!("prune_backups failed: {:#}", e), "class": null, "replay": {"stage": "C", "seed": seed, "index": i}})); break; }
            };
            if now_secs() != now {
                // the wall clock moved to the next second while prune ran: its `now` is unknown, redo
                if attempt < 6 { continue; }
                acc.bump("prune_skipped_clock_moved");
                break;
            }
            r = rr;
            let cid = acc.new_case(json!({"stage": "C", "kind": "prune", "timeline": i, "now": now, "policy": pol,
                "backups": listing.iter().map(|b| json!({"id": b.id.as_u128() as u64, "age_s": now - b.timestamp, "ts": b.timestamp, "type": format!("{:?}", b.backup_type), "parent": b.parent_id.map(|p| p.as_u128() as u64)})).collect::<Vec<_>>(),
                "deleted": deleted.iter().map(|d| d.as_u128() as u64).collect::<Vec<_>>(), "replay": {"stage": "C", "seed": seed, "index": i}}));
            acc.prune_cases.push(prune_literal(cid, now, &pol, &listing, &deleted));
            acc.bump("prune_timelines");
            if acc.samples.len() < 1 && !deleted.is_empty() { acc.samples.push(acc.case_json[cid].clone()); }
            // direct oracles
            let ids: Vec<Uuid> = listing.iter().map(|b| b.id).collect();
            let dset: HashSet<Uuid> = deleted.iter().cloned().collect();
            if dset.len() != deleted.len() || deleted.iter().any(|d| !ids.contains(d)) {
                acc.fails.push(json!({"stage": "C", "why": "prune reported ids that are duplicated or were never listed", "class": null, "case": acc.case_json[cid]}));
            }
            for b in &listing {
                let gone = !dir.join(format!("backup_{}.json", b.id)).exists();
                if gone != dset.contains(&b.id) {
                    acc.fails.push(json!({"stage": "C", "why": format!("metadata file of backup {} {} although prune {} it", b.id.as_u128(), if gone { "is gone" } else { "exists" }, if gone { "did not report" } else { "reported" }), "class": null, "case": acc.case_json[cid]}));
                }
            }
            let mut broken = vec![];
            for b in &listing {
                if dset.contains(&b.id) { continue; }
                // walk the parent chain of a retained backup
                let mut cur = b;
                let mut guard = 0;
                while let (Some(p), true) = (cur.parent_id, cur.backup_type == BackupType::Incremental) {
                    guard += 1;
                    if guard > 20 { break; }
                    if dset.contains(&p) { broken.push((b.id.as_u128() as u64, p.as_u128() as u64)); break; }
                    match listing.iter().find(|x| x.id == p) { Some(x) => cur = x, None => break }
                }
            }
            if !deleted.is_empty() && listing.iter().any(|b| b.parent_id.is_some() && !dset.contains(&b.id)) {
                let key = format!("C:{:?}:{:?}:{:?}", pol, listing.iter().map(|b| (now - b.timestamp, b.parent_id.map(|p| p.as_u128()))).collect::<Vec<_>>(), deleted);
                if acc.distinct.insert(key) { acc.nontrivial += 1; }
            }
            if let Some((child, parent)) = broken.first() {
                acc.bump("prune_parent_of_retained_deleted");
                if known_examples < 3 {
                    known_examples += 1;
                    acc.fails.push(json!({"stage": "C", "why": format!("prune kept backup {} and deleted its ancestor {}", child, parent), "class": CLASS_PRUNE, "case": acc.case_json[cid], "replay": {"stage": "C", "seed": seed, "index": i}}));
                }
            }
            break;
        }
        let _ = std::fs::remove_dir_all(&dir);
        if i % 40 == 39 { acc.close_unit(); }
    }
    acc.close_unit();
    acc
}

// ------------------------------------------------------------------------------------------------
// output
// ------------------------------------------------------------------------------------------------
fn write_shards(out: &Path, acc: &Acc) -> usize {
    let nshards = 16usize.min(acc.units.len().max(1));
    // greedy balancing by text size
    let mut order: Vec<usize> = (0..acc.units.len()).collect();
    let size = |u: &Unit| -> usize { u.defs.iter().chain(&u.create).chain(&u.restore).chain(&u.prune).chain(&u.wf).chain(&u.evolve).chain(&u.snap).map(|s| s.len()).sum() };
    order.sort_by_key(|i| std::cmp::Reverse(size(&acc.units[*i])));
    let mut bins: Vec<(usize, Vec<usize>)> = vec![(0, vec![]); nshards];
    for i in order {
        let b = bins.iter_mut().min_by_key(|b| b.0).unwrap();
        b.0 += size(&acc.units[i]);
        b.1.push(i);
    }
    for (k, (_, members)) in bins.iter().enumerate() {
        let mut members = members.clone();
        members.sort_unstable();
        let us: Vec<&Unit> = members.iter().map(|i| &acc.units[*i]).collect();
        let cat = |f: &dyn Fn(&Unit) -> &Vec<String>| -> String { us.iter().flat_map(|u| f(u).iter().cloned()).collect::<Vec<_>>().join(";\n  ") };
        let total: usize = us.iter().map(|u| u.create.len() + u.restore.len() + u.prune.len() + u.wf.len() + u.evolve.len() + u.snap.len()).sum();
        let defs = us.iter().flat_map(|u| u.defs.iter().cloned()).collect::<Vec<_>>().join("\n");
        let text = format!(
"From Coq Require Import List NArith Bool.
From Kyro Require Import Model.Backup.
Import ListNotations.
Open Scope N_scope.
{}
Definition create_cases : list (N * sdir * option (store * N) * res created) := [
  {}
].
Definition restore_cases : list (N * store * tdir * (N + N) * copts * (option berr * tdir)) := [
  {}
].
Definition prune_cases : list (N * N * policy * list backup * list N) := [
  {}
].
Definition wf_cases : list (N * sdir * manifest) := [
  {}
].
Definition evolve_cases : list (N * sdir * N * option N * sdir) := [
  {}
].
Definition snap_cases : list (N * sdir * sdir) := [
  {}
].
Definition as_created (r : res backup) : res created :=
  match r with Ok b => Ok (b_files b, b_max_wal b, b_snapfile b) | Err e => Err e end.
Definition bad_create : list N := map (fun c => match c with (id, _, _, _) => id end)
  (filter (fun c => match c with (_, d, k, obs) =>
     negb (created_eqb (match k with
                        | None => create_full_files d
                        | Some (st, pid) => as_created (create_incremental st d pid 0 0 0)
                        end) obs) end) create_cases).
Definition bad_restore : list N := map (fun c => match c with (id, _, _, _, _, _) => id end)
  (filter (fun c => match c with (_, st, t, rq, o, obs) =>
     negb (outcome_eqb (match rq with inl id => restore_by_id st t id o | inr ts => restore_pitr st t ts o end) obs) end) restore_cases).
Definition bad_prune : list N := map (fun c => match c with (id, _, _, _, _) => id end)
  (filter (fun c => match c with (_, now, p, l, del) => negb (listN_eqb (prune_deleted now p l) del) end) prune_cases).
Definition premise_bad : list N :=
  map (fun c => match c with (id, _, _) => id end) (filter (fun c => match c with (_, d, m) => negb (wf_sdirb d m) end) wf_cases)
  ++ map (fun c => match c with (id, _, _, _, _) => id end) (filter (fun c => match c with (_, dp, pts, pmax, d) => negb (evolvesb dp pts pmax d) end) evolve_cases)
  ++ map (fun c => match c with (id, _, _) => id end) (filter (fun c => match c with (_, dp, d) => negb (snap_stableb dp d) end) snap_cases).
Goal True. idtac \"@@bad_create\". Abort.
Eval vm_compute in bad_create.
Goal True. idtac \"@@bad_restore\". Abort.
Eval vm_compute in bad_restore.
Goal True. idtac \"@@bad_prune\". Abort.
Eval vm_compute in bad_prune.
Goal True. idtac \"@@premise_bad\". Abort.
Eval vm_compute in premise_bad.
Goal True. idtac \"@@count\". Abort.
Eval vm_compute in {}.
", defs, cat(&|u| &u.create), cat(&|u| &u.restore), cat(&|u| &u.prune), cat(&|u| &u.wf), cat(&|u| &u.evolve), cat(&|u| &u.snap), total);
        std::fs::write(out.join(format!("cases_{}.v", k)), text).unwrap();
    }
    nshards
}

fn main() {
    kvh::panicrec::install();
    let args: Vec<String> = std::env::args().collect();
    let mut out = String::from("/verif/.cache/run/C12");
    let mut n = 8usize;
    let mut tier = String::from("quick");
    let mut replay: Option<String> = None;
    let mut i = 1;
    while i < args.len() {
        match args[i].as_str() {
            "--out" => { out = args[i + 1].clone(); i += 1 }
            "--n" => { n = args[i + 1].parse().unwrap(); i += 1 }
            "--tier" => { tier = args[i + 1].clone(); i += 1 }
            "--replay" => { replay = Some(args[i + 1].clone()); i += 1 }
            _ => {}
        }
        i += 1;
    }
    let out = PathBuf::from(out);
    std::fs::create_dir_all(&out).unwrap();
    if let Ok(rd) = std::fs::read_dir(&out) {
        for e in rd.flatten() {
            let p = e.path();
            if p.is_dir() { let _ = std::fs::remove_dir_all(&p); } else if p.extension().map(|x| x == "v").unwrap_or(false) { let _ = std::fs::remove_file(&p); }
        }
    }
    let mut seed: u64 = std::env::var("VERIF_SEED").ok().and_then(|s| s.parse().ok()).unwrap_or(1);
    std::env::remove_var("BACKUP_ALLOW_CLEAR");
    let thorough = tier == "thorough";
    let (n_syn, n_prune, payload_budget, backups_per_history, tamper_chains) = if thorough { (2500usize, 20000usize, 200usize, 5usize, 6usize) } else { (250, 2000, 4, 4, 1) };
    // replay: run only the unit named in the file
    let mut only: Option<(String, usize)> = None;
    if let Some(p) = &replay {
        let v: Value = serde_json::from_str(&std::fs::read_to_string(p).unwrap()).unwrap();
        let rp = if v.get("replay").is_some() { v["replay"].clone() } else if v.get("case").and_then(|c| c.get("replay")).is_some() { v["case"]["replay"].clone() } else { v.clone() };
        if let (Some(st), Some(ix)) = (rp["stage"].as_str(), rp["index"].as_u64()) {
            seed = rp["seed"].as_u64().unwrap_or(seed);
            only = Some((st.to_string(), ix as usize));
        }
    }
    let mut total = Acc::default();
    let work = out.join("work");
    std::fs::create_dir_all(&work).unwrap();
    let run_stage = |s: &str| only.as_ref().map(|(st, _)| st == s || (s == "A" && st == "B")).unwrap_or(true);
    let only_idx = |s: &str| only.as_ref().and_then(|(st, ix)| if st == s || (s == "A" && st == "B") { Some(*ix) } else { None });

    let t_start = std::time::Instant::now();
    let lap = |what: &str| eprintln!("[c12 {:6.1}s] {}", t_start.elapsed().as_secs_f64(), what);
    // ---- D (second part first): restores with BACKUP_ALLOW_CLEAR=true; alone, before any thread exists
    if run_stage("D") && only.is_none() {
        std::env::set_var("BACKUP_ALLOW_CLEAR", "true");
        let a = synth::run(seed ^ 0xE0E0, n_syn / 5, &work, true, None);
        std::env::remove_var("BACKUP_ALLOW_CLEAR");
        let sh = total.case_json.len();
        total.merge(a, sh);
    }
    lap("stage D (environment confirmation) done");
    let mut chains: Vec<(usize, PathBuf, Vec<Taken>, Cfg)> = vec![];
    let (mut acc_d, mut acc_c, mut acc_ab) = (None, None, vec![]);
    std::thread::scope(|s| {
        // ---- D: fabricated directories, and C: prune timelines, each in its own thread
        let hd = if run_stage("D") { Some(s.spawn(|| synth::run(seed, n_syn, &work, false, only_idx("D")))) } else { None };
        let hc = if run_stage("C") { Some(s.spawn(|| run_prune(seed, n_prune, &work, only_idx("C")))) } else { None };
        // ---- A: histories on the real engine, in parallel
        if run_stage("A") {
            let idxs: Vec<usize> = match only_idx("A") { Some(ix) => vec![ix], None => (0..n).collect() };
            let results: Mutex<Vec<(usize, Acc, Option<(PathBuf, Vec<Taken>, Cfg)>)>> = Mutex::new(vec![]);
            let next = std::sync::atomic::AtomicUsize::new(0);
            std::thread::scope(|s2| {
                for _ in 0..idxs.len().min(12) {
                    s2.spawn(|| loop {
                        let k = next.fetch_add(1, std::sync::atomic::Ordering::SeqCst);
                        if k >= idxs.len() { break; }
                        let (a, c) = run_history(seed, idxs[k], &work, backups_per_history);
                        results.lock().unwrap().push((idxs[k], a, c));
                    });
                }
            });
            let mut rs = results.into_inner().unwrap();
            rs.sort_by_key(|x| x.0);
            for (ix, a, c) in rs {
                acc_ab.push(a);
                if let Some((root, taken, cfg)) = c { chains.push((ix, root, taken, cfg)); }
            }
        }
        lap("stage A done");
        // ---- B: tampering with real chains
        if run_stage("B") || only.is_none() {
            let mut done = 0;
            let want_incr = chains.iter().any(|(_, _, t, _)| t.iter().any(|x| x.meta.backup_type == BackupType::Incremental));
            for (ix, root, taken, _cfg) in &chains {
                if done >= tamper_chains { break; }
                if let Some((st, oi)) = &only { if st == "B" && oi != ix { continue; } }
                if want_incr && only.is_none() && !taken.iter().any(|t| t.meta.backup_type == BackupType::Incremental) { continue; }
                let a = run_tamper(seed, *ix, root, taken, payload_budget);
                if a.hist.contains_key("tamper_chains") { done += 1; }
                acc_ab.push(a);
            }
        }
        lap("stage B done");
        acc_d = hd.map(|h| h.join().unwrap());
        lap("stage D done");
        acc_c = hc.map(|h| h.join().unwrap());
    });
    for a in acc_d.into_iter().chain(acc_ab.into_iter()).chain(acc_c.into_iter()) {
        let sh = total.case_json.len();
        total.merge(a, sh);
    }
    lap("stage C done");
    total.close_unit();
    let shards = write_shards(&out, &total);
    let cnt = |f: &dyn Fn(&Unit) -> usize| -> usize { total.units.iter().map(|u| f(u)).sum() };
    // failures: one representative per class first, so every class is reported
    let mut seen = BTreeSet::new();
    let mut ordered: Vec<Value> = vec![];
    for f in &total.fails { let c = f["class"].as_str().unwrap_or("").to_string(); if seen.insert(c) { ordered.push(f.clone()); } }
    let n_fail = total.fails.len();
    for f in total.fails.iter() { if ordered.len() >= 40 { break; } if !ordered.contains(f) { ordered.push(f.clone()); } }
    let summary = json!({
        "shards": shards,
        "cases_in_coq": cnt(&|u| u.create.len() + u.restore.len() + u.prune.len() + u.wf.len() + u.evolve.len() + u.snap.len()),
        "create_cases": cnt(&|u| u.create.len()), "restore_cases": cnt(&|u| u.restore.len()), "prune_cases": cnt(&|u| u.prune.len()),
        "premise_cases": cnt(&|u| u.wf.len() + u.evolve.len() + u.snap.len()),
        "histories": chains.len(), "failures": n_fail,
        "failure_classes": total.fails.iter().fold(BTreeMap::<String, u64>::new(), |mut m, f| { *m.entry(f["class"].as_str().unwrap_or("unclassified").to_string()).or_insert(0) += 1; m }),
        "histogram": total.hist, "distinct_nontrivial": total.nontrivial, "samples": total.samples, "notes": total.notes,
    });
    std::fs::write(out.join("summary.json"), serde_json::to_string_pretty(&summary).unwrap()).unwrap();
    std::fs::write(out.join("failures.json"), serde_json::to_string(&ordered).unwrap()).unwrap();
    std::fs::write(out.join("all_cases.json"), serde_json::to_string(&total.case_json).unwrap()).unwrap();
    let _ = std::fs::remove_dir_all(&work);
    println!("c12: {} coq cases in {} shards, {} histories, {} failures", summary["cases_in_coq"], shards, chains.len(), n_fail);
}
