//! C06 driver (search results are sound and reflect acknowledged recent writes).
//! usage: c06 --out DIR --n N [--cap C] [--replay FILE] [--grid-only]
//! Writes DIR/cases_<i>.v (three kinds of shards: sk = compute_search_k grid, mg = merge_knn_results,
//! en = engine-level search cases), DIR/summary.json, DIR/failures.json, DIR/all_cases.json.
mod engine_stream;
mod parts;

use kvh::rng::Rng;
use serde_json::{json, Value};

fn main() {
    kvh::panicrec::install();
    let args: Vec<String> = std::env::args().collect();
    let mut out = String::from("/verif/.cache/run/C06");
    let mut n = 60usize;
    let mut cap = 1500usize;
    let mut replay: Option<String> = None;
    let mut grid_only = false;
    let mut i = 1;
    while i < args.len() {
        match args[i].as_str() {
            "--out" => { out = args[i + 1].clone(); i += 1 }
            "--n" => { n = args[i + 1].parse().unwrap(); i += 1 }
            "--cap" => { cap = args[i + 1].parse().unwrap(); i += 1 }
            "--replay" => { replay = Some(args[i + 1].clone()); i += 1 }
            "--grid-only" => grid_only = true,
            "--dump-history" => {
                let idx: usize = args[i + 1].parse().unwrap();
                std::fs::create_dir_all(&out).unwrap();
                let v = engine_stream::dump_history(&mut Rng::from_env(), idx);
                std::fs::write(format!("{}/history_{}.json", out, idx), serde_json::to_string(&v).unwrap()).unwrap();
                return;
            }
            _ => {}
        }
        i += 1;
    }
    std::fs::create_dir_all(&out).unwrap();
    let replay_v: Option<Value> = replay.as_ref().map(|p| serde_json::from_str(&std::fs::read_to_string(p).unwrap()).unwrap());
    let t0 = std::time::Instant::now();
    let mut rng = Rng::from_env();

    // ---- replay of a directed scenario / of a pure-function case
    if let Some(v) = &replay_v {
        let cv = if v.get("case").is_some() { &v["case"] } else { v };
        let kind = cv["kind"].as_str().unwrap_or("");
        if kind == "directed-stale-mirror" {
            let d = parts::directed_stale_mirror(
                cv["with_stale_mirrors"].as_bool().unwrap_or(true),
                cv["with_tombstones"].as_bool().unwrap_or(true),
                cv["ef"].as_u64().map(|x| x as usize),
            );
            let fails: Vec<Value> = if d["reproduced"] == json!(true) {
                vec![json!({"why": "acknowledged recent write missing (directed scenario)", "class": "recent-write-missing-crowded", "case": d})]
            } else {
                vec![]
            };
            write_out(&out, &json!({"replay": "directed-stale-mirror", "directed": d, "shards": 0, "cases": 1, "oracle_failures": fails}), &[], &[]);
            println!("c06 replay directed-stale-mirror: reproduced = {}", d["reproduced"]);
            return;
        }
        if kind == "search_k" {
            let (k, l, t) = (cv["k"].as_u64().unwrap(), cv["live_docs"].as_u64().unwrap(), cv["total_slots"].as_u64().unwrap());
            let r = kyrodb_engine::hnsw_backend::verif_compute_search_k(k as usize, l as usize, t as usize) as u64;
            let rows = vec![(k, l, t, r)];
            let fails = parts::search_k_oracle(&rows);
            let shards = parts::search_k_shards(&rows, 600);
            write_out(&out, &json!({"replay": "search_k", "shards": shards.len(), "cases": 1, "oracle_failures": fails}), &shards, &[]);
            println!("c06 replay search_k: observed {} ; {} oracle failures", r, fails.len());
            return;
        }
    }

    // ---- (i) compute_search_k
    let rows = parts::search_k_rows(&mut rng, if grid_only { 20_000 } else { 2_500 });
    let sk_fail = parts::search_k_oracle(&rows);
    let mut shards = parts::search_k_shards(&rows, 800);
    let n_sk_shards = shards.len();
    if grid_only {
        write_out(&out, &json!({"shards": shards.len(), "cases": rows.len(), "search_k_rows": rows.len(), "oracle_failures": sk_fail}), &shards, &[]);
        println!("c06 grid-only: {} rows, {} oracle failures", rows.len(), sk_fail.len());
        return;
    }

    // ---- (ii) merge_knn_results
    let mcases = parts::merge_cases(&mut rng, 600);
    let mg_fail = parts::merge_oracle(&mcases);
    let mg_shards = parts::merge_shards(&mcases, 300);
    let n_mg_shards = mg_shards.len();
    shards.extend(mg_shards);

    // ---- (iii) engine level
    let so = engine_stream::run(&mut rng, n, replay_v.as_ref());
    let em = parts::engine_emit(&so.cases, cap, 100);
    let n_en_shards = em.shards.len();
    shards.extend(em.shards.iter().cloned());

    // ---- directed reproduction of the model's witness, with its two controls
    let directed = parts::directed_stale_mirror(true, true, Some(10_000));
    let directed_no_ef = parts::directed_stale_mirror(true, true, None);
    let control_no_stale = parts::directed_stale_mirror(false, true, Some(10_000));
    let control_no_tomb = parts::directed_stale_mirror(true, false, Some(10_000));

    let mut failures: Vec<Value> = vec![];
    failures.extend(sk_fail.iter().cloned());
    failures.extend(mg_fail.iter().cloned());
    for f in &so.failures {
        let mut v = f.to_json();
        // keep replay files small: the case itself is enough together with ops_prefix
        if let Some(o) = v.as_object_mut() {
            o.insert("kind".into(), json!("engine"));
        }
        failures.push(v);
    }
    if directed["reproduced"] == json!(true) {
        failures.push(json!({"why": "acknowledged recent write, mirrored in the hot tier with a matching token, is missing from a non-degraded response although it is the nearest live document: 2k stale mirrors fill the hot tier's top-2k and are then dropped, and tombstones fill the cold tier's oversampled candidate list",
                             "class": "recent-write-missing-crowded", "directed": true, "case": directed}));
    }
    let stale_seen = so.cases.iter().filter(|c| c.hot.iter().any(|h| !h.fresh)).count();
    let samples: Vec<Value> = em.selected_ids.iter().take(2).map(|&i| {
        let c = &so.cases[i];
        json!({"target": c.target.as_str(), "metric": c.metric, "dim": c.dim, "k": c.k, "live_docs": c.live_docs, "total_slots": c.total_slots,
               "hot": c.hot.iter().map(|h| json!([h.id, h.fresh])).collect::<Vec<_>>(),
               "obs": c.obs.as_ref().map(|o| o.iter().map(|(i, d)| json!([i, d])).collect::<Vec<_>>()).unwrap_or_default(),
               "path": c.path})
    }).collect();
    let summary = json!({
        "shards": shards.len(),
        "shard_kinds": {"sk": n_sk_shards, "mg": n_mg_shards, "en": n_en_shards},
        "cases": rows.len() + mcases.len() + so.cases.len(),
        "search_k_rows": rows.len(),
        "merge_cases": mcases.len(),
        "engine": {
            "histories": so.histories, "searches": so.cases.len(),
            "correspondence_eligible": em.eligible, "correspondence_selected": em.selected,
            "correspondence_skipped": em.skipped, "selected_nontrivial": em.nontrivial,
            "searches_with_stale_mirrors": stale_seen,
            "near_unit_gap_max": so.near_unit_gap_max,
            "histogram": so.histogram,
        },
        "directed": {"witness": directed, "witness_default_ef": directed_no_ef, "control_without_stale_mirrors": control_no_stale, "control_without_tombstones": control_no_tomb},
        "big_k_observation": parts::big_k_observation(),
        "oracle_failures": failures,
        "samples": samples,
        "wall_ms": t0.elapsed().as_millis() as u64,
    });
    // all_cases.json: only what a disagreeing correspondence id needs (selected engine cases, merge cases, rows)
    let sel: Vec<Value> = em.selected_ids.iter().map(|&i| { let mut v = so.cases[i].to_json(); if let Some(o) = v.as_object_mut() { o.insert("id".into(), json!(i)); } v }).collect();
    let all = vec![
        json!({"search_k_rows": rows}),
        json!({"merge_cases": mcases.iter().map(|c| json!({"hot": c.hot, "cold": c.cold, "k": c.k, "obs": c.obs})).collect::<Vec<_>>()}),
        json!({"engine_selected": sel}),
    ];
    write_out(&out, &summary, &shards, &all);
    println!(
        "c06: {} search_k rows, {} merge cases, {} engine searches ({} in correspondence), {} oracle failures, directed witness reproduced = {}",
        rows.len(), mcases.len(), so.cases.len(), em.selected, summary["oracle_failures"].as_array().unwrap().len(), directed["reproduced"]
    );
}

fn write_out(out: &str, summary: &Value, shards: &[String], all: &[Value]) {
    for (k, text) in shards.iter().enumerate() {
        std::fs::write(format!("{}/cases_{}.v", out, k), text).unwrap();
    }
    std::fs::write(format!("{}/summary.json", out), serde_json::to_string_pretty(summary).unwrap()).unwrap();
    std::fs::write(format!("{}/failures.json", out), serde_json::to_string_pretty(&summary["oracle_failures"]).unwrap()).unwrap();
    std::fs::write(format!("{}/all_cases.json", out), serde_json::to_string(all).unwrap()).unwrap();
}
