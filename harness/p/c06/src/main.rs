//! C06 driver (search results are sound and reflect acknowledged recent writes).
//! usage: c06 --out DIR --n N [--replay FILE]
mod engine_stream;

use kvh::rng::Rng;
use serde_json::json;

fn main() {
    let args: Vec<String> = std::env::args().collect();
    let mut out = String::from("/verif/.cache/run/C06");
    let mut n = 60usize;
    let mut replay: Option<String> = None;
    let mut i = 1;
    while i < args.len() {
        match args[i].as_str() {
            "--out" => { out = args[i + 1].clone(); i += 1 }
            "--n" => { n = args[i + 1].parse().unwrap(); i += 1 }
            "--replay" => { replay = Some(args[i + 1].clone()); i += 1 }
            "--dump-history" => {
                // debugging aid: write the replayable form of history I of this seed and exit
                let idx: usize = args[i + 1].parse().unwrap();
                std::fs::create_dir_all(&out).unwrap();
                let v = engine_stream::dump_history(&mut Rng::from_env(), idx);
                std::fs::write(format!("{}/history_{}.json", out, idx), serde_json::to_string(&v).unwrap()).unwrap();
                return;
            }
            _ => {}
        }
        i += 1;
    }
    std::fs::create_dir_all(&out).unwrap();
    let replay_v: Option<serde_json::Value> =
        replay.as_ref().map(|p| serde_json::from_str(&std::fs::read_to_string(p).unwrap()).unwrap());
    let t0 = std::time::Instant::now();
    let mut rng = Rng::from_env();
    let so = engine_stream::run(&mut rng, n, replay_v.as_ref());
    let wall_ms = t0.elapsed().as_millis() as u64;
    let summary = json!({
        "histories": so.histories,
        "cases": so.cases.len(),
        "failures": so.failures.iter().map(|f| f.to_json()).collect::<Vec<_>>(),
        "histogram": so.histogram,
        "near_unit_gap_max": so.near_unit_gap_max,
        "wall_ms": wall_ms,
        "stale_mirror_scenarios": [
            engine_stream::stale_mirror_scenario(2, Some(10_000), 0),
            engine_stream::stale_mirror_scenario(2, Some(1), 0),
        ],
    });
    std::fs::write(format!("{}/engine.json", out), serde_json::to_string_pretty(&summary).unwrap()).unwrap();
    let cases: Vec<serde_json::Value> = so.cases.iter().map(|c| c.to_json()).collect();
    std::fs::write(format!("{}/engine_cases.json", out), serde_json::to_string(&cases).unwrap()).unwrap();
    println!("c06 engine_stream: {} histories, {} cases, {} oracle failures, {} ms", so.histories, so.cases.len(), so.failures.len(), wall_ms);
}
