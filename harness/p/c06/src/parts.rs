//! C06 driver parts other than the engine stream:
//!  (i)   differential of the real compute_search_k against gen/SearchK_gen.v (evaluated in coqc),
//!  (ii)  differential of the real merge_knn_results against Model/Knn.v,
//!  (iii) Gallina literals for a stratified sample of the engine stream's search cases,
//!  plus the directed reproduction of the model's recent-write witness on the real TieredEngine.
use crate::engine_stream::{hot_snapshot, tiered_config, SearchCase, Target};
use kvh::rng::Rng;
use kyrodb_engine::cache_strategy::LruCacheStrategy;
use kyrodb_engine::hnsw_backend::verif_compute_search_k;
use kyrodb_engine::hnsw_index::SearchResult;
use kyrodb_engine::tiered_engine::TieredEngine;
use kyrodb_engine::QueryHashCache;
use serde_json::{json, Value};
use std::collections::{BTreeMap, HashMap, HashSet};
use std::fmt::Write as _;
use std::sync::Arc;

fn tail(kind: &str, extra: &str) -> String {
    format!(
        "Goal True. idtac \"@@kind {}\". Abort.\nGoal True. idtac \"@@bad\". Abort.\nEval vm_compute in bad.\n{}Goal True. idtac \"@@count\". Abort.\nEval vm_compute in (N.of_nat (length cases)).\n",
        kind, extra
    )
}

// ------------------------------------------------------------------------------------------------
// (i) compute_search_k
// ------------------------------------------------------------------------------------------------
pub fn search_k_rows(rng: &mut Rng, n_random: usize) -> Vec<(u64, u64, u64, u64)> {
    let ks: [u64; 13] = [0, 1, 2, 3, 4, 5, 9, 10, 100, 1000, 9999, 10000, 10001];
    let totals: [u64; 22] = [0, 1, 2, 3, 7, 10, 16, 20, 49, 64, 98, 100, 147, 1000, 9999, 10000, 10001, 20000, 65536, 1_000_000, 1 << 32, (1 << 53) + 1];
    let mut rows = vec![];
    let mut seen = HashSet::new();
    let mut push = |k: u64, l: u64, t: u64, rows: &mut Vec<(u64, u64, u64, u64)>| {
        if seen.insert((k, l, t)) {
            rows.push((k, l, t, verif_compute_search_k(k as usize, l as usize, t as usize) as u64));
        }
    };
    for &k in &ks {
        for &t in &totals {
            // live: 0, 1, 5 %, half, one apart, equal, one above (cannot happen in the engine; the function is total)
            let mut lives = vec![0, 1, t / 20, t / 2, t.saturating_sub(1), t, t + 1];
            if k > 0 && t > 0 {
                lives.push((t / k.max(1)).max(1)); // k*total/live near total: the clamp boundary
                lives.push(t / 49);
            }
            for l in lives {
                push(k, l, t, &mut rows);
            }
        }
    }
    // exact-quotient points where the two f64 roundings can land one ulp above an integer
    for m in [7u64, 49, 98, 103, 107, 196, 197] {
        for d in 1..=4u64 {
            for &k in &[1u64, 2, 3, 5, 10] {
                push(k, d, m * d * 50, &mut rows);
                push(k, d, m * d, &mut rows);
            }
        }
    }
    let mut r = rng.fork(0x5EA2C4);
    for _ in 0..n_random {
        let t = match r.below(4) {
            0 => r.range(2, 200),
            1 => r.range(2, 100_000),
            2 => r.range(2, 1 << 22),
            _ => r.range(2, 1 << 40),
        };
        let l = match r.below(4) {
            0 => r.range(1, t - 1),
            1 => (t / 20).max(1),
            2 => t - 1,
            _ => r.range(1, (t / 2).max(1)),
        };
        let k = match r.below(3) {
            0 => *r.pick(&ks[1..12]),
            1 => r.range(1, 64),
            _ => r.range(1, 10_000),
        };
        push(k, l, t, &mut rows);
    }
    rows
}

pub fn search_k_shards(rows: &[(u64, u64, u64, u64)], per: usize) -> Vec<String> {
    let mut shards = vec![];
    for (s, chunk) in rows.chunks(per).enumerate() {
        let mut body = String::new();
        for (i, (k, l, t, o)) in chunk.iter().enumerate() {
            if i > 0 {
                body.push_str(";\n  ");
            }
            let _ = write!(body, "({}, {}, {}, {}, {})", s * per + i, k, l, t, o);
        }
        let text = format!(
            "From Coq Require Import NArith List Bool.\nFrom Kyro Require Import gen.SearchK_gen.\nImport ListNotations.\nOpen Scope N_scope.\n\
Definition cases : list (N * N * N * N * N) := [\n  {}\n].\n\
Definition bad : list N := map (fun r => match r with (i, _, _, _, _) => i end)\n  (filter (fun r => match r with (_, k, l, t, o) => negb (compute_search_k k l t =? o) end) cases).\n\
(* the float expression against its exact rational value: never below, at most one above *)\n\
Definition fbad : list N := map (fun r => match r with (i, _, _, _, _) => i end)\n  (filter (fun r => match r with (_, k, l, t, _) =>\n     (1 <=? k) && (k <=? 10000) && (0 <? l) && (l <? t) && (t <? 1125899906842624) &&\n     negb ((search_k_fsite_exact k l t <=? search_k_fsite k l t) && (search_k_fsite k l t <=? search_k_fsite_exact k l t + 1)) end) cases).\n\
Definition fplus : N := N.of_nat (length (filter (fun r => match r with (_, k, l, t, _) =>\n     (1 <=? k) && (k <=? 10000) && (0 <? l) && (l <? t) && negb (search_k_fsite k l t =? search_k_fsite_exact k l t) end) cases)).\n{}",
            body,
            tail("sk", "Goal True. idtac \"@@fbad\". Abort.\nEval vm_compute in fbad.\nGoal True. idtac \"@@fplus\". Abort.\nEval vm_compute in fplus.\n")
        );
        shards.push(text);
    }
    shards
}

/// The bounds of C06_search_k_bounds / _oversampling checked on the REAL function (used by the oracle and by
/// the search for a failing input when a proof over the regenerated model breaks).
pub fn search_k_oracle(rows: &[(u64, u64, u64, u64)]) -> Vec<Value> {
    let mut fails = vec![];
    for &(k, l, t, r) in rows {
        let mut why = None;
        if k == 0 {
            if r != 0 {
                why = Some("k = 0 but search_k != 0".to_string());
            }
        } else if k <= 10_000 {
            let upper = 10_000u64.min(t.max(k));
            if r < k {
                why = Some(format!("search_k {} < k {}", r, k));
            } else if r > upper {
                why = Some(format!("search_k {} > min(10000, max(total, k)) = {}", r, upper));
            } else if (l == 0 || l >= t) && r != k {
                why = Some(format!("no tombstones (or no live docs) but search_k {} != k {}", r, k));
            } else if l > 0 && l < t && r != upper && t < (1u64 << 50) {
                // (the oversampling inequality rests on the f64 expression not being below its exact value, which
                //  integer operands beyond 2^53 do not guarantee; the engine cannot hold 2^50 slots)
                let h = (k / 4).max(2);
                if r < h || ((r - h) as u128) * (l as u128) < (k as u128) * (t as u128) {
                    why = Some(format!("not clamped, yet (search_k - headroom) * live = ({} - {}) * {} < k * total = {} * {}", r, h, l, k, t));
                }
            }
        }
        if let Some(w) = why {
            fails.push(json!({"why": w, "class": "search-k-bounds", "case": {"kind": "search_k", "k": k, "live_docs": l, "total_slots": t, "observed": r}}));
        }
    }
    fails
}

// ------------------------------------------------------------------------------------------------
// (ii) merge_knn_results
// ------------------------------------------------------------------------------------------------
#[derive(Clone, Debug)]
pub struct MergeCase {
    pub hot: Vec<(u64, u32)>,  // (id, distance in quarter units)
    pub cold: Vec<(u64, u32)>,
    pub k: usize,
    pub obs: Vec<(u64, u32)>,
    pub obs_exact: bool,
}

pub fn merge_cases(rng: &mut Rng, n: usize) -> Vec<MergeCase> {
    let mut r = rng.fork(0x3E46E);
    let mut out = vec![];
    for i in 0..n {
        let pool = r.range(2, 14);
        let nh = if i % 7 == 0 { 0 } else { r.range(0, 9) as usize };
        let nc = if i % 11 == 0 { 0 } else { r.range(0, 9) as usize };
        let few_d = r.chance(1, 2); // many equal distances
        let gen = |n: usize, r: &mut Rng| -> Vec<(u64, u32)> {
            (0..n).map(|_| (r.below(pool), if few_d { r.below(3) as u32 * 4 } else { r.below(17) as u32 })).collect()
        };
        let hot = gen(nh, &mut r);
        let cold = gen(nc, &mut r);
        let distinct: HashSet<u64> = hot.iter().chain(cold.iter()).map(|x| x.0).collect();
        let len = distinct.len();
        let k = match r.below(6) {
            0 => 0,
            1 => 1,
            2 => len,
            3 => len + 1,
            4 => len.saturating_sub(1),
            _ => r.range(0, 12) as usize,
        };
        let h: Vec<(u64, f32)> = hot.iter().map(|(i, d)| (*i, *d as f32 * 0.25)).collect();
        let c: Vec<SearchResult> = cold.iter().map(|(i, d)| SearchResult { doc_id: *i, distance: *d as f32 * 0.25 }).collect();
        let res = TieredEngine::verif_merge_knn_results(h, c, k);
        let mut exact = true;
        let obs = res
            .iter()
            .map(|x| {
                let q = x.distance * 4.0;
                if q.fract() != 0.0 || !(0.0..=1e6).contains(&q) {
                    exact = false;
                }
                (x.doc_id, q as u32)
            })
            .collect();
        out.push(MergeCase { hot, cold, k, obs, obs_exact: exact });
    }
    out
}

fn pairs(v: &[(u64, u32)]) -> String {
    let parts: Vec<String> = v.iter().map(|(i, d)| format!("({}, {})", i, d)).collect();
    format!("[{}]", parts.join("; "))
}

pub fn merge_shards(cases: &[MergeCase], per: usize) -> Vec<String> {
    let mut shards = vec![];
    for (s, chunk) in cases.chunks(per).enumerate() {
        let mut body = String::new();
        for (i, c) in chunk.iter().enumerate() {
            if i > 0 {
                body.push_str(";\n  ");
            }
            let _ = write!(body, "({}, {}, {}, {}%nat, {})", s * per + i, pairs(&c.hot), pairs(&c.cold), c.k, pairs(&c.obs));
        }
        let text = format!(
            "From Coq Require Import NArith List Bool.\nFrom Kyro Require Import Model.Knn.\nImport ListNotations.\nOpen Scope N_scope.\n\
Definition cases : list (N * list (N * N) * list (N * N) * nat * list (N * N)) := [\n  {}\n].\n\
Definition bad : list N := map (fun r => match r with (i, _, _, _, _) => i end)\n  (filter (fun r => match r with (_, h, c, k, o) => negb (merge_case_ok h c k o) end) cases).\n{}",
            body,
            tail("mg", "")
        );
        shards.push(text);
    }
    shards
}

/// merge_sound stated over the implementation's output only
pub fn merge_oracle(cases: &[MergeCase]) -> Vec<Value> {
    let mut fails = vec![];
    for (i, c) in cases.iter().enumerate() {
        let mut why = None;
        let ids: HashSet<u64> = c.obs.iter().map(|x| x.0).collect();
        let mut hot_last: HashMap<u64, u32> = HashMap::new();
        for (id, d) in &c.hot {
            hot_last.insert(*id, *d);
        }
        let mut cold_first: HashMap<u64, u32> = HashMap::new();
        for (id, d) in &c.cold {
            cold_first.entry(*id).or_insert(*d);
        }
        let universe: HashSet<u64> = hot_last.keys().chain(cold_first.keys()).cloned().collect();
        if !c.obs_exact {
            why = Some("a returned distance is not one of the input distances".to_string());
        } else if c.obs.len() != c.k.min(universe.len()) {
            why = Some(format!("{} results for k = {} over {} distinct ids", c.obs.len(), c.k, universe.len()));
        } else if ids.len() != c.obs.len() {
            why = Some("duplicate id".to_string());
        } else if c.obs.windows(2).any(|w| w[0].1 > w[1].1) {
            why = Some("not sorted by distance".to_string());
        } else {
            for (id, d) in &c.obs {
                let want = hot_last.get(id).or_else(|| cold_first.get(id));
                if want != Some(d) {
                    why = Some(format!("id {} carries distance {}/4, expected {:?}/4 (hot wins on duplicates)", id, d, want));
                }
            }
            if why.is_none() {
                if let Some(last) = c.obs.last() {
                    for id in &universe {
                        let d = *hot_last.get(id).or_else(|| cold_first.get(id)).unwrap();
                        if !ids.contains(id) && d < last.1 {
                            why = Some(format!("id {} at {}/4 left out although the last result is at {}/4", id, d, last.1));
                        }
                    }
                }
            }
        }
        if let Some(w) = why {
            fails.push(json!({"why": w, "class": "merge", "case": {"kind": "merge", "index": i, "hot": c.hot, "cold": c.cold, "k": c.k, "obs": c.obs}}));
        }
    }
    fails
}

// ------------------------------------------------------------------------------------------------
// (iii) engine cases -> Gallina
// ------------------------------------------------------------------------------------------------
const COS_UNIT: f64 = 1e9;
const COS_SLACK: i64 = 20_000; // 2e-5

fn key_of(metric: u8, qn: &[f32], v: &[f32]) -> Option<i64> {
    if qn.len() != v.len() {
        return None;
    }
    if metric == 0 {
        let mut s = 0f64;
        for (a, b) in qn.iter().zip(v.iter()) {
            let d = *a as f64 - *b as f64;
            s += d * d;
        }
        let k = s * 16.0;
        if k.fract() != 0.0 || k > 9e15 {
            return None; // not on the exact grid
        }
        Some(k as i64)
    } else {
        let n2: f64 = v.iter().map(|x| (*x as f64) * (*x as f64)).sum();
        if (n2 - 1.0).abs() > 1e-5 {
            return None; // only approximately unit length: tier-dependent distance definitions, measured elsewhere
        }
        let dot: f64 = qn.iter().zip(v.iter()).map(|(a, b)| *a as f64 * *b as f64).sum();
        Some(((1.0 - dot).max(0.0) * COS_UNIT).round() as i64)
    }
}

pub struct EngineEmit {
    pub shards: Vec<String>,
    pub selected: usize,
    pub eligible: usize,
    pub skipped: BTreeMap<String, u64>,
    pub nontrivial: usize,
    pub selected_ids: Vec<usize>,
}

/// Returns the Gallina literal of the case, or the reason it is not comparable exactly.
fn emit_case(id: usize, c: &SearchCase, first_of_call: bool, pool: &mut HashMap<Vec<u32>, u64>) -> Result<String, &'static str> {
    let obs = match &c.obs {
        Ok(o) => o,
        Err(_) => return Err("error-response"),
    };
    if c.degraded {
        return Err("degraded");
    }
    if c.cache_hit {
        return Err("cache-hit");
    }
    if c.k == 0 || c.k > 5000 {
        return Err("k-out-of-range");
    }
    let slack: i64 = if c.metric == 0 { 0 } else { COS_SLACK };
    let mut vid = |v: &[f32]| -> u64 {
        let bits: Vec<u32> = v.iter().map(|x| x.to_bits()).collect();
        let n = pool.len() as u64;
        *pool.entry(bits).or_insert(n)
    };
    let mut slots: Vec<(Option<u64>, i64, u64)> = vec![];
    for s in &c.slots {
        let k = key_of(c.metric, &c.query_norm, &s.vec).ok_or("off-grid")?;
        slots.push((s.ext, k, vid(&s.vec)));
    }
    let tiered = c.target.is_tiered();
    let mut hot: Vec<(u64, i64, u64, bool)> = vec![];
    if tiered {
        for h in &c.hot {
            let k = key_of(c.metric, &c.query_norm, &h.vec).ok_or("off-grid")?;
            hot.push((h.id, k, vid(&h.vec), h.fresh));
        }
        if !first_of_call && hot.iter().any(|h| !h.3) {
            return Err("batch-after-stale-discard");
        }
    }
    // ambiguity at the oversampling cut of the cold tier
    let live = slots.iter().filter(|s| s.0.is_some()).count();
    let total = slots.len();
    let kreq = if tiered { c.k * 2 } else { c.k };
    if live > 0 || !tiered {
        let sk = verif_compute_search_k(kreq, live, total);
        if sk < total && sk > 0 {
            let mut order: Vec<usize> = (0..total).collect();
            order.sort_by_key(|&i| (slots[i].1, i));
            let cut_key = slots[order[sk - 1]].1;
            let spans = slots[order[sk]].1 - cut_key <= slack;
            if spans {
                // the tie class around the cut
                let lo = order.iter().position(|&i| cut_key - slots[i].1 <= slack).unwrap_or(0);
                let mut hi = sk;
                while hi < total && slots[order[hi]].1 - cut_key <= slack {
                    hi += 1;
                }
                if order[lo..hi].iter().any(|&i| slots[i].0.is_some()) {
                    return Err("tie-at-search-k-cut");
                }
            }
        }
    }
    if tiered && hot.len() > 2 * c.k {
        let mut hk: Vec<(i64, u64)> = hot.iter().map(|h| (h.1, h.0)).collect();
        hk.sort();
        let a = hk[2 * c.k - 1].0;
        let b = hk[2 * c.k].0;
        if (c.metric != 0 && b - a <= slack) || (c.metric == 0 && false) {
            return Err("tie-at-hot-cut");
        }
    }
    // observation with the keys of the documents it names
    let live_key: HashMap<u64, i64> = slots.iter().filter_map(|s| s.0.map(|e| (e, s.1))).collect();
    let mut obs_l = vec![];
    for (id, _) in obs {
        let k = live_key.get(id).ok_or("obs-names-dead-doc")?; // the oracle has already reported it
        obs_l.push(format!("({}, {})", id, k));
    }
    let kind = match c.target {
        Target::Backend | Target::BackendBatch => 0,
        Target::Tiered | Target::TieredNoEf | Target::TieredBatch => 1,
        Target::TieredTimed | Target::TieredTimedNoEf => 2,
    };
    let cold_l: Vec<String> = slots
        .iter()
        .map(|(e, k, v)| format!("({}, {}, {})", match e { Some(x) => format!("{}", x), None => "-1".into() }, k, v))
        .collect();
    let hot_l: Vec<String> = hot.iter().map(|(id, k, v, fresh)| format!("({}, {}, {}, {})", id, k, v, if *fresh { 1 } else { 0 })).collect();
    Ok(format!("({}, {}, {}, {}, [{}], [{}], [{}])", id, kind, c.k, slack, cold_l.join("; "), hot_l.join("; "), obs_l.join("; ")))
}

pub fn engine_emit(cases: &[SearchCase], cap: usize, per: usize) -> EngineEmit {
    let mut skipped: BTreeMap<String, u64> = BTreeMap::new();
    let mut pool: HashMap<Vec<u32>, u64> = HashMap::new();
    // strata -> literals
    let mut strata: BTreeMap<String, Vec<(usize, String, bool)>> = BTreeMap::new();
    let mut seen_call: HashSet<(usize, usize)> = HashSet::new();
    let mut eligible = 0usize;
    let mut distinct: HashSet<String> = HashSet::new();
    for (id, c) in cases.iter().enumerate() {
        let first = seen_call.insert((c.history, c.op_index));
        match emit_case(id, c, first, &mut pool) {
            Ok(lit) => {
                eligible += 1;
                let stale = c.hot.iter().any(|h| !h.fresh);
                let key = format!("{}|{}|{}|{}|{}|{}", c.target.as_str(), c.metric, c.dim, c.tomb_ratio_pct / 20, stale, c.hot.is_empty());
                // canonical text without the id for distinctness
                let canon = lit.splitn(2, ',').nth(1).unwrap_or("").to_string();
                let fresh_text = distinct.insert(canon);
                let nontrivial = fresh_text && (c.tomb_ratio_pct > 0 || !c.hot.is_empty());
                strata.entry(key).or_default().push((id, lit, nontrivial));
            }
            Err(why) => *skipped.entry(why.to_string()).or_insert(0) += 1,
        }
    }
    // round-robin over the strata
    let mut picked: Vec<(usize, String, bool)> = vec![];
    let mut idx = 0usize;
    loop {
        let mut any = false;
        for v in strata.values() {
            if idx < v.len() && picked.len() < cap {
                picked.push(v[idx].clone());
                any = true;
            }
        }
        if !any || picked.len() >= cap {
            break;
        }
        idx += 1;
    }
    picked.sort_by_key(|p| p.0);
    let nontrivial = picked.iter().filter(|p| p.2).count();
    let mut shards = vec![];
    for chunk in picked.chunks(per) {
        let body: Vec<String> = chunk.iter().map(|p| p.1.clone()).collect();
        let text = format!(
            "From Coq Require Import NArith ZArith List Bool.\nFrom Kyro Require Import Model.Knn.\nImport ListNotations.\nOpen Scope Z_scope.\n\
Definition cases : list ecase := map ecase_of_raw [\n  {}\n].\n\
Definition bad : list N := map c_id (filter (fun c => negb (ecase_ok c)) cases).\n\
(* disagreements that are NOT explained by an incomplete (but sound) ANN candidate list *)\n\
Definition bad2 : list N := map c_id (filter (fun c => negb (ecase_ok c) && negb (ecase_ok_incomplete_ann c)) cases).\n{}",
            body.join(";\n  "),
            tail("en", "Goal True. idtac \"@@bad2\". Abort.\nEval vm_compute in bad2.\n")
        );
        shards.push(text);
    }
    EngineEmit { shards, selected: picked.len(), eligible, skipped, nontrivial, selected_ids: picked.iter().map(|p| p.0).collect() }
}

// ------------------------------------------------------------------------------------------------
// directed reproduction of C06_recent_write_refuted on the real TieredEngine
// ------------------------------------------------------------------------------------------------
/// Euclidean, dim 2, query (0,0), k = 1.
///   insert(1,(1,0)), insert(2,(0,1))                    two mirrored documents at distance 1
///   bulk_load: nine versions of id 50 at distance 0.1..0.9, then id 50 far away   -> 9 tombstones near the query
///   bulk_load: ids 1 and 2 overwritten far away          -> their mirrors are stale; 2 more tombstones at distance 1
///   insert(9,(2,0))                                      the acknowledged recent write X (distance 2), mirrored, token matches
/// Then one search (k = 1, not timed, ef override `ef`).  Expected by the property: X is the nearest live document.
pub fn directed_stale_mirror(with_stale: bool, with_tombstones: bool, ef: Option<usize>) -> Value {
    let engine = match TieredEngine::new(
        Box::new(LruCacheStrategy::new(64)),
        Arc::new(QueryHashCache::new(64, 0.85)),
        vec![],
        vec![],
        tiered_config(0, 2, 64, 20_000),
    ) {
        Ok(e) => e,
        Err(e) => return json!({"kind": "directed-stale-mirror", "error": format!("{:#}", e)}),
    };
    let mut errors: Vec<String> = vec![];
    let md = || HashMap::<String, String>::new();
    let mut ops: Vec<String> = vec![];
    if with_stale {
        for (id, v) in [(1u64, vec![1.0f32, 0.0]), (2, vec![0.0, 1.0])] {
            ops.push(format!("insert({}, {:?})", id, v));
            if let Err(e) = engine.insert(id, v, md()) {
                errors.push(format!("{:#}", e));
            }
        }
    }
    if with_tombstones {
        let mut docs: Vec<(u64, Vec<f32>, HashMap<String, String>)> = (1..=9).map(|i| (50u64, vec![i as f32 * 0.125, 0.0], md())).collect();
        docs.push((50, vec![100.0, 100.0], md()));
        ops.push("bulk_load_cold_tier(id 50 x 9 versions at distance 0.125..1.125, then (100,100))".into());
        if let Err(e) = engine.bulk_load_cold_tier(docs) {
            errors.push(format!("{:#}", e));
        }
    } else {
        ops.push("bulk_load_cold_tier(id 50 at (100,100))".into());
        if let Err(e) = engine.bulk_load_cold_tier(vec![(50, vec![100.0, 100.0], md())]) {
            errors.push(format!("{:#}", e));
        }
    }
    if with_stale {
        ops.push("bulk_load_cold_tier(1 -> (90,90), 2 -> (95,95))".into());
        if let Err(e) = engine.bulk_load_cold_tier(vec![(1, vec![90.0, 90.0], md()), (2, vec![95.0, 95.0], md())]) {
            errors.push(format!("{:#}", e));
        }
    }
    ops.push("insert(9, [2.0, 0.0])".into());
    if let Err(e) = engine.insert(9, vec![2.0, 0.0], md()) {
        errors.push(format!("{:#}", e));
    }
    let q = vec![0.0f32, 0.0];
    let hot_before = hot_snapshot(&engine);
    let x_fresh = hot_before.iter().find(|h| h.id == 9).map(|h| h.fresh);
    let stale_before = hot_before.iter().filter(|h| !h.fresh).count();
    let live = engine.cold_tier().len();
    let sb = engine.stats();
    let res = engine.knn_search_with_ef_detailed(&q, 1, ef);
    let sa = engine.stats();
    let degraded = sb.hot_tier_timeouts != sa.hot_tier_timeouts
        || sb.cold_tier_timeouts != sa.cold_tier_timeouts
        || sb.partial_results_returned != sa.partial_results_returned
        || sb.worker_saturation_count != sa.worker_saturation_count
        || sb.circuit_breaker_rejections != sa.circuit_breaker_rejections
        || sb.queries_rejected != sa.queries_rejected;
    let (results, path, err) = match &res {
        Ok((rs, p)) => (rs.iter().map(|r| json!([r.doc_id, r.distance as f64])).collect::<Vec<_>>(), Some(format!("{:?}", p)), None),
        Err(e) => (vec![], None, Some(format!("{:#}", e))),
    };
    let x_in = results.iter().any(|r| r[0].as_u64() == Some(9));
    let x_live = engine.cold_tier().fetch_document(9).is_some();
    // X is missing although live, acknowledged, mirrored with a matching token, in a non-degraded Ok response
    // that is either not full or whose k-th document is strictly farther than X (distance 2)
    let kth_farther = results.last().map(|r| r[1].as_f64().unwrap_or(0.0) > 2.0 + 1e-4).unwrap_or(true);
    let reproduced = err.is_none() && !degraded && x_live && x_fresh == Some(true) && !x_in && (results.len() < 1 || kth_farther);
    json!({
        "kind": "directed-stale-mirror",
        "with_stale_mirrors": with_stale, "with_tombstones": with_tombstones, "ef": ef,
        "metric": "Euclidean", "dim": 2, "k": 1, "query": [0.0, 0.0],
        "ops": ops, "setup_errors": errors,
        "cold_live_docs": live,
        "hot_before": hot_before.iter().map(|h| json!({"id": h.id, "fresh": h.fresh})).collect::<Vec<_>>(),
        "stale_mirrors_before": stale_before,
        "x": {"id": 9, "vector": [2.0, 0.0], "true_distance": 2.0, "live_in_cold_tier": x_live, "mirror_token_matches": x_fresh},
        "response": {"results": results, "path": path, "error": err, "degraded": degraded},
        "hot_after": hot_snapshot(&engine).iter().map(|h| h.id).collect::<Vec<_>>(),
        "x_in_result": x_in,
        "reproduced": reproduced,
        "replay_cmd": "./check C06 --replay <this file>",
    })
}

/// Outside C06's quantifier (k in 1..1000) but worth recording: the tiered path asks the cold tier for 2k.
pub fn big_k_observation() -> Value {
    let engine = match TieredEngine::new(
        Box::new(LruCacheStrategy::new(64)),
        Arc::new(QueryHashCache::new(64, 0.85)),
        vec![],
        vec![],
        tiered_config(0, 2, 64, 20_000),
    ) {
        Ok(e) => e,
        Err(e) => return json!({"error": format!("{:#}", e)}),
    };
    let _ = engine.insert(1, vec![1.0, 0.0], HashMap::new());
    let r5000 = engine.knn_search_with_ef(&[0.0, 0.0], 5000, Some(10_000)).map(|r| r.len()).map_err(|e| format!("{:#}", e));
    let r5001 = engine.knn_search_with_ef(&[0.0, 0.0], 5001, Some(10_000)).map(|r| r.len()).map_err(|e| format!("{:#}", e));
    json!({"k_5000": format!("{:?}", r5000), "k_5001": format!("{:?}", r5001)})
}
