//! C06 engine stream: seeded operation histories on the REAL `HnswBackend` / `TieredEngine`.
//!
//! For every search the module
//!  (a) applies the direct oracle (stated over implementation observations only), and
//!  (b) records a `SearchCase` snapshot (harness shadow of the cold tier's internal slot list, the
//!      hot-tier mirror read from the real engine, the observation) for a later model comparison.
//!
//! Notes for the consumer of `SearchCase`:
//!  * all f32 values are serialised as bit patterns; f64 references as u64 bit patterns (+ a readable copy);
//!  * the cases of one batch call (BackendBatch / TieredBatch) share `op_index` and appear in query
//!    order; `hot` is the mirror state BEFORE the batch call for all of them (the engine discards the
//!    stale mirrors it meets while serving earlier queries of the same batch; fresh entries are not affected);
//!  * `TieredEngine::merge_knn_results` collects candidates in a std `HashMap` and stable-sorts by
//!    distance only, so the ORDER of equal-distance results (and which of several equal-distance
//!    candidates survives truncation to k) is not a function of the inputs. The oracle is insensitive to it.
#![allow(dead_code)] // the public interface is consumed by the driver's other modules
use kvh::rng::Rng;
use kyrodb_engine::cache_strategy::LruCacheStrategy;
use kyrodb_engine::config::DistanceMetric;
use kyrodb_engine::hnsw_backend::{verif_normalize_in_place_if_needed, HnswBackend};
use kyrodb_engine::tiered_engine::{SearchExecutionPath, TieredEngine, TieredEngineConfig, TieredEngineStats};
use kyrodb_engine::QueryHashCache;
use serde_json::{json, Value};
use std::collections::{BTreeMap, HashMap, HashSet};
use std::sync::Arc;
use std::time::Duration;

const EF_FULL: usize = 10_000;
const TOL: f64 = 1e-4;

// ------------------------------------------------------------------------------------------------
// public data
// ------------------------------------------------------------------------------------------------

#[derive(Clone, Debug)]
pub struct Slot {
    pub ext: Option<u64>,
    pub vec: Vec<f32>,
}

#[derive(Clone, Debug)]
pub struct HotEntry {
    pub id: u64,
    pub vec: Vec<f32>,
    pub fresh: bool,
}

#[derive(Clone, Debug, PartialEq, Eq)]
pub enum Target {
    Backend,
    BackendBatch,
    Tiered,
    TieredNoEf,
    TieredTimed,
    TieredTimedNoEf,
    TieredBatch,
}

impl Target {
    pub fn as_str(&self) -> &'static str {
        match self {
            Target::Backend => "Backend",
            Target::BackendBatch => "BackendBatch",
            Target::Tiered => "Tiered",
            Target::TieredNoEf => "TieredNoEf",
            Target::TieredTimed => "TieredTimed",
            Target::TieredTimedNoEf => "TieredTimedNoEf",
            Target::TieredBatch => "TieredBatch",
        }
    }
    pub fn parse(s: &str) -> Option<Target> {
        Some(match s {
            "Backend" => Target::Backend,
            "BackendBatch" => Target::BackendBatch,
            "Tiered" => Target::Tiered,
            "TieredNoEf" => Target::TieredNoEf,
            "TieredTimed" => Target::TieredTimed,
            "TieredTimedNoEf" => Target::TieredTimedNoEf,
            "TieredBatch" => Target::TieredBatch,
            _ => return None,
        })
    }
    pub fn is_tiered(&self) -> bool {
        !matches!(self, Target::Backend | Target::BackendBatch)
    }
    pub fn is_batch(&self) -> bool {
        matches!(self, Target::BackendBatch | Target::TieredBatch)
    }
    pub fn ef(&self) -> Option<usize> {
        match self {
            Target::TieredNoEf | Target::TieredTimedNoEf => None,
            _ => Some(EF_FULL),
        }
    }
}

#[derive(Clone, Debug)]
pub struct SearchCase {
    pub history: usize,
    pub op_index: usize,
    pub target: Target,
    pub metric: u8,
    pub dim: usize,
    pub max_elements: usize,
    pub k: usize,
    pub ef: Option<usize>,
    pub query: Vec<f32>,
    pub query_norm: Vec<f32>,
    pub slots: Vec<Slot>,
    pub live_docs: usize,
    pub total_slots: usize,
    pub hot: Vec<HotEntry>,
    pub obs: Result<Vec<(u64, f32)>, String>,
    pub path: Option<String>,
    pub degraded: bool,
    pub cache_hit: bool,
    pub ref_dist: Vec<(u64, f64)>,
    pub tomb_ratio_pct: u32,
}

#[derive(Clone, Debug)]
pub struct OracleFailure {
    pub why: String,
    pub class: String,
    pub case: SearchCase,
    pub ops_prefix: Value,
}

#[derive(Clone, Debug)]
pub struct StreamOut {
    pub cases: Vec<SearchCase>,
    pub failures: Vec<OracleFailure>,
    pub histogram: Value,
    pub histories: usize,
    pub near_unit_gap_max: f64,
}

// ------------------------------------------------------------------------------------------------
// JSON helpers (f32 as bit patterns)
// ------------------------------------------------------------------------------------------------

fn vec_json(v: &[f32]) -> Value {
    Value::Array(v.iter().map(|x| json!(x.to_bits())).collect())
}

fn vec_from_json(v: &Value) -> Option<Vec<f32>> {
    v.as_array()?.iter().map(|x| x.as_u64().map(|b| f32::from_bits(b as u32))).collect()
}

fn vec_readable(v: &[f32]) -> String {
    let parts: Vec<String> = v.iter().map(|x| format!("{}", x)).collect();
    format!("[{}]", parts.join(","))
}

impl Slot {
    pub fn to_json(&self) -> Value {
        json!({"ext": self.ext, "vec": vec_json(&self.vec)})
    }
    pub fn from_json(v: &Value) -> Option<Slot> {
        Some(Slot { ext: v.get("ext")?.as_u64(), vec: vec_from_json(v.get("vec")?)? })
    }
}

impl HotEntry {
    pub fn to_json(&self) -> Value {
        json!({"id": self.id, "vec": vec_json(&self.vec), "fresh": self.fresh})
    }
    pub fn from_json(v: &Value) -> Option<HotEntry> {
        Some(HotEntry { id: v.get("id")?.as_u64()?, vec: vec_from_json(v.get("vec")?)?, fresh: v.get("fresh")?.as_bool()? })
    }
}

impl SearchCase {
    pub fn to_json(&self) -> Value {
        let obs = match &self.obs {
            Ok(rs) => json!({"ok": rs.iter().map(|(id, d)| json!([id, d.to_bits(), *d as f64])).collect::<Vec<_>>()}),
            Err(e) => json!({"err": e}),
        };
        json!({
            "history": self.history, "op_index": self.op_index, "target": self.target.as_str(),
            "metric": self.metric, "dim": self.dim, "max_elements": self.max_elements,
            "k": self.k, "ef": self.ef,
            "query": vec_json(&self.query), "query_norm": vec_json(&self.query_norm),
            "query_readable": vec_readable(&self.query),
            "slots": self.slots.iter().map(|s| s.to_json()).collect::<Vec<_>>(),
            "live_docs": self.live_docs, "total_slots": self.total_slots,
            "hot": self.hot.iter().map(|h| h.to_json()).collect::<Vec<_>>(),
            "obs": obs, "path": self.path, "degraded": self.degraded, "cache_hit": self.cache_hit,
            "ref_dist": self.ref_dist.iter().map(|(id, r)| json!([id, r.to_bits(), r])).collect::<Vec<_>>(),
            "tomb_ratio_pct": self.tomb_ratio_pct,
        })
    }

    pub fn from_json(v: &Value) -> Option<SearchCase> {
        let obs = {
            let o = v.get("obs")?;
            if let Some(rs) = o.get("ok") {
                let mut out = vec![];
                for r in rs.as_array()? {
                    out.push((r.get(0)?.as_u64()?, f32::from_bits(r.get(1)?.as_u64()? as u32)));
                }
                Ok(out)
            } else {
                Err(o.get("err")?.as_str()?.to_string())
            }
        };
        let mut ref_dist = vec![];
        for r in v.get("ref_dist")?.as_array()? {
            ref_dist.push((r.get(0)?.as_u64()?, f64::from_bits(r.get(1)?.as_u64()?)));
        }
        Some(SearchCase {
            history: v.get("history")?.as_u64()? as usize,
            op_index: v.get("op_index")?.as_u64()? as usize,
            target: Target::parse(v.get("target")?.as_str()?)?,
            metric: v.get("metric")?.as_u64()? as u8,
            dim: v.get("dim")?.as_u64()? as usize,
            max_elements: v.get("max_elements")?.as_u64()? as usize,
            k: v.get("k")?.as_u64()? as usize,
            ef: v.get("ef").and_then(|e| e.as_u64()).map(|e| e as usize),
            query: vec_from_json(v.get("query")?)?,
            query_norm: vec_from_json(v.get("query_norm")?)?,
            slots: v.get("slots")?.as_array()?.iter().map(Slot::from_json).collect::<Option<Vec<_>>>()?,
            live_docs: v.get("live_docs")?.as_u64()? as usize,
            total_slots: v.get("total_slots")?.as_u64()? as usize,
            hot: v.get("hot")?.as_array()?.iter().map(HotEntry::from_json).collect::<Option<Vec<_>>>()?,
            obs,
            path: v.get("path").and_then(|p| p.as_str()).map(|s| s.to_string()),
            degraded: v.get("degraded")?.as_bool()?,
            cache_hit: v.get("cache_hit")?.as_bool()?,
            ref_dist,
            tomb_ratio_pct: v.get("tomb_ratio_pct")?.as_u64()? as u32,
        })
    }
}

impl OracleFailure {
    pub fn to_json(&self) -> Value {
        json!({"why": self.why, "class": self.class, "case": self.case.to_json(), "ops_prefix": self.ops_prefix})
    }
}

impl StreamOut {
    pub fn to_json(&self) -> Value {
        json!({
            "cases": self.cases.iter().map(|c| c.to_json()).collect::<Vec<_>>(),
            "failures": self.failures.iter().map(|f| f.to_json()).collect::<Vec<_>>(),
            "histogram": self.histogram, "histories": self.histories, "near_unit_gap_max": self.near_unit_gap_max,
        })
    }
}

// ------------------------------------------------------------------------------------------------
// reference distances (f64)
// ------------------------------------------------------------------------------------------------

pub(crate) fn metric_of(m: u8) -> DistanceMetric {
    match m {
        0 => DistanceMetric::Euclidean,
        1 => DistanceMetric::Cosine,
        _ => DistanceMetric::InnerProduct,
    }
}

fn metric_name(m: u8) -> &'static str {
    match m {
        0 => "Euclidean",
        1 => "Cosine",
        _ => "InnerProduct",
    }
}

fn dot64(a: &[f32], b: &[f32]) -> f64 {
    a.iter().zip(b.iter()).map(|(x, y)| *x as f64 * *y as f64).sum()
}

fn ref_euclid(q: &[f32], v: &[f32]) -> f64 {
    q.iter().zip(v.iter()).map(|(x, y)| { let d = *x as f64 - *y as f64; d * d }).sum::<f64>().sqrt()
}

/// cold-tier definition: max(0, 1 - dot(qn, v))
fn ref_cold(q: &[f32], v: &[f32]) -> f64 {
    (1.0 - dot64(q, v)).max(0.0)
}

/// hot-tier definition: 1 - clamp(dot / (|q||v|), -1, 1)
fn ref_cos(q: &[f32], v: &[f32]) -> f64 {
    let den = dot64(q, q).sqrt() * dot64(v, v).sqrt();
    if den <= 0.0 {
        return f64::INFINITY;
    }
    1.0 - (dot64(q, v) / den).clamp(-1.0, 1.0)
}

/// (cold-tier reference, hot-tier reference); identical for Euclidean.
fn refs(metric: u8, qn: &[f32], v: &[f32]) -> (f64, f64) {
    if qn.len() != v.len() {
        return (f64::NAN, f64::NAN);
    }
    if metric == 0 {
        let r = ref_euclid(qn, v);
        (r, r)
    } else {
        (ref_cold(qn, v), ref_cos(qn, v))
    }
}

fn close(d: f64, r: f64) -> bool {
    r.is_finite() && (d - r).abs() <= TOL * (1.0 + r)
}

fn same_bits(a: &[f32], b: &[f32]) -> bool {
    a.len() == b.len() && a.iter().zip(b.iter()).all(|(x, y)| x.to_bits() == y.to_bits())
}

// ------------------------------------------------------------------------------------------------
// histogram
// ------------------------------------------------------------------------------------------------

#[derive(Default)]
struct Hist(BTreeMap<String, BTreeMap<String, u64>>);

impl Hist {
    fn add(&mut self, group: &str, key: &str, n: u64) {
        *self.0.entry(group.to_string()).or_default().entry(key.to_string()).or_insert(0) += n;
    }
    fn bump(&mut self, group: &str, key: &str) {
        self.add(group, key, 1);
    }
    fn to_json(&self) -> Value {
        let mut m = serde_json::Map::new();
        for (g, inner) in &self.0 {
            let mut im = serde_json::Map::new();
            for (k, n) in inner {
                im.insert(k.clone(), json!(n));
            }
            m.insert(g.clone(), Value::Object(im));
        }
        Value::Object(m)
    }
}

struct Acc {
    cases: Vec<SearchCase>,
    failures: Vec<OracleFailure>,
    hist: Hist,
    gap_max: f64,
}

// ------------------------------------------------------------------------------------------------
// histories
// ------------------------------------------------------------------------------------------------

#[derive(Clone, Debug, PartialEq, Eq)]
enum Kind {
    Backend,
    Tiered,
}

#[derive(Clone, Debug)]
struct Header {
    history: usize,
    metric: u8,
    dim: usize,
    kind: Kind,
    max_elements: usize,
    hard_limit: usize,
    near_unit: bool,
    shape: String,
    init: Vec<Vec<f32>>,
}

impl Header {
    fn to_json(&self) -> Value {
        json!({
            "history": self.history, "metric": self.metric, "dim": self.dim,
            "kind": if self.kind == Kind::Backend { "Backend" } else { "Tiered" },
            "max_elements": self.max_elements, "hard_limit": self.hard_limit, "near_unit": self.near_unit,
            "shape": self.shape,
            "init": self.init.iter().map(|v| vec_json(v)).collect::<Vec<_>>(),
        })
    }
    fn from_json(v: &Value) -> Option<Header> {
        Some(Header {
            history: v.get("history")?.as_u64()? as usize,
            metric: v.get("metric")?.as_u64()? as u8,
            dim: v.get("dim")?.as_u64()? as usize,
            kind: if v.get("kind")?.as_str()? == "Backend" { Kind::Backend } else { Kind::Tiered },
            max_elements: v.get("max_elements")?.as_u64()? as usize,
            hard_limit: v.get("hard_limit")?.as_u64()? as usize,
            near_unit: v.get("near_unit")?.as_bool()?,
            shape: v.get("shape").and_then(|s| s.as_str()).unwrap_or("replay").to_string(),
            init: v.get("init")?.as_array()?.iter().map(vec_from_json).collect::<Option<Vec<_>>>()?,
        })
    }
}

#[derive(Clone, Debug)]
enum Op {
    Insert(u64, Vec<f32>),
    Delete(u64),
    BatchDelete(Vec<u64>),
    BulkLoad(Vec<(u64, Vec<f32>)>),
    Flush,
    Search { target: Target, k: usize, queries: Vec<Vec<f32>> },
}

impl Op {
    fn to_json(&self) -> Value {
        match self {
            Op::Insert(id, v) => json!(["I", id, vec_json(v)]),
            Op::Delete(id) => json!(["D", id]),
            Op::BatchDelete(ids) => json!(["BD", ids]),
            Op::BulkLoad(docs) => json!(["BL", docs.iter().map(|(id, v)| json!([id, vec_json(v)])).collect::<Vec<_>>()]),
            Op::Flush => json!(["F"]),
            Op::Search { target, k, queries } => {
                json!(["S", target.as_str(), k, queries.iter().map(|q| vec_json(q)).collect::<Vec<_>>()])
            }
        }
    }
    fn from_json(v: &Value) -> Option<Op> {
        Some(match v.get(0)?.as_str()? {
            "I" => Op::Insert(v.get(1)?.as_u64()?, vec_from_json(v.get(2)?)?),
            "D" => Op::Delete(v.get(1)?.as_u64()?),
            "BD" => Op::BatchDelete(v.get(1)?.as_array()?.iter().map(|x| x.as_u64()).collect::<Option<Vec<_>>>()?),
            "BL" => {
                let mut docs = vec![];
                for d in v.get(1)?.as_array()? {
                    docs.push((d.get(0)?.as_u64()?, vec_from_json(d.get(1)?)?));
                }
                Op::BulkLoad(docs)
            }
            "F" => Op::Flush,
            "S" => Op::Search {
                target: Target::parse(v.get(1)?.as_str()?)?,
                k: v.get(2)?.as_u64()? as usize,
                queries: v.get(3)?.as_array()?.iter().map(vec_from_json).collect::<Option<Vec<_>>>()?,
            },
            _ => return None,
        })
    }
}

// ------------------------------------------------------------------------------------------------
// shadow of the cold tier's internal slot list (acknowledged writes only)
// ------------------------------------------------------------------------------------------------

struct Shadow {
    slots: Vec<Slot>,
    max: usize,
    /// every stored (post-normalisation) vector an id ever had, in order; the last one of a live id is current
    versions: HashMap<u64, Vec<Vec<f32>>>,
}

impl Shadow {
    fn live(&self) -> usize {
        self.slots.iter().filter(|s| s.ext.is_some()).count()
    }
    fn tombstones(&self) -> usize {
        self.slots.len() - self.live()
    }
    fn live_ids(&self) -> Vec<u64> {
        let mut v: Vec<u64> = self.slots.iter().filter_map(|s| s.ext).collect();
        v.sort_unstable();
        v
    }
    fn current(&self, id: u64) -> Option<&Vec<f32>> {
        self.slots.iter().find(|s| s.ext == Some(id)).map(|s| &s.vec)
    }
    fn is_live(&self, id: u64) -> bool {
        self.slots.iter().any(|s| s.ext == Some(id))
    }
    /// `HnswBackend::insert` succeeds iff the index is not full, or it is full and holds a tombstone.
    fn can_insert(&self) -> bool {
        self.slots.len() < self.max || self.tombstones() > 0
    }
    /// returns true when the insert crossed a compaction
    fn insert(&mut self, id: u64, stored: Vec<f32>) -> bool {
        let mut compacted = false;
        if self.slots.len() >= self.max {
            self.slots.retain(|s| s.ext.is_some());
            compacted = true;
        }
        for s in self.slots.iter_mut() {
            if s.ext == Some(id) {
                s.ext = None;
            }
        }
        self.slots.push(Slot { ext: Some(id), vec: stored.clone() });
        self.versions.entry(id).or_default().push(stored);
        compacted
    }
    fn delete(&mut self, id: u64) -> bool {
        let mut hit = false;
        for s in self.slots.iter_mut() {
            if s.ext == Some(id) {
                s.ext = None;
                hit = true;
            }
        }
        hit
    }
    fn tomb_pct(&self) -> u32 {
        if self.slots.is_empty() { 0 } else { (self.tombstones() * 100 / self.slots.len()) as u32 }
    }
}

// ------------------------------------------------------------------------------------------------
// the real engine
// ------------------------------------------------------------------------------------------------

enum Eng {
    B(HnswBackend),
    T(Box<TieredEngine>),
}

impl Eng {
    fn cold(&self) -> &HnswBackend {
        match self {
            Eng::B(b) => b,
            Eng::T(e) => e.cold_tier(),
        }
    }
}

pub(crate) fn tiered_config(metric: u8, dim: usize, max_elements: usize, hard_limit: usize) -> TieredEngineConfig {
    TieredEngineConfig {
        hot_tier_max_size: 10_000,
        hot_tier_hard_limit: hard_limit,
        hot_tier_max_age: Duration::from_secs(3600),
        hnsw_max_elements: max_elements,
        embedding_dimension: dim,
        hnsw_distance: metric_of(metric),
        hnsw_ef_search: EF_FULL,
        data_dir: None,
        flush_interval: Duration::from_secs(3600),
        hot_tier_timeout_ms: 60_000,
        cold_tier_timeout_ms: 60_000,
        ..Default::default()
    }
}

fn build_engine(h: &Header) -> Result<Eng, String> {
    match h.kind {
        Kind::Backend => HnswBackend::new_with_hnsw_params(
            h.dim,
            metric_of(h.metric),
            h.init.clone(),
            h.init.iter().map(|_| HashMap::new()).collect(),
            h.max_elements,
            16,
            200,
            false,
        )
        .map(Eng::B)
        .map_err(|e| format!("{:#}", e)),
        Kind::Tiered => TieredEngine::new(
            Box::new(LruCacheStrategy::new(64)),
            Arc::new(QueryHashCache::new(64, 0.85)),
            h.init.clone(),
            h.init.iter().map(|_| HashMap::new()).collect(),
            tiered_config(h.metric, h.dim, h.max_elements, h.hard_limit),
        )
        .map(|e| Eng::T(Box::new(e)))
        .map_err(|e| format!("{:#}", e)),
    }
}

pub(crate) fn hot_snapshot(e: &TieredEngine) -> Vec<HotEntry> {
    let mut ids = e.hot_tier().snapshot_doc_ids();
    ids.sort_unstable();
    let mut out = vec![];
    for id in ids {
        if let Some((vec, tok)) = e.hot_tier().peek_with_coherence(id) {
            let fresh = e.cold_tier().current_coherence_token(id) == Some(tok);
            out.push(HotEntry { id, vec, fresh });
        }
    }
    out
}

fn degraded_counters(s: &TieredEngineStats) -> [u64; 6] {
    [
        s.hot_tier_timeouts,
        s.cold_tier_timeouts,
        s.partial_results_returned,
        s.worker_saturation_count,
        s.circuit_breaker_rejections,
        s.queries_rejected,
    ]
}

// ------------------------------------------------------------------------------------------------
// executor: one history on the real engine + shadow + oracle
// ------------------------------------------------------------------------------------------------

struct Exec<'a> {
    hdr: Header,
    eng: Eng,
    rt: &'a tokio::runtime::Runtime,
    shadow: Shadow,
    ops_json: Vec<Value>,
    dead: bool,
}

impl<'a> Exec<'a> {
    fn new(hdr: Header, rt: &'a tokio::runtime::Runtime) -> Result<Exec<'a>, String> {
        let eng = build_engine(&hdr)?;
        let mut shadow = Shadow { slots: vec![], max: hdr.max_elements, versions: HashMap::new() };
        for (i, v) in hdr.init.iter().enumerate() {
            let mut s = v.clone();
            let zero = v.iter().all(|x| *x == 0.0);
            if !zero {
                verif_normalize_in_place_if_needed(metric_of(hdr.metric), &mut s).map_err(|e| format!("{:#}", e))?;
                shadow.versions.entry(i as u64).or_default().push(s.clone());
            }
            shadow.slots.push(Slot { ext: if zero { None } else { Some(i as u64) }, vec: s });
        }
        Ok(Exec { hdr, eng, rt, shadow, ops_json: vec![], dead: false })
    }

    fn prefix_json(&self) -> Value {
        let mut h = self.hdr.to_json();
        h.as_object_mut().unwrap().insert("ops".to_string(), Value::Array(self.ops_json.clone()));
        h
    }

    fn placeholder_case(&self, op_index: usize) -> SearchCase {
        SearchCase {
            history: self.hdr.history,
            op_index,
            target: if self.hdr.kind == Kind::Backend { Target::Backend } else { Target::Tiered },
            metric: self.hdr.metric,
            dim: self.hdr.dim,
            max_elements: self.hdr.max_elements,
            k: 0,
            ef: None,
            query: vec![],
            query_norm: vec![],
            slots: self.shadow.slots.clone(),
            live_docs: self.shadow.live(),
            total_slots: self.shadow.slots.len(),
            hot: match &self.eng { Eng::T(e) => hot_snapshot(e), _ => vec![] },
            obs: Err("(not a search: failure of a write operation or of the shadow check)".to_string()),
            path: None,
            degraded: false,
            cache_hit: false,
            ref_dist: vec![],
            tomb_ratio_pct: self.shadow.tomb_pct(),
        }
    }

    fn fail(&mut self, acc: &mut Acc, class: &str, why: String, case: SearchCase, fatal: bool) {
        acc.hist.bump("oracle_failures", class);
        acc.failures.push(OracleFailure { why, class: class.to_string(), case, ops_prefix: self.prefix_json() });
        if fatal {
            self.dead = true;
        }
    }

    fn fail_op(&mut self, acc: &mut Acc, op_index: usize, class: &str, why: String) {
        let case = self.placeholder_case(op_index);
        self.fail(acc, class, why, case, true);
    }

    fn normalised(&self, v: &[f32]) -> Option<Vec<f32>> {
        if v.len() != self.hdr.dim || v.iter().any(|x| !x.is_finite()) {
            return None;
        }
        let mut s = v.to_vec();
        verif_normalize_in_place_if_needed(metric_of(self.hdr.metric), &mut s).ok()?;
        Some(s)
    }

    fn apply(&mut self, op_index: usize, op: &Op, acc: &mut Acc) {
        self.ops_json.push(op.to_json());
        match op {
            Op::Insert(id, v) => {
                let stored = self.normalised(v);
                let room = self.shadow.can_insert();
                let res = match &self.eng {
                    Eng::B(b) => b.insert(*id, v.clone(), HashMap::new()),
                    Eng::T(e) => e.insert(*id, v.clone(), HashMap::new()),
                };
                match (res, stored) {
                    (Ok(()), Some(s)) if room => {
                        acc.hist.bump("ops", "insert.ok");
                        if self.shadow.is_live(*id) {
                            acc.hist.bump("ops", "insert.ok_overwrite");
                        }
                        if self.shadow.insert(*id, s) {
                            acc.hist.bump("ops", "compactions_observed");
                        }
                    }
                    (Ok(()), _) => {
                        acc.hist.bump("ops", "insert.ok_unexpected");
                        self.fail_op(acc, op_index, "unexpected-op-result", format!("insert({}) acknowledged although the shadow predicts an error (normalisable={}, room={})", id, self.normalised(v).is_some(), room));
                    }
                    (Err(e), st) => {
                        let msg = format!("{:#}", e);
                        if st.is_none() {
                            acc.hist.bump("ops", "insert.err_zero_norm_or_invalid");
                        } else if !room {
                            acc.hist.bump("ops", "insert.err_full_no_tombstone");
                        } else {
                            acc.hist.bump("ops", "insert.err_other");
                            self.fail_op(acc, op_index, "unexpected-op-error", format!("insert({}) failed: {}", id, msg));
                        }
                    }
                }
            }
            Op::Delete(id) => {
                let expect = self.shadow.is_live(*id);
                let res = match &self.eng {
                    Eng::B(b) => b.delete(*id),
                    Eng::T(e) => e.delete(*id),
                };
                match res {
                    Ok(b) => {
                        acc.hist.bump("ops", if b { "delete.ok_true" } else { "delete.ok_false" });
                        if b != expect {
                            self.fail_op(acc, op_index, "unexpected-op-result", format!("delete({}) returned {} but the shadow says live={}", id, b, expect));
                        } else if b {
                            self.shadow.delete(*id);
                        }
                    }
                    Err(e) => {
                        acc.hist.bump("ops", "delete.err");
                        self.fail_op(acc, op_index, "unexpected-op-error", format!("delete({}) failed: {:#}", id, e));
                    }
                }
            }
            Op::BatchDelete(ids) => {
                let uniq: HashSet<u64> = ids.iter().copied().filter(|i| self.shadow.is_live(*i)).collect();
                let res = match &self.eng {
                    Eng::B(b) => b.batch_delete(ids),
                    Eng::T(e) => e.batch_delete(ids),
                };
                match res {
                    Ok(n) => {
                        acc.hist.bump("ops", "batch_delete.ok");
                        acc.hist.add("ops", "batch_delete.docs_deleted", n);
                        if n != uniq.len() as u64 {
                            self.fail_op(acc, op_index, "unexpected-op-result", format!("batch_delete({:?}) returned {} but the shadow holds {} of them live", ids, n, uniq.len()));
                        } else {
                            for i in uniq {
                                self.shadow.delete(i);
                            }
                        }
                    }
                    Err(e) => {
                        acc.hist.bump("ops", "batch_delete.err");
                        self.fail_op(acc, op_index, "unexpected-op-error", format!("batch_delete failed: {:#}", e));
                    }
                }
            }
            Op::BulkLoad(docs) => {
                let Eng::T(e) = &self.eng else {
                    acc.hist.bump("ops", "bulk_load.skipped_backend");
                    return;
                };
                let hot_before: HashSet<u64> = e.hot_tier().snapshot_doc_ids().into_iter().collect();
                let res = e.bulk_load_cold_tier(docs.iter().map(|(id, v)| (*id, v.clone(), HashMap::new())).collect());
                // the per-document acknowledgement is (loaded, failed); predict it document by document
                let mut pred_ok = 0u64;
                let mut pred_fail = 0u64;
                let mut over_hot = 0u64;
                for (id, v) in docs {
                    match self.normalised(v) {
                        Some(s) if self.shadow.can_insert() => {
                            if hot_before.contains(id) {
                                over_hot += 1;
                            }
                            if self.shadow.insert(*id, s) {
                                acc.hist.bump("ops", "compactions_observed");
                            }
                            pred_ok += 1;
                        }
                        _ => pred_fail += 1,
                    }
                }
                match res {
                    Ok((loaded, failed, _, _)) => {
                        acc.hist.bump("ops", "bulk_load.ok");
                        acc.hist.add("ops", "bulk_load.docs_loaded", loaded);
                        acc.hist.add("ops", "bulk_load.docs_failed", failed);
                        acc.hist.add("ops", "bulk_load.docs_over_hot_mirror", over_hot);
                        if loaded != pred_ok || failed != pred_fail {
                            self.fail_op(acc, op_index, "unexpected-op-result", format!("bulk_load reported loaded={} failed={} but the shadow predicts {} / {}", loaded, failed, pred_ok, pred_fail));
                        }
                    }
                    Err(e) => {
                        acc.hist.bump("ops", "bulk_load.err");
                        self.fail_op(acc, op_index, "unexpected-op-error", format!("bulk_load failed: {:#}", e));
                    }
                }
            }
            Op::Flush => {
                let Eng::T(e) = &self.eng else {
                    acc.hist.bump("ops", "flush.skipped_backend");
                    return;
                };
                match e.flush_hot_tier(true) {
                    Ok(n) => {
                        acc.hist.bump("ops", "flush.ok");
                        acc.hist.add("ops", "flush.docs_drained", n as u64);
                    }
                    Err(e) => {
                        acc.hist.bump("ops", "flush.err");
                        self.fail_op(acc, op_index, "unexpected-op-error", format!("flush_hot_tier(true) failed: {:#}", e));
                    }
                }
            }
            Op::Search { target, k, queries } => self.search(op_index, target, *k, queries, acc),
        }
        if !self.dead {
            let real = self.eng.cold().len();
            if real != self.shadow.live() {
                self.fail_op(acc, op_index, "shadow-mismatch", format!("after op {}: cold tier len() = {} but the shadow of acknowledged writes holds {} live documents", op_index, real, self.shadow.live()));
            }
        }
    }

    fn valid_query(&self, q: &[f32]) -> bool {
        self.normalised(q).is_some()
    }

    fn search(&mut self, op_index: usize, target: &Target, k: usize, queries: &[Vec<f32>], acc: &mut Acc) {
        if target.is_tiered() != matches!(self.eng, Eng::T(_)) || queries.is_empty() {
            acc.hist.bump("ops", "search.skipped_wrong_kind");
            return;
        }
        let ef = target.ef();
        let hot: Vec<HotEntry> = match &self.eng { Eng::T(e) => hot_snapshot(e), _ => vec![] };
        let before = match &self.eng { Eng::T(e) => Some(e.stats()), _ => None };

        type One = (Result<Vec<(u64, f32)>, String>, Option<SearchExecutionPath>);
        let conv = |rs: Vec<kyrodb_engine::SearchResult>| rs.into_iter().map(|r| (r.doc_id, r.distance)).collect::<Vec<_>>();
        let mut outs: Vec<One> = vec![];
        match (&self.eng, target) {
            (Eng::B(b), Target::Backend) => {
                for q in queries {
                    outs.push((b.knn_search_with_ef(q, k, Some(EF_FULL)).map(conv).map_err(|e| format!("{:#}", e)), None));
                }
            }
            (Eng::B(b), Target::BackendBatch) => match b.knn_search_batch(queries, k, Some(EF_FULL)) {
                Ok(rs) if rs.len() == queries.len() => outs.extend(rs.into_iter().map(|r| (Ok(conv(r)), None))),
                Ok(rs) => outs.extend(queries.iter().map(|_| (Err(format!("batch returned {} result lists for {} queries", rs.len(), queries.len())), None))),
                Err(e) => outs.extend(queries.iter().map(|_| (Err(format!("{:#}", e)), None))),
            },
            (Eng::T(e), Target::Tiered) | (Eng::T(e), Target::TieredNoEf) => {
                for q in queries {
                    match e.knn_search_with_ef_detailed(q, k, ef) {
                        Ok((rs, p)) => outs.push((Ok(conv(rs)), Some(p))),
                        Err(er) => outs.push((Err(format!("{:#}", er)), None)),
                    }
                }
            }
            (Eng::T(e), Target::TieredTimed) | (Eng::T(e), Target::TieredTimedNoEf) => {
                for q in queries {
                    match self.rt.block_on(e.knn_search_with_timeouts_with_ef(q, k, ef)) {
                        Ok((rs, p)) => outs.push((Ok(conv(rs)), Some(p))),
                        Err(er) => outs.push((Err(format!("{:#}", er)), None)),
                    }
                }
            }
            (Eng::T(e), Target::TieredBatch) => match e.knn_search_batch_with_ef(queries, k, Some(EF_FULL)) {
                Ok(rs) if rs.len() == queries.len() => outs.extend(rs.into_iter().map(|r| (Ok(conv(r)), None))),
                Ok(rs) => outs.extend(queries.iter().map(|_| (Err(format!("batch returned {} result lists for {} queries", rs.len(), queries.len())), None))),
                Err(er) => outs.extend(queries.iter().map(|_| (Err(format!("{:#}", er)), None))),
            },
            _ => return,
        }
        let degraded = match (&self.eng, &before) {
            (Eng::T(e), Some(b)) => degraded_counters(&e.stats()) != degraded_counters(b),
            _ => false,
        };
        if let Eng::T(e) = &self.eng {
            let after = e.hot_tier().len();
            if after < hot.len() {
                acc.hist.add("search", "stale_mirrors_discarded_by_search", (hot.len() - after) as u64);
            }
        }
        let all_valid = (1..=10_000).contains(&k) && queries.iter().all(|q| self.valid_query(q));

        for (q, (obs, path)) in queries.iter().zip(outs.into_iter()) {
            let qn = self.normalised(q).unwrap_or_else(|| q.clone());
            let mut ref_dist = vec![];
            let mut ref_both: BTreeMap<u64, (f64, f64)> = BTreeMap::new();
            for id in self.shadow.live_ids() {
                let v = self.shadow.current(id).unwrap();
                let (rc, rh) = refs(self.hdr.metric, &qn, v);
                ref_dist.push((id, rc));
                ref_both.insert(id, (rc, rh));
            }
            let case = SearchCase {
                history: self.hdr.history,
                op_index,
                target: target.clone(),
                metric: self.hdr.metric,
                dim: self.hdr.dim,
                max_elements: self.hdr.max_elements,
                k,
                ef,
                query: q.clone(),
                query_norm: qn,
                slots: self.shadow.slots.clone(),
                live_docs: self.shadow.live(),
                total_slots: self.shadow.slots.len(),
                hot: hot.clone(),
                obs,
                path: path.map(|p| format!("{:?}", p)),
                degraded,
                cache_hit: path == Some(SearchExecutionPath::CacheHit),
                ref_dist,
                tomb_ratio_pct: self.shadow.tomb_pct(),
            };
            self.record_search_hist(&case, acc);
            let valid = if target.is_batch() { all_valid } else { (1..=10_000).contains(&k) && self.valid_query(q) };
            if let Some((class, why, fatal)) = self.oracle(&case, &ref_both, valid, acc) {
                self.fail(acc, &class, why, case.clone(), fatal);
            }
            acc.cases.push(case);
            if self.dead {
                break;
            }
        }
    }

    fn record_search_hist(&self, c: &SearchCase, acc: &mut Acc) {
        let h = &mut acc.hist;
        h.bump("ops", "search.calls");
        h.bump("search_by_target", c.target.as_str());
        h.bump("search_by_metric", metric_name(c.metric));
        h.bump("search_by_dim", &format!("{:02}", c.dim));
        h.bump("search_by_k", &format!("{:05}", c.k));
        let b = match c.tomb_ratio_pct {
            0 => "00",
            1..=49 => "01-49",
            50..=79 => "50-79",
            80..=95 => "80-95",
            _ => "96-100",
        };
        h.bump("search_by_tombstone_ratio", b);
        if c.degraded {
            h.bump("search", "degraded");
        }
        if c.cache_hit {
            h.bump("search", "cache_hits");
        }
        if let Some(p) = &c.path {
            h.bump("search_by_path", p);
        }
        let stale = c.hot.iter().filter(|x| !x.fresh).count() as u64;
        if stale > 0 {
            h.bump("search", "searches_with_stale_mirror");
            h.add("search", "stale_mirrors_seen", stale);
        }
        if !c.hot.is_empty() {
            h.bump("search", "searches_with_hot_entries");
        }
        if self.hdr.near_unit {
            h.bump("search", "in_near_unit_history");
        }
        match &c.obs {
            Ok(rs) => {
                let key = if rs.len() > c.k {
                    "gt_k"
                } else if rs.len() == c.k {
                    "eq_k"
                } else if rs.len() == c.live_docs {
                    "lt_k_all_live_returned"
                } else if rs.is_empty() {
                    "lt_k_empty_though_live_docs"
                } else {
                    "lt_k_fewer_than_live"
                };
                h.bump("result_len_vs_k", key);
            }
            Err(_) => h.bump("result_len_vs_k", "error"),
        }
    }

    /// returns (class, why, fatal-for-the-history)
    fn oracle(&self, c: &SearchCase, refb: &BTreeMap<u64, (f64, f64)>, valid: bool, acc: &mut Acc) -> Option<(String, String, bool)> {
        if c.live_docs != self.eng.cold().len() {
            return Some(("shadow-mismatch".into(), format!("shadow holds {} live documents, cold tier len() = {}", c.live_docs, self.eng.cold().len()), true));
        }
        let rs = match &c.obs {
            Ok(rs) => rs,
            Err(e) => {
                if valid {
                    acc.hist.bump("search", "err_unexpected");
                    return Some(("unexpected-error".into(), format!("valid request (k={}, dim={}, non-zero finite query) failed: {}", c.k, c.query.len(), e), false));
                }
                acc.hist.bump("search", "err_expected_invalid_request");
                return None;
            }
        };
        if !valid {
            acc.hist.bump("search", "ok_for_invalid_request");
        }
        // 1
        if rs.len() > c.k {
            return Some(("too-many".into(), format!("{} results for k={}", rs.len(), c.k), false));
        }
        // 2
        let mut seen = HashSet::new();
        for (id, _) in rs {
            if !seen.insert(*id) {
                return Some(("duplicate-id".into(), format!("id {} appears more than once", id), false));
            }
        }
        // 3
        for (pos, (id, d)) in rs.iter().enumerate() {
            let in_shadow = self.shadow.is_live(*id);
            let in_cold = self.eng.cold().fetch_document(*id).is_some();
            if !in_shadow || !in_cold {
                let mut why = format!("result[{}] = id {} (distance {}) is not live: acknowledged-live={} fetch_document.is_some={}", pos, id, d, in_shadow, in_cold);
                if let Some(old) = self.shadow.versions.get(id) {
                    let m: Vec<usize> = old.iter().enumerate().filter(|(_, v)| { let (a, b) = refs(c.metric, &c.query_norm, v); close(*d as f64, a) || close(*d as f64, b) }).map(|(i, _)| i).collect();
                    why.push_str(&format!("; the id had {} earlier version(s); the distance matches version(s) {:?}", old.len(), m));
                }
                return Some(("not-live".into(), why, false));
            }
        }
        // 4 (not for cache hits: cached distances belong to another property)
        if !c.cache_hit {
            for (pos, (id, d)) in rs.iter().enumerate() {
                let cur = self.eng.cold().fetch_document(*id).unwrap_or_default();
                let sh = self.shadow.current(*id).cloned().unwrap_or_default();
                if !same_bits(&cur, &sh) {
                    return Some(("stale-vector".into(), format!("id {}: fetch_document returns {} but the last acknowledged write stored {}", id, vec_readable(&cur), vec_readable(&sh)), false));
                }
                let (rc, rh) = refs(c.metric, &c.query_norm, &cur);
                let df = *d as f64;
                if c.metric != 0 && rc.is_finite() && rh.is_finite() {
                    let gap = (rc - rh).abs();
                    if gap > acc.gap_max {
                        acc.gap_max = gap;
                    }
                }
                if !(close(df, rc) || close(df, rh)) {
                    let olds = self.shadow.versions.get(id).cloned().unwrap_or_default();
                    let n_old = olds.len().saturating_sub(1);
                    let m: Vec<usize> = olds.iter().take(n_old).enumerate().filter(|(_, v)| { let (a, b) = refs(c.metric, &c.query_norm, v); close(df, a) || close(df, b) }).map(|(i, _)| i).collect();
                    let class = if m.is_empty() { "wrong-distance" } else { "overwritten-version" };
                    return Some((class.into(), format!("result[{}] = id {}: reported distance {} but reference is {} (cold definition) / {} (hot definition) for the current vector {}; earlier versions of this id: {}; the reported distance matches earlier version(s) {:?}", pos, id, d, rc, rh, vec_readable(&cur), n_old, m), false));
                }
            }
        }
        // 5
        for w in 0..rs.len() {
            if rs[w].1.is_nan() {
                return Some(("not-sorted".into(), format!("result[{}] has a NaN distance", w), false));
            }
            if w + 1 < rs.len() && !(rs[w].1 <= rs[w + 1].1) {
                return Some(("not-sorted".into(), format!("distance[{}] = {} > distance[{}] = {}", w, rs[w].1, w + 1, rs[w + 1].1), false));
            }
        }
        if c.degraded || c.cache_hit || !valid {
            return None;
        }
        // conservative reference of a live doc: the larger of the two tier definitions
        let rmax = |id: u64| refb.get(&id).map(|(a, b)| a.max(*b)).unwrap_or(f64::INFINITY);
        let d_last = rs.last().map(|x| x.1 as f64);
        let in_res: HashSet<u64> = rs.iter().map(|x| x.0).collect();
        let hot_ids: HashSet<u64> = c.hot.iter().map(|h| h.id).collect();
        // 7 (counted, never failed)
        {
            let want = c.k.min(refb.len());
            let mut missing: Vec<u64> = vec![];
            let mut kind = "";
            if rs.len() < want {
                kind = "short";
                missing = refb.keys().copied().filter(|i| !in_res.contains(i)).collect();
            } else if rs.len() == c.k {
                if let Some(dl) = d_last {
                    missing = refb.keys().copied().filter(|i| !in_res.contains(i) && { let r = rmax(*i); r < dl - TOL * (1.0 + r) }).collect();
                    if !missing.is_empty() {
                        kind = "closer_doc_missing";
                    }
                }
            }
            if !kind.is_empty() {
                let any_hot = missing.iter().any(|i| hot_ids.contains(i));
                acc.hist.bump("exact_knn_shortfall", &format!("{}/{}/{}", c.target.as_str(), kind, if any_hot { "missing_doc_in_hot_tier" } else { "missing_doc_cold_only" }));
                acc.hist.bump("exact_knn_shortfall_by_tombstone_ratio", &format!("{:03}", (c.tomb_ratio_pct / 10) * 10));
            }
        }
        // 8
        if c.target.is_tiered() {
            let hot_d = |h: &HotEntry| refs(c.metric, &c.query_norm, &h.vec).1;
            for h in c.hot.iter().filter(|h| h.fresh) {
                acc.hist.bump("recent_write_check", "fresh_mirrors_checked");
                if !self.shadow.is_live(h.id) {
                    acc.hist.bump("recent_write_check", "fresh_mirror_of_non_live_id");
                    continue;
                }
                if in_res.contains(&h.id) {
                    acc.hist.bump("recent_write_check", "fresh_mirror_in_results");
                    continue;
                }
                let r = rmax(h.id);
                let missing = rs.len() < c.k || d_last.map(|dl| r < dl - TOL * (1.0 + r)).unwrap_or(true);
                if !missing {
                    acc.hist.bump("recent_write_check", "fresh_mirror_legitimately_beyond_k");
                }
                if missing {
                    let dh = hot_d(h);
                    let before: Vec<&HotEntry> = c.hot.iter().filter(|o| { let d = hot_d(o); d < dh || (d == dh && o.id < h.id) }).collect();
                    let stale_before = before.iter().filter(|o| !o.fresh).count();
                    let crowded = before.len() >= 2 * c.k;
                    let class = if crowded { "recent-write-missing-crowded" } else { "recent-write-missing" };
                    return Some((class.into(), format!("fresh hot-tier mirror of live id {} (reference distance {}) is absent from the {} result(s) for k={} (last returned distance {:?}); {} hot entries precede it in (distance,id) order, {} of them stale; preceding >= 2k: {}", h.id, r, rs.len(), c.k, d_last, before.len(), stale_before, crowded), false));
                }
            }
        }
        None
    }
}

// ------------------------------------------------------------------------------------------------
// generator
// ------------------------------------------------------------------------------------------------

const DIMS: [usize; 9] = [1, 3, 7, 8, 9, 15, 16, 17, 33];

#[derive(Clone, Copy, PartialEq, Eq, Debug)]
enum Shape {
    Mixed,
    TombHeavy,
    Compact,
    /// distinct ids until the index is full of LIVE documents (insert must then fail: no tombstone to reclaim)
    Full,
}

struct Gen {
    rng: Rng,
    ids: Vec<u64>,
    pool: Vec<Vec<f32>>,
    shape: Shape,
    core: usize,
    slack: usize,
    len: usize,
    recent: Vec<(Vec<f32>, usize)>,
}

fn small_int_vec(r: &mut Rng, dim: usize, nonzero: bool) -> Vec<f32> {
    loop {
        let sparse = r.chance(1, 3);
        let v: Vec<f32> = (0..dim)
            .map(|_| if sparse && r.chance(2, 3) { 0.0 } else { r.range(0, 6) as f32 - 3.0 })
            .collect();
        if !nonzero || v.iter().any(|x| *x != 0.0) {
            return v;
        }
    }
}

fn dyadic_vec(r: &mut Rng, dim: usize) -> Vec<f32> {
    loop {
        let v: Vec<f32> = (0..dim).map(|_| (r.range(0, 16) as f32 - 8.0) * 0.25).collect();
        if v.iter().any(|x| *x != 0.0) {
            return v;
        }
    }
}

fn axis_vec(r: &mut Rng, dim: usize) -> Vec<f32> {
    let mut v = vec![0.0f32; dim];
    v[r.below(dim as u64) as usize] = if r.chance(1, 2) { 1.0 } else { -1.0 };
    v
}

/// squared norm inside [0.98, 1.02] but (in general) not 1: insert and query keep such vectors unscaled
fn near_unit_vec(r: &mut Rng, dim: usize) -> Vec<f32> {
    let mut v = vec![0.0f32; dim];
    let i = r.below(dim as u64) as usize;
    let sg = |r: &mut Rng| if r.chance(1, 2) { 1.0f32 } else { -1.0 };
    let variant = if dim >= 2 { r.below(3) } else { 0 };
    match variant {
        0 => {
            let s = *r.pick(&[0.995f32, 1.005, 0.992, 1.0075, 0.99, 1.009]);
            v[i] = s * sg(r);
        }
        1 => {
            let mut j = r.below(dim as u64) as usize;
            if j == i {
                j = (i + 1) % dim;
            }
            let s = *r.pick(&[0.9961f32, 0.985, 0.99, 1.0]);
            v[i] = s * sg(r);
            v[j] = 0.125 * s * sg(r);
        }
        _ => {
            let mut j = r.below(dim as u64) as usize;
            if j == i {
                j = (i + 1) % dim;
            }
            let s = *r.pick(&[0.995f32, 1.004, 1.0, 0.9925]);
            v[i] = 0.6 * s * sg(r);
            v[j] = 0.8 * s * sg(r);
        }
    }
    v
}

fn make_pool(r: &mut Rng, dim: usize, near_unit: bool) -> Vec<Vec<f32>> {
    let mut pool: Vec<Vec<f32>> = vec![];
    if near_unit {
        for _ in 0..r.range(8, 12) {
            pool.push(near_unit_vec(r, dim));
        }
        for _ in 0..2 {
            pool.push(axis_vec(r, dim));
        }
        pool.push(small_int_vec(r, dim, true));
    } else {
        for _ in 0..r.range(5, 9) {
            pool.push(small_int_vec(r, dim, true));
        }
        for _ in 0..r.range(2, 3) {
            pool.push(dyadic_vec(r, dim));
        }
        for _ in 0..r.range(2, 4) {
            pool.push(axis_vec(r, dim));
        }
    }
    for _ in 0..2 {
        let v = r.pick(&pool).clone();
        pool.push(v);
    }
    for _ in 0..2 {
        let v: Vec<f32> = r.pick(&pool).iter().map(|x| x * 2.0).collect();
        pool.push(v);
    }
    pool
}

fn plan_history(i: usize, r: &mut Rng) -> (Header, Gen) {
    let (metric, dim) = if i < 54 || r.chance(1, 2) {
        let c = i % 27;
        ((c / 9) as u8, DIMS[c % 9])
    } else {
        (r.below(3) as u8, *r.pick(&DIMS))
    };
    let kind = if (i + i / 27) % 2 == 0 { Kind::Backend } else { Kind::Tiered };
    let shape = match i % 10 {
        1 | 6 => Shape::TombHeavy,
        3 | 8 => Shape::Compact,
        7 => Shape::Full,
        _ => Shape::Mixed,
    };
    let max_elements = match shape {
        Shape::Full => *r.pick(&[16usize, 24]),
        Shape::TombHeavy => *r.pick(&[16usize, 16, 24, 24, 64]),
        Shape::Compact => *r.pick(&[16usize, 24, 24, 64]),
        Shape::Mixed => *r.pick(&[16usize, 24, 64]),
    };
    let near_unit = metric != 0 && (r.chance(1, 10) || i % 13 == 5);
    let hard_limit = if kind == Kind::Tiered && r.chance(3, 20) { r.range(4, 8) as usize } else { 20_000 };
    let n_ids = if shape == Shape::Full { (max_elements + r.range(2, 8) as usize).min(40) } else { r.range(6, 40) as usize };
    let pool = make_pool(r, dim, near_unit);
    let n_init = if kind == Kind::Tiered && r.chance(1, 3) { r.range(1, 4) as usize } else { 0 };
    let init: Vec<Vec<f32>> = (0..n_init).map(|_| r.pick(&pool).clone()).collect();
    let big = r.chance(1, 4);
    let ids: Vec<u64> = (0..n_ids as u64)
        .map(|j| if big && j >= n_init as u64 { (1u64 << 32) + j * 1_000_003 } else { j })
        .collect();
    let len = match shape {
        Shape::TombHeavy => r.range((max_elements as u64 + 20).min(110), 120) as usize,
        Shape::Compact => r.range(50, 120) as usize,
        Shape::Full => r.range(max_elements as u64 + 20, 120) as usize,
        Shape::Mixed => r.range(20, 120) as usize,
    };
    let core = r.range(2, 5) as usize;
    let slack = r.range(0, 2) as usize;
    let shape_name = format!("{:?}", shape);
    let hdr = Header { history: i, metric, dim, kind, max_elements, hard_limit, near_unit, shape: shape_name, init };
    let gen = Gen { rng: r.fork(0xC06), ids, pool, shape, core: core.min(n_ids), slack, len, recent: vec![] };
    (hdr, gen)
}

impl Gen {
    fn pool_vec(&mut self, dim: usize, zero_pct: u64) -> Vec<f32> {
        if self.rng.chance(zero_pct, 100) {
            return vec![0.0; dim];
        }
        self.rng.pick(&self.pool).clone()
    }

    fn query(&mut self, ex: &Exec) -> Vec<f32> {
        let dim = ex.hdr.dim;
        let r = &mut self.rng;
        match r.below(200) {
            0..=1 => vec![0.0; dim],               // zero query (an error for Cosine / InnerProduct)
            2 => vec![1.0; dim + 1],               // wrong dimension
            3..=90 => r.pick(&self.pool).clone(),
            91..=150 => {
                let mut v = r.pick(&self.pool).clone();
                let j = r.below(dim as u64) as usize;
                let delta = if ex.hdr.near_unit { *r.pick(&[0.0625f32, -0.0625, 0.25, -0.03125]) } else { *r.pick(&[1.0f32, -1.0, 0.25, -0.25, 0.5]) };
                v[j] += delta;
                if v.iter().all(|x| *x == 0.0) {
                    v[j] = 1.0;
                }
                v
            }
            _ => small_int_vec(r, dim, true),
        }
    }

    fn pick_k(&mut self, live: usize) -> usize {
        let r = &mut self.rng;
        if r.chance(1, 100) {
            return 0;
        }
        let k = match r.below(12) {
            0 | 1 => 1,
            2 => 2,
            3 => 3,
            4 => 5,
            5 => 8,
            6 | 7 => live,
            8 => live + 1,
            9 => 2 * live,
            10 => 100,
            _ => r.range(1, 4) as usize,
        };
        k.max(1)
    }

    fn next(&mut self, ex: &Exec) -> Op {
        let tiered = ex.hdr.kind == Kind::Tiered;
        let dim = ex.hdr.dim;
        let live = ex.shadow.live_ids();
        let total = ex.shadow.slots.len();
        let max = ex.hdr.max_elements;
        let filling = total + self.slack < max;
        // weights: insert, delete, batch delete, search, bulk load, flush
        let mut w: [u64; 6] = match (self.shape, filling) {
            (Shape::Mixed, _) => [35, 15, 3, 33, 7, 4],
            (Shape::TombHeavy, true) => [76, 3, 0, 15, 4, 2],
            (Shape::TombHeavy, false) => [9, 9, 3, 62, 12, 5],
            (Shape::Compact, _) => [58, 6, 1, 28, 5, 2],
            (Shape::Full, _) => [60, 3, 1, 31, 3, 2],
        };
        if !tiered {
            w[3] += w[4] + w[5];
            w[4] = 0;
            w[5] = 0;
        }
        let mut x = self.rng.below(w.iter().sum());
        let mut class = 0;
        for (i, wi) in w.iter().enumerate() {
            if x < *wi {
                class = i;
                break;
            }
            x -= wi;
        }
        match class {
            0 => {
                let over = match self.shape { Shape::Mixed => 65, Shape::TombHeavy => 50, Shape::Compact => 85, Shape::Full => 10 };
                let fresh_ids: Vec<u64> = if self.shape == Shape::Full { self.ids.iter().copied().filter(|i| !live.contains(i)).collect() } else { vec![] };
                let id = if self.shape == Shape::TombHeavy && (filling || self.rng.chance(1, 2)) {
                    self.ids[self.rng.below(self.core as u64) as usize]
                } else if !fresh_ids.is_empty() && self.rng.chance(9, 10) {
                    *self.rng.pick(&fresh_ids)
                } else if !live.is_empty() && self.rng.chance(over, 100) {
                    *self.rng.pick(&live)
                } else {
                    *self.rng.pick(&self.ids)
                };
                let v = self.pool_vec(dim, 2);
                Op::Insert(id, v)
            }
            1 => {
                let id = if !live.is_empty() && self.rng.chance(3, 4) { *self.rng.pick(&live) } else { *self.rng.pick(&self.ids) };
                Op::Delete(id)
            }
            2 => {
                let n = self.rng.range(1, 5);
                let ids = (0..n)
                    .map(|_| if !live.is_empty() && self.rng.chance(2, 3) { *self.rng.pick(&live) } else { *self.rng.pick(&self.ids) })
                    .collect();
                Op::BatchDelete(ids)
            }
            4 => {
                let hot: Vec<u64> = match &ex.eng {
                    Eng::T(e) => { let mut h = e.hot_tier().snapshot_doc_ids(); h.sort_unstable(); h }
                    _ => vec![],
                };
                let n = self.rng.range(1, 6);
                let docs = (0..n)
                    .map(|_| {
                        let id = if !hot.is_empty() && self.rng.chance(3, 5) { *self.rng.pick(&hot) } else { *self.rng.pick(&self.ids) };
                        (id, self.pool_vec(dim, 3))
                    })
                    .collect();
                Op::BulkLoad(docs)
            }
            5 => Op::Flush,
            _ => {
                let target = if !tiered {
                    if self.rng.chance(7, 10) { Target::Backend } else { Target::BackendBatch }
                } else {
                    match self.rng.below(100) {
                        0..=29 => Target::Tiered,
                        30..=54 => Target::TieredNoEf,
                        55..=69 => Target::TieredTimed,
                        70..=79 => Target::TieredTimedNoEf,
                        _ => Target::TieredBatch,
                    }
                };
                let no_ef = target.ef().is_none();
                if no_ef && !self.recent.is_empty() && self.rng.chance(45, 100) {
                    let (q, k) = self.rng.pick(&self.recent).clone();
                    return Op::Search { target, k, queries: vec![q] };
                }
                let k = self.pick_k(live.len());
                let nq = if target.is_batch() { self.rng.range(2, 4) as usize } else { 1 };
                let mut queries: Vec<Vec<f32>> = (0..nq).map(|_| self.query(ex)).collect();
                if no_ef && self.rng.chance(35, 100) {
                    // the same request twice in a row: the second call can be served by the query cache
                    queries.push(queries[0].clone());
                }
                if no_ef {
                    self.recent.push((queries[0].clone(), k));
                    if self.recent.len() > 6 {
                        self.recent.remove(0);
                    }
                }
                Op::Search { target, k, queries }
            }
        }
    }
}

// ------------------------------------------------------------------------------------------------
// entry points
// ------------------------------------------------------------------------------------------------

fn find_prefix(v: &Value) -> Option<&Value> {
    if let Some(p) = v.get("ops_prefix") {
        return Some(p);
    }
    if let Some(p) = v.get("case").and_then(|c| c.get("ops_prefix")) {
        return Some(p);
    }
    if v.get("ops").is_some() && v.get("metric").is_some() {
        return Some(v);
    }
    None
}

fn finish(acc: Acc, histories: usize) -> StreamOut {
    StreamOut { cases: acc.cases, failures: acc.failures, histogram: acc.hist.to_json(), histories, near_unit_gap_max: acc.gap_max }
}

fn note_history(hdr: &Header, acc: &mut Acc) {
    acc.hist.bump("histories", &format!("kind.{}", if hdr.kind == Kind::Backend { "Backend" } else { "Tiered" }));
    acc.hist.bump("histories", &format!("shape.{}", hdr.shape));
    acc.hist.bump("histories", &format!("max_elements.{}", hdr.max_elements));
    acc.hist.bump("histories", &format!("metric_dim.{}x{:02}", metric_name(hdr.metric), hdr.dim));
    if hdr.near_unit {
        acc.hist.bump("histories", "near_unit");
    }
    if hdr.hard_limit < 20_000 {
        acc.hist.bump("histories", "small_hot_hard_limit");
    }
    if !hdr.init.is_empty() {
        acc.hist.bump("histories", "with_initial_docs");
    }
}

fn end_history(ex: &Exec, acc: &mut Acc) {
    if let Eng::T(e) = &ex.eng {
        let s = e.stats();
        acc.hist.add("engine_stats", "hot_tier_emergency_evictions", s.hot_tier_emergency_evictions);
        acc.hist.add("engine_stats", "hot_tier_flush_failures", s.hot_tier_flush_failures);
        acc.hist.add("engine_stats", "query_cache_hits", s.query_cache_hits);
        acc.hist.add("engine_stats", "query_cache_similarity_hits", s.query_cache_similarity_hits);
        acc.hist.add("engine_stats", "total_queries", s.total_queries);
        acc.hist.add("engine_stats", "total_inserts", s.total_inserts);
    }
}

/// Re-generates history `index` of the run seeded by `seed_rng` (same state as given to `run`) and
/// returns `{"ops_prefix": <full replayable history>}` (accepted by `run(.., Some(&v))`).
pub fn dump_history(seed_rng: &mut Rng, index: usize) -> Value {
    let rt = tokio::runtime::Builder::new_current_thread().enable_time().build().expect("tokio runtime");
    let mut acc = Acc { cases: vec![], failures: vec![], hist: Hist::default(), gap_max: 0.0 };
    for j in 0..index {
        let _ = seed_rng.fork(j as u64);
    }
    let mut r = seed_rng.fork(index as u64);
    let (hdr, mut gen) = plan_history(index, &mut r);
    let mut ex = Exec::new(hdr, &rt).expect("engine construction");
    for step in 0..gen.len {
        let op = gen.next(&ex);
        ex.apply(step, &op, &mut acc);
        if ex.dead {
            break;
        }
    }
    json!({"ops_prefix": ex.prefix_json(), "cases": acc.cases.len(), "failures": acc.failures.len()})
}

pub fn run(seed_rng: &mut Rng, n_histories: usize, replay: Option<&Value>) -> StreamOut {
    let rt = tokio::runtime::Builder::new_current_thread().enable_time().build().expect("tokio runtime");
    let mut acc = Acc { cases: vec![], failures: vec![], hist: Hist::default(), gap_max: 0.0 };
    if let Some(p) = replay.and_then(find_prefix) {
        let hdr = Header::from_json(p).expect("replay: malformed history header in ops_prefix");
        let ops: Vec<Op> = p.get("ops").and_then(|o| o.as_array()).expect("replay: ops_prefix.ops missing")
            .iter().map(|o| Op::from_json(o).expect("replay: malformed op")).collect();
        note_history(&hdr, &mut acc);
        let mut ex = Exec::new(hdr, &rt).expect("replay: engine construction");
        for (i, op) in ops.iter().enumerate() {
            ex.apply(i, op, &mut acc);
            if ex.dead {
                break;
            }
        }
        end_history(&ex, &mut acc);
        return finish(acc, 1);
    }
    for i in 0..n_histories {
        let mut r = seed_rng.fork(i as u64);
        let (hdr, mut gen) = plan_history(i, &mut r);
        note_history(&hdr, &mut acc);
        let mut ex = match Exec::new(hdr, &rt) {
            Ok(ex) => ex,
            Err(e) => {
                acc.hist.bump("histories", "engine_construction_failed");
                eprintln!("c06 engine_stream: history {}: engine construction failed: {}", i, e);
                continue;
            }
        };
        for step in 0..gen.len {
            let op = gen.next(&ex);
            kvh::panicrec::set_input(json!({"ops_prefix": ex.prefix_json(), "next_op": op.to_json()}).to_string());
            ex.apply(step, &op, &mut acc);
            if ex.dead {
                break;
            }
        }
        end_history(&ex, &mut acc);
    }
    finish(acc, n_histories)
}

// ------------------------------------------------------------------------------------------------
// directed scenario: stale hot-tier mirrors sitting in front of a fresh recent write
// ------------------------------------------------------------------------------------------------

pub fn stale_mirror_scenario(k: usize, ef: Option<usize>, metric: u8) -> Value {
    let k = k.max(1);
    let n_near = 2 * k;
    let x_id = 1000u64;
    let n_fill = 4usize;
    let max_elements = 8 * k + 64;
    let euclid = metric == 0;
    let ang = |a: f32| vec![a.cos(), a.sin()];
    let q: Vec<f32> = if euclid { vec![0.0, 0.0] } else { vec![1.0, 0.0] };
    let near = |i: usize| -> Vec<f32> {
        if euclid { vec![1.0 + ((i - 1) / 16) as f32 * 0.03125, ((i - 1) % 16) as f32 * 0.0625] } else { ang(0.1 + 0.002 * i as f32) }
    };
    let x_vec: Vec<f32> = if euclid { vec![2.0, 0.0] } else { ang(0.8) };
    let filler = |j: usize| -> Vec<f32> { if euclid { vec![5.0 + j as f32, 0.0] } else { ang(1.5 + 0.05 * j as f32) } };
    let far = |i: usize| -> Vec<f32> { if euclid { vec![10.0 + i as f32, 0.0] } else { ang(2.5 + 0.002 * i as f32) } };

    let engine = match TieredEngine::new(
        Box::new(LruCacheStrategy::new(64)),
        Arc::new(QueryHashCache::new(64, 0.85)),
        vec![],
        vec![],
        tiered_config(metric, 2, max_elements, 20_000),
    ) {
        Ok(e) => e,
        Err(e) => return json!({"error": format!("engine construction: {:#}", e)}),
    };
    let mut setup_errors: Vec<String> = vec![];
    for i in 1..=n_near {
        if let Err(e) = engine.insert(i as u64, near(i), HashMap::new()) {
            setup_errors.push(format!("insert {}: {:#}", i, e));
        }
    }
    if let Err(e) = engine.insert(x_id, x_vec.clone(), HashMap::new()) {
        setup_errors.push(format!("insert X: {:#}", e));
    }
    let fill_docs: Vec<(u64, Vec<f32>, HashMap<String, String>)> = (0..n_fill).map(|j| (2000 + j as u64, filler(j), HashMap::new())).collect();
    match engine.bulk_load_cold_tier(fill_docs) {
        Ok((l, f, _, _)) if l as usize == n_fill && f == 0 => {}
        Ok((l, f, _, _)) => setup_errors.push(format!("filler bulk load: loaded {} failed {}", l, f)),
        Err(e) => setup_errors.push(format!("filler bulk load: {:#}", e)),
    }
    let hot_after_inserts = hot_snapshot(&engine);
    let far_docs: Vec<(u64, Vec<f32>, HashMap<String, String>)> = (1..=n_near).map(|i| (i as u64, far(i), HashMap::new())).collect();
    match engine.bulk_load_cold_tier(far_docs) {
        Ok((l, f, _, _)) if l as usize == n_near && f == 0 => {}
        Ok((l, f, _, _)) => setup_errors.push(format!("overwrite bulk load: loaded {} failed {}", l, f)),
        Err(e) => setup_errors.push(format!("overwrite bulk load: {:#}", e)),
    }

    // true distances of the live documents (current cold-tier vectors)
    let mut qn = q.clone();
    let q_ok = verif_normalize_in_place_if_needed(metric_of(metric), &mut qn).is_ok();
    let mut live_ids: Vec<u64> = (1..=n_near as u64).collect();
    live_ids.push(x_id);
    live_ids.extend((0..n_fill as u64).map(|j| 2000 + j));
    let mut truth: Vec<(u64, f64)> = live_ids
        .iter()
        .filter_map(|id| engine.cold_tier().fetch_document(*id).map(|v| (*id, refs(metric, &qn, &v).0)))
        .collect();
    truth.sort_by(|a, b| a.1.partial_cmp(&b.1).unwrap_or(std::cmp::Ordering::Equal).then(a.0.cmp(&b.0)));
    let x_rank = truth.iter().position(|(id, _)| *id == x_id).map(|p| p + 1);
    let x_true = truth.iter().find(|(id, _)| *id == x_id).map(|(_, d)| *d);

    let one_search = |label: &str| -> Value {
        let hot_before = hot_snapshot(&engine);
        let sb = engine.stats();
        let res = engine.knn_search_with_ef_detailed(&q, k, ef);
        let sa = engine.stats();
        let hot_after = hot_snapshot(&engine);
        let (results, path, err) = match res {
            Ok((rs, p)) => (rs.iter().map(|r| json!([r.doc_id, r.distance as f64])).collect::<Vec<_>>(), Some(format!("{:?}", p)), None),
            Err(e) => (vec![], None, Some(format!("{:#}", e))),
        };
        let x_in = results.iter().any(|r| r[0].as_u64() == Some(x_id));
        json!({
            "search": label,
            "results": results, "path": path, "error": err,
            "x_in_result": x_in,
            "hot_ids_before": hot_before.iter().map(|h| h.id).collect::<Vec<_>>(),
            "hot_ids_after": hot_after.iter().map(|h| h.id).collect::<Vec<_>>(),
            "stale_mirrors_before": hot_before.iter().filter(|h| !h.fresh).count(),
            "stale_mirrors_after": hot_after.iter().filter(|h| !h.fresh).count(),
            "x_mirror_fresh_before": hot_before.iter().find(|h| h.id == x_id).map(|h| h.fresh),
            "hot_tier_hits_delta": sa.hot_tier_hits - sb.hot_tier_hits,
            "hot_tier_misses_delta": sa.hot_tier_misses - sb.hot_tier_misses,
            "cold_tier_searches_delta": sa.cold_tier_searches - sb.cold_tier_searches,
        })
    };
    let first = one_search("first");
    let second = one_search("second");
    json!({
        "scenario": "stale_mirror", "k": k, "ef": ef, "metric": metric_name(metric), "dim": 2,
        "query": q.iter().map(|x| *x as f64).collect::<Vec<_>>(), "query_normalisable": q_ok,
        "max_elements": max_elements,
        "setup": {
            "near_ids": format!("1..={}", n_near), "x_id": x_id, "x_vec": x_vec.iter().map(|x| *x as f64).collect::<Vec<_>>(),
            "filler_ids": (0..n_fill as u64).map(|j| 2000 + j).collect::<Vec<_>>(),
            "hot_ids_after_inserts": hot_after_inserts.iter().map(|h| h.id).collect::<Vec<_>>(),
            "errors": setup_errors,
        },
        "cold_live_docs": engine.cold_tier().len(),
        "cold_total_slots_expected": 2 * n_near + 1 + n_fill,
        "live_docs_by_true_distance": truth.iter().map(|(id, d)| json!([id, d])).collect::<Vec<_>>(),
        "x_true_distance": x_true,
        "x_rank_among_live_by_true_distance": x_rank,
        "first_search": first,
        "second_search": second,
    })
}
