//! C11 correspondence + oracle driver: metadata filters of HnswBackend.
//!
//! usage: c11 --out DIR --n N [--coq-per-state M] [--replay FILE]
//!
//! For every seeded history (insert / overwrite / update merge|replace / delete / batch delete /
//! batch delete by filter / recover; small capacities force the compaction-on-full path inside
//! insert) the driver evaluates ~2000 filters on the final state of the REAL backend:
//!   a = HnswBackend::ids_for_metadata_filter(f)      (inverted index, scan fallback)
//!   b = HnswBackend::scan(|m| metadata_filter::matches(f, m))   (reference semantics)
//! direct oracle: a == b as sets (order differences are only counted).  Histories, per-op results
//! and (filter, a, b) triples are written as Gallina literals for Model/Filter.v `check_case`.
use kvh::coqfmt as cf;
use kvh::rng::Rng;
use kyrodb_engine::metadata_filter;
use kyrodb_engine::proto::{
    metadata_filter::FilterType, range_match::Bound, AndFilter, ExactMatch, InMatch, MetadataFilter,
    NotFilter, OrFilter, RangeMatch,
};
use kyrodb_engine::{DistanceMetric, FsyncPolicy, HnswBackend, MetricsCollector};
use serde_json::{json, Value};
use std::collections::{BTreeMap, BTreeSet, HashMap, HashSet};
use std::fmt::Write as _;
use std::path::PathBuf;

// ------------------------------------------------------------------------------------ corpus
const LONG_N: usize = 10240;
/// placeholders expanded by `Strs::new`: 10240 x 'x', and the same followed by 'y'
const LONGX: &str = "\u{1}LONGX";
const LONGXY: &str = "\u{1}LONGXY";
/// The value corpus: used as metadata values and as filter values / range bounds.
const CORPUS: &[&str] = &[
    // ints
    "0", "1", "5", "10", "9", "-3", "007",
    // decimals
    "1.5", "-2.25", "10.0", ".5", "5.",
    // exponents (1e400 -> inf, 1e-400 -> 0, -1e400 -> -inf)
    "1e3", "1E-2", "1e400", "1e-400", "-1e400",
    // zeros
    "-0", "+0", "0.0", "-0.0",
    // specials
    "inf", "-inf", "+inf", "Infinity", "NaN", "nan", "-NaN",
    // leading plus
    "+7",
    // whitespace (does not parse)
    " 5", "5 ", "\t1",
    // empty
    "",
    // non numeric
    "abc", "ABC", "2024-01-01", "2023-12-31", "1_000", "0x10",
    // non ASCII
    "é", "日本", "10€",
    // 10 kB with a long common prefix
    LONGX, LONGXY,
];
const KEYS: &[&str] = &["k0", "k1", "k2", ""];
const BIG_ID: u64 = 1 << 40;
const DB_BASE: &str = "/verif/.cache/run/C11/db";
const CORPUS_DIR: &str = "/verif/corpus/C11";

type S = usize; // index into Strs

struct Strs {
    v: Vec<String>,
    map: HashMap<String, usize>,
    corpus: Vec<S>,
    keys: Vec<S>,
}
impl Strs {
    fn new() -> Self {
        let mut s = Strs { v: vec![], map: HashMap::new(), corpus: vec![], keys: vec![] };
        for k in KEYS {
            let i = s.id(k);
            s.keys.push(i);
        }
        for c in CORPUS {
            let real = match *c {
                LONGX => "x".repeat(LONG_N),
                LONGXY => format!("{}y", "x".repeat(LONG_N)),
                o => o.to_string(),
            };
            let i = s.id(&real);
            if !s.corpus.contains(&i) {
                s.corpus.push(i);
            }
        }
        s
    }
    fn id(&mut self, x: &str) -> S {
        if let Some(i) = self.map.get(x) {
            return *i;
        }
        let i = self.v.len();
        self.v.push(x.to_string());
        self.map.insert(x.to_string(), i);
        i
    }
    fn get(&self, i: S) -> &str {
        &self.v[i]
    }
    fn parse_bits(&self, i: S) -> Option<u64> {
        self.v[i].parse::<f64>().ok().map(|x| x.to_bits())
    }
}

// ------------------------------------------------------------------------------------ AST
#[derive(Clone, Copy, Debug, PartialEq, Eq, Hash)]
enum Bd {
    Gte,
    Gt,
    Lte,
    Lt,
}
const BDS: [Bd; 4] = [Bd::Gte, Bd::Gt, Bd::Lte, Bd::Lt];

#[derive(Clone, Debug, PartialEq, Eq, Hash)]
enum F {
    None,
    Exact(S, S),
    Range(S, Option<(Bd, S)>),
    In(S, Vec<S>),
    And(Vec<F>),
    Or(Vec<F>),
    Not(Option<Box<F>>),
}
impl F {
    fn not(f: F) -> F {
        F::Not(Some(Box::new(f)))
    }
    fn depth(&self) -> usize {
        match self {
            F::And(fs) | F::Or(fs) => 1 + fs.iter().map(|g| g.depth()).max().unwrap_or(0),
            F::Not(Some(g)) => 1 + g.depth(),
            _ => 1,
        }
    }
    fn has_not_none(&self) -> bool {
        match self {
            F::Not(None) => true,
            F::Not(Some(g)) => g.has_not_none(),
            F::And(fs) | F::Or(fs) => fs.iter().any(|g| g.has_not_none()),
            _ => false,
        }
    }
    fn kind(&self) -> &'static str {
        match self {
            F::None => "none",
            F::Exact(..) => "exact",
            F::Range(..) => "range",
            F::In(..) => "in",
            F::And(..) => "and",
            F::Or(..) => "or",
            F::Not(..) => "not",
        }
    }
    fn collect_strs(&self, out: &mut BTreeSet<S>) {
        match self {
            F::None => {}
            F::Exact(k, v) => {
                out.insert(*k);
                out.insert(*v);
            }
            F::Range(k, b) => {
                out.insert(*k);
                if let Some((_, v)) = b {
                    out.insert(*v);
                }
            }
            F::In(k, vs) => {
                out.insert(*k);
                out.extend(vs.iter().copied());
            }
            F::And(fs) | F::Or(fs) => fs.iter().for_each(|g| g.collect_strs(out)),
            F::Not(o) => {
                if let Some(g) = o {
                    g.collect_strs(out)
                }
            }
        }
    }
    /// counts of range nodes: [bound parses numeric, bound does not parse, no bound]
    fn range_nodes(&self, s: &Strs, c: &mut [u64; 3]) {
        match self {
            F::Range(_, None) => c[2] += 1,
            F::Range(_, Some((_, v))) => {
                if s.parse_bits(*v).is_some() {
                    c[0] += 1
                } else {
                    c[1] += 1
                }
            }
            F::And(fs) | F::Or(fs) => fs.iter().for_each(|g| g.range_nodes(s, c)),
            F::Not(Some(g)) => g.range_nodes(s, c),
            _ => {}
        }
    }
}

type Raw = Vec<(S, S)>;

#[derive(Clone, Debug)]
enum Op {
    Insert(u64, Raw),
    Update(u64, Raw, bool),
    Delete(u64),
    BatchDelete(Vec<u64>),
    BatchDeleteFilter(F),
    Recover,
}
#[derive(Clone, Debug, PartialEq)]
enum Out {
    Bool(bool),
    Count(u64),
    Unit,
}
#[derive(Clone, Debug)]
struct Case {
    cap: usize,
    persistent: bool,
    ops: Vec<Op>,
}

// ------------------------------------------------------------------------------------ proto
fn mf(t: FilterType) -> MetadataFilter {
    MetadataFilter { filter_type: Some(t) }
}
fn to_proto(f: &F, s: &Strs) -> MetadataFilter {
    match f {
        F::None => MetadataFilter { filter_type: None },
        F::Exact(k, v) => mf(FilterType::Exact(ExactMatch { key: s.get(*k).to_string(), value: s.get(*v).to_string() })),
        F::Range(k, b) => mf(FilterType::Range(RangeMatch {
            key: s.get(*k).to_string(),
            bound: b.as_ref().map(|(bd, v)| {
                let v = s.get(*v).to_string();
                match bd {
                    Bd::Gte => Bound::Gte(v),
                    Bd::Gt => Bound::Gt(v),
                    Bd::Lte => Bound::Lte(v),
                    Bd::Lt => Bound::Lt(v),
                }
            }),
        })),
        F::In(k, vs) => mf(FilterType::InMatch(InMatch {
            key: s.get(*k).to_string(),
            values: vs.iter().map(|v| s.get(*v).to_string()).collect(),
        })),
        F::And(fs) => mf(FilterType::AndFilter(AndFilter { filters: fs.iter().map(|g| to_proto(g, s)).collect() })),
        F::Or(fs) => mf(FilterType::OrFilter(OrFilter { filters: fs.iter().map(|g| to_proto(g, s)).collect() })),
        F::Not(o) => mf(FilterType::NotFilter(Box::new(NotFilter {
            filter: o.as_ref().map(|g| Box::new(to_proto(g, s))),
        }))),
    }
}
fn raw_to_map(raw: &Raw, s: &Strs) -> HashMap<String, String> {
    // insert in order: a later pair with the same key wins (HashMap::insert)
    let mut m = HashMap::new();
    for (k, v) in raw {
        m.insert(s.get(*k).to_string(), s.get(*v).to_string());
    }
    m
}

// ------------------------------------------------------------------------------------ JSON (replayable)
fn sj(x: &str) -> Value {
    if x.len() > 256 {
        let b = x.as_bytes();
        let c = b[0];
        let n = b.iter().take_while(|y| **y == c).count();
        if c.is_ascii() && x.len() - n <= 64 {
            return json!({"rep": (c as char).to_string(), "n": n, "suffix": &x[n..]});
        }
    }
    Value::String(x.to_string())
}
fn sparse(v: &Value) -> String {
    match v {
        Value::String(x) => x.clone(),
        Value::Object(_) => {
            let rep = v["rep"].as_str().unwrap_or("");
            let n = v["n"].as_u64().unwrap_or(0) as usize;
            format!("{}{}", rep.repeat(n), v["suffix"].as_str().unwrap_or(""))
        }
        _ => panic!("c11: bad string in replay JSON: {}", v),
    }
}
fn bd_name(b: Bd) -> &'static str {
    match b {
        Bd::Gte => "gte",
        Bd::Gt => "gt",
        Bd::Lte => "lte",
        Bd::Lt => "lt",
    }
}
fn f_json(f: &F, s: &Strs) -> Value {
    match f {
        F::None => json!({"t": "none"}),
        F::Exact(k, v) => json!({"t": "exact", "k": sj(s.get(*k)), "v": sj(s.get(*v))}),
        F::Range(k, None) => json!({"t": "range", "k": sj(s.get(*k)), "op": null}),
        F::Range(k, Some((b, v))) => json!({"t": "range", "k": sj(s.get(*k)), "op": bd_name(*b), "v": sj(s.get(*v))}),
        F::In(k, vs) => json!({"t": "in", "k": sj(s.get(*k)), "vs": vs.iter().map(|v| sj(s.get(*v))).collect::<Vec<_>>()}),
        F::And(fs) => json!({"t": "and", "fs": fs.iter().map(|g| f_json(g, s)).collect::<Vec<_>>()}),
        F::Or(fs) => json!({"t": "or", "fs": fs.iter().map(|g| f_json(g, s)).collect::<Vec<_>>()}),
        F::Not(None) => json!({"t": "not", "f": null}),
        F::Not(Some(g)) => json!({"t": "not", "f": f_json(g, s)}),
    }
}
fn f_parse(v: &Value, s: &mut Strs) -> F {
    match v["t"].as_str().unwrap_or_else(|| panic!("c11: filter without \"t\": {}", v)) {
        "none" => F::None,
        "exact" => F::Exact(s.id(&sparse(&v["k"])), s.id(&sparse(&v["v"]))),
        "range" => {
            let k = s.id(&sparse(&v["k"]));
            match v["op"].as_str() {
                None => F::Range(k, None),
                Some(o) => {
                    let b = match o {
                        "gte" => Bd::Gte,
                        "gt" => Bd::Gt,
                        "lte" => Bd::Lte,
                        "lt" => Bd::Lt,
                        _ => panic!("c11: bad range op {}", o),
                    };
                    F::Range(k, Some((b, s.id(&sparse(&v["v"])))))
                }
            }
        }
        "in" => {
            let k = s.id(&sparse(&v["k"]));
            F::In(k, v["vs"].as_array().map(|a| a.iter().map(|x| s.id(&sparse(x))).collect()).unwrap_or_default())
        }
        "and" => F::And(v["fs"].as_array().map(|a| a.iter().map(|x| f_parse(x, s)).collect()).unwrap_or_default()),
        "or" => F::Or(v["fs"].as_array().map(|a| a.iter().map(|x| f_parse(x, s)).collect()).unwrap_or_default()),
        "not" => {
            if v["f"].is_null() {
                F::Not(None)
            } else {
                F::not(f_parse(&v["f"], s))
            }
        }
        o => panic!("c11: bad filter kind {}", o),
    }
}
fn raw_json(r: &Raw, s: &Strs) -> Value {
    Value::Array(r.iter().map(|(k, v)| json!([sj(s.get(*k)), sj(s.get(*v))])).collect())
}
fn raw_parse(v: &Value, s: &mut Strs) -> Raw {
    v.as_array().map(|a| a.iter().map(|p| (s.id(&sparse(&p[0])), s.id(&sparse(&p[1])))).collect()).unwrap_or_default()
}
fn op_json(o: &Op, s: &Strs) -> Value {
    match o {
        Op::Insert(d, r) => json!({"op": "insert", "id": d, "meta": raw_json(r, s)}),
        Op::Update(d, r, m) => json!({"op": "update", "id": d, "meta": raw_json(r, s), "merge": m}),
        Op::Delete(d) => json!({"op": "delete", "id": d}),
        Op::BatchDelete(ids) => json!({"op": "batch_delete", "ids": ids}),
        Op::BatchDeleteFilter(f) => json!({"op": "batch_delete_filter", "filter": f_json(f, s)}),
        Op::Recover => json!({"op": "recover"}),
    }
}
fn op_parse(v: &Value, s: &mut Strs) -> Op {
    let id = || v["id"].as_u64().unwrap_or_else(|| panic!("c11: op without id: {}", v));
    match v["op"].as_str().unwrap_or_else(|| panic!("c11: op without \"op\": {}", v)) {
        "insert" => Op::Insert(id(), raw_parse(&v["meta"], s)),
        "update" => Op::Update(id(), raw_parse(&v["meta"], s), v["merge"].as_bool().unwrap_or(false)),
        "delete" => Op::Delete(id()),
        "batch_delete" => Op::BatchDelete(v["ids"].as_array().map(|a| a.iter().filter_map(|x| x.as_u64()).collect()).unwrap_or_default()),
        "batch_delete_filter" => Op::BatchDeleteFilter(f_parse(&v["filter"], s)),
        "recover" => Op::Recover,
        o => panic!("c11: bad op {}", o),
    }
}
fn case_json(c: &Case, f: Option<&F>, s: &Strs) -> Value {
    let mut v = json!({
        "cap": c.cap, "persistent": c.persistent,
        "ops": c.ops.iter().map(|o| op_json(o, s)).collect::<Vec<_>>(),
    });
    if let Some(f) = f {
        v["filter"] = f_json(f, s);
    }
    v
}
fn case_parse(v: &Value, s: &mut Strs) -> (Case, F) {
    let v = if v.get("case").is_some() { &v["case"] } else { v };
    let ops: Vec<Op> = v["ops"].as_array().map(|a| a.iter().map(|o| op_parse(o, s)).collect()).unwrap_or_default();
    let has_recover = ops.iter().any(|o| matches!(o, Op::Recover));
    let c = Case {
        cap: v["cap"].as_u64().unwrap_or(64) as usize,
        // a history containing Recover can only run on a persistent backend
        persistent: v["persistent"].as_bool().unwrap_or(false) || has_recover,
        ops,
    };
    let f = if v.get("filter").map(|x| !x.is_null()).unwrap_or(false) { f_parse(&v["filter"], s) } else { F::None };
    (c, f)
}
fn out_json(o: &Out) -> Value {
    match o {
        Out::Bool(b) => json!(b),
        Out::Count(n) => json!(n),
        Out::Unit => Value::Null,
    }
}

// ------------------------------------------------------------------------------------ Gallina
fn sname(i: S) -> String {
    format!("s{}", i)
}
fn coq_str_def(x: &str) -> String {
    let b = x.as_bytes();
    if b.is_empty() {
        return "([] : str)".to_string();
    }
    let lit = |bs: &[u8]| format!("[{}]%N", bs.iter().map(|y| y.to_string()).collect::<Vec<_>>().join(";"));
    let n = b.iter().take_while(|y| **y == b[0]).count();
    if n >= 64 {
        // long run of one byte: keep the file small
        let head = format!("repeat {}%N (N.to_nat {}%N)", b[0], n);
        if n == b.len() {
            format!("({})", head)
        } else {
            format!("({} ++ {})", head, lit(&b[n..]))
        }
    } else {
        lit(b)
    }
}
fn coq_nlist(ids: &[u64]) -> String {
    if ids.is_empty() {
        "([] : list N)".to_string()
    } else {
        format!("[{}]%N", ids.iter().map(|x| x.to_string()).collect::<Vec<_>>().join(";"))
    }
}
fn coq_f(f: &F) -> String {
    match f {
        F::None => "FNone".to_string(),
        F::Exact(k, v) => format!("FExact {} {}", sname(*k), sname(*v)),
        F::Range(k, None) => format!("FRange {} None", sname(*k)),
        F::Range(k, Some((b, v))) => {
            let c = match b {
                Bd::Gte => "Gte",
                Bd::Gt => "Gt",
                Bd::Lte => "Lte",
                Bd::Lt => "Lt",
            };
            format!("FRange {} (Some ({} {}))", sname(*k), c, sname(*v))
        }
        F::In(k, vs) => format!("FIn {} [{}]", sname(*k), vs.iter().map(|v| sname(*v)).collect::<Vec<_>>().join("; ")),
        F::And(fs) => format!("FAnd [{}]", fs.iter().map(coq_f).collect::<Vec<_>>().join("; ")),
        F::Or(fs) => format!("FOr [{}]", fs.iter().map(coq_f).collect::<Vec<_>>().join("; ")),
        F::Not(None) => "FNot None".to_string(),
        F::Not(Some(g)) => format!("FNot (Some {})", coq_fp(g)),
    }
}
fn coq_fp(f: &F) -> String {
    let x = coq_f(f);
    if x.contains(' ') {
        format!("({})", x)
    } else {
        x
    }
}
fn coq_raw(r: &Raw) -> String {
    format!("[{}]", r.iter().map(|(k, v)| format!("({}, {})", sname(*k), sname(*v))).collect::<Vec<_>>().join("; "))
}
fn coq_op(o: &Op) -> String {
    match o {
        Op::Insert(d, r) => format!("OInsert {} {}", cf::n(*d), coq_raw(r)),
        Op::Update(d, r, m) => format!("OUpdate {} {} {}", cf::n(*d), coq_raw(r), cf::b(*m)),
        Op::Delete(d) => format!("ODelete {}", cf::n(*d)),
        Op::BatchDelete(ids) => format!("OBatchDelete {}", coq_nlist(ids)),
        Op::BatchDeleteFilter(f) => format!("OBatchDeleteFilter {}", coq_fp(f)),
        Op::Recover => "ORecover".to_string(),
    }
}
fn coq_out(o: &Out) -> String {
    match o {
        Out::Bool(b) => format!("RBool {}", cf::b(*b)),
        Out::Count(n) => format!("RCount {}%nat", n),
        Out::Unit => "RUnit".to_string(),
    }
}

// ------------------------------------------------------------------------------------ running the real backend
struct Dirs {
    n: u64,
}
impl Dirs {
    fn next(&mut self) -> PathBuf {
        self.n += 1;
        let p = PathBuf::from(format!("{}/{}_{}", DB_BASE, std::process::id(), self.n));
        let _ = std::fs::remove_dir_all(&p);
        p
    }
}
#[derive(Default)]
struct Hist(BTreeMap<String, u64>);
impl Hist {
    fn inc(&mut self, k: &str) {
        self.add(k, 1)
    }
    fn add(&mut self, k: &str, n: u64) {
        *self.0.entry(k.to_string()).or_insert(0) += n;
    }
}
type Census = Vec<(u64, BTreeMap<String, String>)>;
fn census(b: &HnswBackend) -> Census {
    b.scan(|_| true).into_iter().map(|id| (id, b.fetch_metadata(id).unwrap_or_default().into_iter().collect())).collect()
}
fn sorted(v: &[u64]) -> Vec<u64> {
    let mut x = v.to_vec();
    x.sort_unstable();
    x
}
struct BdfFail {
    op_index: usize,
    why: String,
    ids_index: Vec<u64>,
    ids_scan: Vec<u64>,
}
struct Ran {
    backend: Option<HnswBackend>,
    outs: Vec<Out>,
    bdf_fails: Vec<BdfFail>,
    dir: Option<PathBuf>,
}
impl Ran {
    fn backend(&self) -> &HnswBackend {
        self.backend.as_ref().unwrap()
    }
    fn finish(mut self) {
        self.backend = None; // close WAL before removing the directory
        if let Some(d) = &self.dir {
            let _ = std::fs::remove_dir_all(d);
        }
    }
}

/// Index-consistency oracle through hook H6: the real inverted index (internal ids mapped to
/// external, tombstoned postings dropped) must equal the index rebuilt from the live census by the
/// definition of the five lookup families. Ties `C11_index_consistent` to the implementation.
fn index_oracle(b: &HnswBackend) -> Option<String> {
    use kyrodb_engine::hnsw_backend::{verif_ordered_f64_key, VerifMetadataIndexDump};
    let got = b.verif_metadata_index_dump();
    let cen = census(b);
    let mut want = VerifMetadataIndexDump::default();
    let mut kv: BTreeMap<(String, String), Vec<u64>> = BTreeMap::new();
    let mut num: BTreeMap<(String, u64), Vec<u64>> = BTreeMap::new();
    let mut numdocs: BTreeMap<String, Vec<u64>> = BTreeMap::new();
    for (id, meta) in &cen {
        want.alive.push(*id);
        for (k, v) in meta {
            kv.entry((k.clone(), v.clone())).or_default().push(*id);
            if let Ok(x) = v.parse::<f64>() {
                numdocs.entry(k.clone()).or_default().push(*id);
                if !x.is_nan() {
                    num.entry((k.clone(), verif_ordered_f64_key(x))).or_default().push(*id);
                }
            }
        }
    }
    want.alive.sort_unstable();
    for ((k, v), mut ids) in kv { ids.sort_unstable(); want.by_key_value.push((k.clone(), v.clone(), ids.clone())); want.by_key_lex.push((k, v, ids)); }
    for ((k, x), mut ids) in num { ids.sort_unstable(); want.by_key_numeric.push((k, x, ids)); }
    for (k, mut ids) in numdocs { ids.sort_unstable(); want.numeric_docs_by_key.push((k, ids)); }
    want.by_key_value.sort(); want.by_key_lex.sort(); want.by_key_numeric.sort(); want.numeric_docs_by_key.sort();
    if got == want { return None }
    let which = if got.alive != want.alive { "alive" } else if got.by_key_value != want.by_key_value { "by_key_value" } else if got.by_key_lex != want.by_key_lex { "by_key_lex" } else if got.by_key_numeric != want.by_key_numeric { "by_key_numeric" } else { "numeric_docs_by_key" };
    let short = |x: String| x.chars().take(300).collect::<String>();
    Some(format!("inverted index differs from the index rebuilt from the live documents in `{}`: got {} want {}", which,
        short(format!("{:?}", match which { "alive" => format!("{:?}", got.alive), "by_key_value" => format!("{:?}", got.by_key_value), "by_key_lex" => format!("{:?}", got.by_key_lex), "by_key_numeric" => format!("{:?}", got.by_key_numeric), _ => format!("{:?}", got.numeric_docs_by_key) })),
        short(format!("{:?}", match which { "alive" => format!("{:?}", want.alive), "by_key_value" => format!("{:?}", want.by_key_value), "by_key_lex" => format!("{:?}", want.by_key_lex), "by_key_numeric" => format!("{:?}", want.by_key_numeric), _ => format!("{:?}", want.numeric_docs_by_key) }))))
}

fn run_history(c: &Case, s: &Strs, dirs: &mut Dirs, h: &mut Hist) -> Ran {
    kvh::panicrec::set_input_debug(c);
    const DIM: usize = 2;
    let dir = if c.persistent { Some(dirs.next()) } else { None };
    let mut backend = Some(match &dir {
        Some(d) => HnswBackend::with_persistence(DIM, DistanceMetric::Euclidean, vec![], vec![], c.cap, d, FsyncPolicy::Always, 0, 0)
            .unwrap_or_else(|e| panic!("c11: with_persistence failed: {:#}", e)),
        None => HnswBackend::new(DIM, DistanceMetric::Euclidean, vec![], vec![], c.cap).unwrap_or_else(|e| panic!("c11: new failed: {:#}", e)),
    });
    h.inc(if c.persistent { "history_persistent" } else { "history_memory" });
    h.inc(&format!("history_cap_{}", c.cap));
    let mut outs = vec![];
    let mut bdf_fails = vec![];
    // shadow of DocumentStore slot count (only used to label compactions in the histogram)
    let mut slots = 0usize;
    for (i, op) in c.ops.iter().enumerate() {
        let b = backend.as_ref().unwrap();
        match op {
            Op::Insert(d, raw) => {
                let existed = b.exists(*d);
                let live_before = b.len();
                let was_full = slots >= c.cap;
                // finite, non-zero, distinct
                let r = b.insert(*d, vec![1.0 + *d as f32, 1.0 + i as f32], raw_to_map(raw, s));
                match &r {
                    Ok(()) => {
                        h.inc(if existed { "insert_overwrite" } else { "insert_new" });
                        if was_full {
                            h.inc("compactions_observed");
                            slots = live_before + 1;
                        } else {
                            slots += 1;
                        }
                    }
                    Err(e) => {
                        let m = format!("{:#}", e);
                        if m.contains("HNSW index full") {
                            h.inc("insert_err_full")
                        } else {
                            panic!("c11: unexpected insert error at op {}: {}", i, m)
                        }
                    }
                }
                outs.push(Out::Bool(r.is_ok()));
            }
            Op::Update(d, raw, merge) => {
                let r = b.update_metadata(*d, raw_to_map(raw, s), *merge).unwrap_or_else(|e| panic!("c11: update_metadata failed at op {}: {:#}", i, e));
                h.inc(&format!("update_{}_{}", if *merge { "merge" } else { "replace" }, if r { "hit" } else { "miss" }));
                outs.push(Out::Bool(r));
            }
            Op::Delete(d) => {
                let r = b.delete(*d).unwrap_or_else(|e| panic!("c11: delete failed at op {}: {:#}", i, e));
                h.inc(if r { "delete_hit" } else { "delete_miss" });
                outs.push(Out::Bool(r));
            }
            Op::BatchDelete(ids) => {
                let n = b.batch_delete(ids).unwrap_or_else(|e| panic!("c11: batch_delete failed at op {}: {:#}", i, e));
                h.inc("batch_delete");
                h.add("batch_delete_removed", n);
                outs.push(Out::Count(n));
            }
            Op::BatchDeleteFilter(f) => {
                // cold-tier part of TieredEngine::batch_delete_by_metadata_filter
                let pf = to_proto(f, s);
                let expected = b.scan(|m| metadata_filter::matches(&pf, m));
                let before = census(b);
                let mut ids = b.ids_for_metadata_filter(&pf);
                let ids_index = ids.clone();
                ids.sort_unstable();
                ids.dedup();
                let n = b.batch_delete(&ids).unwrap_or_else(|e| panic!("c11: batch_delete (filter) failed at op {}: {:#}", i, e));
                let after = census(b);
                let want: Census = before.iter().filter(|(id, _)| !expected.contains(id)).cloned().collect();
                let mut why = vec![];
                if n as usize != expected.len() {
                    why.push(format!("returned count {} but {} live documents matched the filter", n, expected.len()));
                }
                if after != want {
                    let a_ids: Vec<u64> = after.iter().map(|x| x.0).collect();
                    let w_ids: Vec<u64> = want.iter().map(|x| x.0).collect();
                    if a_ids != w_ids {
                        why.push(format!("live ids after = {:?}, expected {:?} (before minus matching)", a_ids, w_ids));
                    } else {
                        why.push("metadata of a surviving document changed".to_string());
                    }
                }
                if !why.is_empty() {
                    bdf_fails.push(BdfFail { op_index: i, why: format!("batch_delete_by_filter at op {}: {}", i, why.join("; ")), ids_index, ids_scan: expected.clone() });
                }
                h.inc("batch_delete_filter");
                h.add("batch_delete_filter_removed", n);
                if n > 0 {
                    h.inc("batch_delete_filter_nonempty");
                }
                outs.push(Out::Count(n));
            }
            Op::Recover => {
                let d = dir.as_ref().unwrap_or_else(|| panic!("c11: Recover in a non-persistent history"));
                drop(backend.take()); // closes the WAL
                backend = Some(
                    HnswBackend::recover(DIM, DistanceMetric::Euclidean, d, c.cap, FsyncPolicy::Always, 0, 0, MetricsCollector::new())
                        .unwrap_or_else(|e| panic!("c11: recover failed at op {}: {:#}", i, e)),
                );
                slots = backend.as_ref().unwrap().len();
                h.inc("recover");
                outs.push(Out::Unit);
            }
        }
        if let Some(why) = index_oracle(backend.as_ref().unwrap()) {
            if !bdf_fails.iter().any(|f: &BdfFail| f.why.contains("inverted index differs")) {
                bdf_fails.push(BdfFail { op_index: i, why: format!("after op {}: {}", i, why), ids_index: vec![], ids_scan: vec![] });
            }
            h.inc("index_dump_mismatch");
        } else {
            h.inc("index_dump_ok");
        }
    }
    Ran { backend, outs, bdf_fails, dir }
}

fn eval(b: &HnswBackend, f: &F, s: &Strs) -> (Vec<u64>, Vec<u64>) {
    let pf = to_proto(f, s);
    let a = b.ids_for_metadata_filter(&pf);
    let sc = b.scan(|m| metadata_filter::matches(&pf, m));
    (a, sc)
}
fn final_ab(c: &Case, f: &F, s: &Strs, dirs: &mut Dirs) -> (Vec<u64>, Vec<u64>) {
    let mut h = Hist::default();
    let ran = run_history(c, s, dirs, &mut h);
    let r = eval(ran.backend(), f, s);
    ran.finish();
    r
}
fn set_differs(ab: &(Vec<u64>, Vec<u64>)) -> bool {
    sorted(&ab.0) != sorted(&ab.1)
}

/// Greedy shrink: drop ops while ids_index and ids_scan still differ as sets, then replace the
/// filter by a simpler one that still fails.
fn shrink(c: &Case, f: &F, s: &Strs, dirs: &mut Dirs) -> (Case, F, Vec<u64>, Vec<u64>) {
    let mut c = c.clone();
    let mut f = f.clone();
    let mut budget = 400usize;
    loop {
        let mut progress = false;
        let mut i = 0;
        while i < c.ops.len() && budget > 0 {
            let mut t = c.clone();
            t.ops.remove(i);
            if !t.persistent && t.ops.iter().any(|o| matches!(o, Op::Recover)) {
                i += 1;
                continue;
            }
            budget -= 1;
            if set_differs(&final_ab(&t, &f, s, dirs)) {
                c = t;
                progress = true;
            } else {
                i += 1;
            }
        }
        // filter simplification
        'simp: loop {
            let mut cands: Vec<F> = vec![];
            match &f {
                F::And(fs) | F::Or(fs) => {
                    for g in fs {
                        cands.push(g.clone());
                    }
                    if fs.len() > 1 {
                        for j in 0..fs.len() {
                            let mut r = fs.clone();
                            r.remove(j);
                            cands.push(if matches!(f, F::And(_)) { F::And(r) } else { F::Or(r) });
                        }
                    }
                }
                F::Not(Some(g)) => cands.push((**g).clone()),
                F::In(k, vs) if vs.len() > 1 => {
                    for v in vs {
                        cands.push(F::Exact(*k, *v));
                    }
                }
                _ => {}
            }
            for g in cands {
                if budget == 0 {
                    break 'simp;
                }
                budget -= 1;
                if set_differs(&final_ab(&c, &g, s, dirs)) {
                    f = g;
                    progress = true;
                    continue 'simp;
                }
            }
            break;
        }
        if !progress || budget == 0 {
            break;
        }
    }
    // drop metadata pairs that are not needed
    for i in 0..c.ops.len() {
        loop {
            let n = match &c.ops[i] {
                Op::Insert(_, r) | Op::Update(_, r, _) => r.len(),
                _ => 0,
            };
            let mut done = true;
            for j in 0..n {
                if budget == 0 {
                    break;
                }
                let mut t = c.clone();
                match &mut t.ops[i] {
                    Op::Insert(_, r) | Op::Update(_, r, _) => {
                        r.remove(j);
                    }
                    _ => {}
                }
                budget -= 1;
                if set_differs(&final_ab(&t, &f, s, dirs)) {
                    c = t;
                    done = false;
                    break;
                }
            }
            if done {
                break;
            }
        }
    }
    let (a, b) = final_ab(&c, &f, s, dirs);
    (c, f, a, b)
}

// ------------------------------------------------------------------------------------ generators
fn gen_key(r: &mut Rng, s: &Strs) -> S {
    match r.below(100) {
        0..=44 => s.keys[0],
        45..=89 => s.keys[1],
        90..=96 => s.keys[2],
        _ => s.keys[3],
    }
}
fn gen_val(r: &mut Rng, s: &Strs, hot: &[S]) -> S {
    if !hot.is_empty() && r.chance(1, 2) {
        *r.pick(hot)
    } else {
        *r.pick(&s.corpus)
    }
}
fn gen_meta(r: &mut Rng, s: &Strs, hot: &[S]) -> Raw {
    let n = match r.below(8) {
        0 => 0,
        1..=3 => 1,
        4..=6 => 2,
        _ => 3,
    };
    let mut raw: Raw = (0..n).map(|_| (gen_key(r, s), gen_val(r, s, hot))).collect();
    if n >= 2 && r.chance(1, 6) {
        raw[1].0 = raw[0].0; // the same key twice: the later pair wins
    }
    raw
}
fn gen_id(r: &mut Rng) -> u64 {
    if r.chance(1, 25) {
        BIG_ID
    } else {
        r.range(1, 6)
    }
}
fn gen_atom(r: &mut Rng, s: &Strs, hot: &[S]) -> F {
    let k = if r.chance(9, 10) { s.keys[r.below(2) as usize] } else { gen_key(r, s) };
    match r.below(10) {
        0 => F::None,
        1..=3 => F::Exact(k, gen_val(r, s, hot)),
        4..=7 => {
            if r.chance(1, 10) {
                F::Range(k, None)
            } else {
                F::Range(k, Some((*r.pick(&BDS), gen_val(r, s, hot))))
            }
        }
        _ => {
            let n = r.below(4);
            F::In(k, (0..n).map(|_| gen_val(r, s, hot)).collect())
        }
    }
}
fn gen_small_filter(r: &mut Rng, s: &Strs, hot: &[S]) -> F {
    match r.below(10) {
        0..=6 => gen_atom(r, s, hot),
        7 => F::not(gen_atom(r, s, hot)),
        8 => {
            let fs = vec![gen_atom(r, s, hot), gen_atom(r, s, hot)];
            if r.chance(1, 2) {
                F::And(fs)
            } else {
                F::Or(fs)
            }
        }
        _ => match r.below(4) {
            0 => F::Not(None),
            1 => F::And(vec![]),
            2 => F::Or(vec![]),
            _ => F::And(vec![gen_atom(r, s, hot), F::Not(None)]),
        },
    }
}
fn gen_history(r: &mut Rng, s: &Strs) -> Case {
    let persistent = r.chance(1, 3);
    let cap = *r.pick(&[5usize, 8, 64]);
    let n = r.range(8, 30) as usize;
    let hot: Vec<S> = (0..6).map(|_| *r.pick(&s.corpus)).collect();
    let mut ops = vec![];
    // ids the generator believes to be live (ignores capacity errors and filter deletes): used to
    // make most updates / deletes hit an existing document
    let mut maybe_live: Vec<u64> = vec![];
    let target = |r: &mut Rng, ml: &Vec<u64>| -> u64 {
        if !ml.is_empty() && r.chance(3, 4) {
            *r.pick(ml)
        } else {
            gen_id(r)
        }
    };
    for _ in 0..n {
        let x = r.below(100);
        let op = match x {
            55..=66 => Op::Update(target(r, &maybe_live), gen_meta(r, s, &hot), r.chance(1, 2)),
            67..=76 => {
                let d = target(r, &maybe_live);
                maybe_live.retain(|x| *x != d);
                Op::Delete(d)
            }
            77..=82 => {
                let k = r.range(1, 4);
                let pool = [1u64, 2, 3, 4, 5, 6, 7, BIG_ID];
                let mut ids: Vec<u64> = (0..k).map(|_| *r.pick(&pool)).collect();
                if r.chance(1, 3) {
                    let d = ids[0];
                    ids.push(d); // duplicate
                }
                maybe_live.retain(|x| !ids.contains(x));
                Op::BatchDelete(ids)
            }
            83..=89 => Op::BatchDeleteFilter(gen_small_filter(r, s, &hot)),
            90..=94 if persistent => Op::Recover,
            // 0..=54, and 90..=99 when not taken above
            _ => {
                let d = gen_id(r);
                if !maybe_live.contains(&d) {
                    maybe_live.push(d);
                }
                Op::Insert(d, gen_meta(r, s, &hot))
            }
        };
        ops.push(op);
    }
    Case { cap, persistent, ops }
}

/// Directed histories for value-CLASS transitions of one key: every document gets a value of one
/// class (finite number, NaN spelling, infinity, signed zero, plain string, empty) and is then
/// updated (merge or replace, sometimes twice) to a value of ANOTHER class, so that stale postings
/// of every lookup family (exact, lexicographic, numeric, numeric-docs marker) would surface under
/// the range / exact atoms enumerated afterwards and under the index-dump oracle.
fn gen_transition_history(r: &mut Rng, s: &Strs, round: usize) -> Case {
    let class_of = |i: S| -> u8 {
        match s.v[i].parse::<f64>() {
            Ok(x) if x.is_nan() => 1,
            Ok(x) if x.is_infinite() => 2,
            Ok(x) if x == 0.0 => 3,
            Ok(_) => 0,
            Err(_) if s.v[i].is_empty() => 5,
            Err(_) => 4,
        }
    };
    let mut by_class: Vec<Vec<S>> = vec![vec![]; 6];
    for &i in &s.corpus {
        if s.v[i].len() < 64 { by_class[class_of(i) as usize].push(i) }
    }
    let classes: Vec<usize> = (0..6).filter(|c| !by_class[*c].is_empty()).collect();
    let k0 = s.keys[r.below(2) as usize];
    let k1 = s.keys[1 - (if k0 == s.keys[0] { 0 } else { 1 })];
    let persistent = r.chance(1, 3);
    let mut ops = vec![];
    // every ordered (old class, new class) pair is covered systematically across the histories of a run
    let n_docs = 9u64;
    let npairs = classes.len() * classes.len();
    let pair_of = |d: u64| -> (usize, usize) {
        let p = (round * n_docs as usize + (d as usize - 1)) % npairs;
        (classes[p / classes.len()], classes[p % classes.len()])
    };
    for d in 1..=n_docs {
        let c_old = pair_of(d).0;
        let v_old = *r.pick(&by_class[c_old]);
        let mut raw: Raw = vec![(k0, v_old)];
        if r.chance(1, 2) { raw.push((k1, *r.pick(&s.corpus))) }
        ops.push(Op::Insert(d, raw));
    }
    for d in 1..=n_docs {
        let rounds = if r.chance(1, 4) { 2 } else { 1 };
        for rd in 0..rounds {
            let c_new = if rd == 0 { pair_of(d).1 } else { *r.pick(&classes) };
            let v_new = *r.pick(&by_class[c_new]);
            let merge = r.chance(1, 2);
            let raw: Raw = if !merge && r.chance(1, 4) { vec![(k1, v_new)] } else { vec![(k0, v_new)] };
            ops.push(Op::Update(d, raw, merge));
        }
        if r.chance(1, 8) { ops.push(Op::Delete(d)) }
    }
    if persistent && r.chance(1, 2) { ops.push(Op::Recover) }
    Case { cap: 64, persistent, ops }
}

/// random tree reaching exactly depth `d` (atoms have depth 1), fan-out 0..3
fn gen_tree(r: &mut Rng, d: usize, exact: bool, atoms: &[F]) -> F {
    if d <= 1 {
        return match r.below(12) {
            0 => F::None,
            _ => r.pick(atoms).clone(),
        };
    }
    if !exact && r.chance(1, 4) {
        // shallow special leaves
        return match r.below(5) {
            0 => F::And(vec![]),
            1 => F::Or(vec![]),
            2 => F::Not(None),
            3 => F::None,
            _ => r.pick(atoms).clone(),
        };
    }
    match r.below(5) {
        0 => F::not(gen_tree(r, d - 1, exact, atoms)),
        k => {
            let fan = if exact { r.range(1, 3) } else { r.below(4) } as usize;
            let forced = if exact { r.below(fan as u64) as usize } else { usize::MAX };
            let fs: Vec<F> = (0..fan)
                .map(|j| {
                    if j == forced {
                        gen_tree(r, d - 1, true, atoms)
                    } else {
                        let dd = r.range(1, (d - 1) as u64) as usize;
                        gen_tree(r, dd, false, atoms)
                    }
                })
                .collect();
            if k <= 2 {
                F::And(fs)
            } else {
                F::Or(fs)
            }
        }
    }
}

fn sample_idx(r: &mut Rng, n: usize, k: usize) -> Vec<usize> {
    // partial Fisher-Yates, result sorted
    let mut idx: Vec<usize> = (0..n).collect();
    let k = k.min(n);
    for i in 0..k {
        let j = i + r.below((n - i) as u64) as usize;
        idx.swap(i, j);
    }
    let mut out = idx[..k].to_vec();
    out.sort_unstable();
    out
}

struct Q {
    f: F,
    class: u8, // 1..4 = D1..D4, 0 = replay
    a: Vec<u64>,
    b: Vec<u64>,
}
fn class_name(c: u8) -> &'static str {
    match c {
        0 => "replay",
        1 => "D1",
        2 => "D2",
        3 => "D3",
        _ => "D4",
    }
}

/// D1..D4 enumeration on the current state of `b`; every filter is evaluated on the real backend.
fn enumerate_filters(b: &HnswBackend, s: &Strs, r: &mut Rng) -> Vec<Q> {
    let mut qs: Vec<Q> = vec![];
    let push = |qs: &mut Vec<Q>, f: F, class: u8| {
        let (a, sc) = eval(b, &f, s);
        qs.push(Q { f, class, a, b: sc });
    };
    let (k0, k1) = (s.keys[0], s.keys[1]);
    // values present in the live documents, to bias In lists towards hits
    let mut present: Vec<S> = vec![];
    for (_, m) in census(b) {
        for (_, v) in m {
            if let Some(i) = s.map.get(&v) {
                if !present.contains(i) {
                    present.push(*i);
                }
            }
        }
    }
    present.sort_unstable();
    let pickv = |r: &mut Rng| -> S {
        if !present.is_empty() && r.chance(1, 2) {
            *r.pick(&present)
        } else {
            *r.pick(&s.corpus)
        }
    };
    // ---- D1: all atoms
    let mut atoms: Vec<F> = vec![F::None];
    for k in [k0, k1] {
        for v in &s.corpus {
            atoms.push(F::Exact(k, *v));
        }
    }
    for k in [k0, k1] {
        for bd in BDS {
            for v in &s.corpus {
                atoms.push(F::Range(k, Some((bd, *v))));
            }
        }
    }
    for k in [k0, k1] {
        atoms.push(F::Range(k, None));
    }
    for k in [k0, k1] {
        atoms.push(F::In(k, vec![]));
        for _ in 0..8 {
            atoms.push(F::In(k, vec![pickv(r)]));
        }
        for _ in 0..6 {
            let n = r.range(2, 3);
            let mut vs: Vec<S> = (0..n).map(|_| pickv(r)).collect();
            if r.chance(1, 3) {
                vs[1] = vs[0]; // duplicate value
            }
            atoms.push(F::In(k, vs));
        }
    }
    // a few atoms over the rare keys "k2" and ""
    for _ in 0..6 {
        let k = s.keys[2 + r.below(2) as usize];
        atoms.push(match r.below(4) {
            0 => F::Exact(k, pickv(r)),
            1 => F::Range(k, None),
            2 => F::In(k, vec![pickv(r), pickv(r)]),
            _ => F::Range(k, Some((*r.pick(&BDS), pickv(r)))),
        });
    }
    for a in &atoms {
        push(&mut qs, a.clone(), 1);
    }
    let n1 = qs.len();
    // ---- R: semantic representatives of the atoms on this state
    let mut reps: Vec<F> = vec![F::None, F::Range(k0, None)];
    let mut seen: HashSet<Vec<u64>> = HashSet::new();
    seen.insert(sorted(&qs[0].b));
    {
        let (_, sc) = eval(b, &reps[1], s);
        seen.insert(sorted(&sc));
    }
    let order = {
        let mut o = sample_idx(r, n1, n1);
        // seeded shuffle so the representatives vary in kind
        for i in (1..o.len()).rev() {
            let j = r.below((i + 1) as u64) as usize;
            o.swap(i, j);
        }
        o
    };
    for i in order {
        if reps.len() >= 10 {
            break;
        }
        if seen.insert(sorted(&qs[i].b)) {
            reps.push(qs[i].f.clone());
        }
    }
    // ---- D2
    for a in &atoms {
        push(&mut qs, F::not(a.clone()), 2);
    }
    push(&mut qs, F::Not(None), 2);
    push(&mut qs, F::And(vec![]), 2);
    push(&mut qs, F::Or(vec![]), 2);
    for a in &reps {
        push(&mut qs, F::And(vec![a.clone()]), 2);
        push(&mut qs, F::Or(vec![a.clone()]), 2);
    }
    for a in &reps {
        for c in &reps {
            push(&mut qs, F::And(vec![a.clone(), c.clone()]), 2);
            push(&mut qs, F::Or(vec![a.clone(), c.clone()]), 2);
        }
    }
    let n2 = qs.len();
    // ---- D3
    let xs: Vec<F> = sample_idx(r, n2 - n1, 40).into_iter().map(|i| qs[n1 + i].f.clone()).collect();
    let as5: Vec<F> = sample_idx(r, reps.len(), 5).into_iter().map(|i| reps[i].clone()).collect();
    for x in &xs {
        push(&mut qs, F::not(x.clone()), 3);
        for a in &as5 {
            push(&mut qs, F::And(vec![x.clone(), a.clone()]), 3);
            push(&mut qs, F::Or(vec![x.clone(), a.clone()]), 3);
            push(&mut qs, F::And(vec![a.clone(), x.clone()]), 3);
        }
    }
    // shapes that cannot be compiled to a bitmap (NotFilter{filter: None} inside): scan fallback
    for a in &reps {
        push(&mut qs, F::And(vec![a.clone(), F::Not(None)]), 3);
        push(&mut qs, F::Or(vec![F::Not(None), a.clone()]), 3);
        push(&mut qs, F::not(F::And(vec![F::Not(None), a.clone()])), 3);
    }
    push(&mut qs, F::not(F::And(vec![F::Not(None)])), 3);
    push(&mut qs, F::not(F::Or(vec![F::Not(None)])), 3);
    push(&mut qs, F::not(F::Not(None)), 3);
    // ---- D4: random deeper trees
    for _ in 0..200 {
        let d = r.range(4, 6) as usize;
        let f = gen_tree(r, d, true, &atoms);
        push(&mut qs, f, 4);
    }
    qs
}

// ------------------------------------------------------------------------------------ shard
fn f64_rows(s: &Strs) -> String {
    let mut vals: Vec<u64> = vec![];
    for i in &s.corpus {
        if let Some(b) = s.parse_bits(*i) {
            if !vals.contains(&b) {
                vals.push(b);
            }
        }
    }
    let mut rows = vec![];
    for &x in &vals {
        for &y in &vals {
            let (a, b) = (f64::from_bits(x), f64::from_bits(y));
            rows.push(format!(
                "({}%Z, {}%Z, {}, {}, {}, {}, {})",
                x, y, cf::b(a < b), cf::b(a <= b), cf::b(a > b), cf::b(a >= b), cf::b(a == b)
            ));
        }
    }
    format!(
        "Definition frows : list (Z*Z*bool*bool*bool*bool*bool) := [\n  {}\n].\nDefinition fbad := filter (fun r => negb (f64_row_ok r)) frows.\nGoal True. idtac \"@@fbad\". Abort.\nEval vm_compute in fbad.\nGoal True. idtac \"@@fcount\". Abort.\nEval vm_compute in (N.of_nat (length frows)).\n",
        rows.join(";\n  ")
    )
}

fn shard_text(k: usize, c: &Case, outs: &[Out], qs: &[Q], sel: &[usize], s: &Strs, with_f64: bool) -> String {
    let mut used: BTreeSet<S> = BTreeSet::new();
    for o in &c.ops {
        match o {
            Op::Insert(_, r) | Op::Update(_, r, _) => {
                for (a, b) in r {
                    used.insert(*a);
                    used.insert(*b);
                }
            }
            Op::BatchDeleteFilter(f) => f.collect_strs(&mut used),
            _ => {}
        }
    }
    for &i in sel {
        qs[i].f.collect_strs(&mut used);
    }
    let mut t = String::new();
    t.push_str("From Coq Require Import List NArith ZArith Bool.\nFrom Kyro Require Import Model.Filter.\nImport ListNotations.\n");
    for &i in &used {
        let _ = writeln!(t, "Definition {} : str := {}.", sname(i), coq_str_def(s.get(i)));
    }
    let tbl: Vec<String> = used
        .iter()
        .map(|&i| match s.parse_bits(i) {
            Some(b) => format!("({}, Some {}%Z)", sname(i), b),
            None => format!("({}, None)", sname(i)),
        })
        .collect();
    let _ = writeln!(t, "Definition tbl : list (str * option Z) := [{}].", tbl.join("; "));
    t.push_str("Definition P := parse_tbl tbl.\n");
    let ops: Vec<String> = c.ops.iter().map(coq_op).collect();
    let os: Vec<String> = outs.iter().map(coq_out).collect();
    let queries: Vec<String> = sel
        .iter()
        .map(|&i| format!("({}, {}, {}, {})", cf::n(i as u64), coq_f(&qs[i].f), coq_nlist(&qs[i].a), coq_nlist(&qs[i].b)))
        .collect();
    let _ = writeln!(
        t,
        "Definition c : ccase := ({}, {}%nat,\n [{}],\n [{}],\n [{}]).",
        cf::n(k as u64),
        c.cap,
        ops.join(";\n  "),
        os.join("; "),
        queries.join(";\n  ")
    );
    t.push_str("Definition bad := check_case P c.\nGoal True. idtac \"@@bad\". Abort.\nEval vm_compute in bad.\nGoal True. idtac \"@@count\". Abort.\nEval vm_compute in (N.of_nat (case_queries c)).\n");
    if with_f64 {
        t.push_str(&f64_rows(s));
    }
    t
}

/// seeded stratified choice of `m` filters (35% D1, 20% D2, 25% D3, 20% D4) + every index in `always`
fn select(qs: &[Q], m: usize, always: &BTreeSet<usize>, r: &mut Rng) -> Vec<usize> {
    if m == 0 || qs.len() <= m {
        return (0..qs.len()).collect();
    }
    let quota = [m * 35 / 100, m * 20 / 100, m * 25 / 100, m - m * 35 / 100 - m * 20 / 100 - m * 25 / 100];
    let mut out: BTreeSet<usize> = always.clone();
    for cl in 1..=4u8 {
        let idx: Vec<usize> = (0..qs.len()).filter(|&i| qs[i].class == cl).collect();
        for j in sample_idx(r, idx.len(), quota[(cl - 1) as usize]) {
            out.insert(idx[j]);
        }
    }
    for i in 0..qs.len() {
        if qs[i].class == 0 {
            out.insert(i);
        }
    }
    out.into_iter().collect()
}

// ------------------------------------------------------------------------------------ main
struct Spec {
    case: Case,
    only: Option<F>, // replay / corpus case: evaluate just this filter
    origin: String,
}

fn main() {
    kvh::panicrec::install();
    let args: Vec<String> = std::env::args().collect();
    let mut out = String::from("/verif/.cache/run/C11/out");
    let mut n = 12usize;
    let mut per_state = 200usize;
    let mut replay: Option<String> = None;
    let mut i = 1;
    while i < args.len() {
        match args[i].as_str() {
            "--out" => {
                out = args[i + 1].clone();
                i += 1
            }
            "--n" => {
                n = args[i + 1].parse().expect("--n N");
                i += 1
            }
            "--coq-per-state" => {
                per_state = args[i + 1].parse().expect("--coq-per-state M");
                i += 1
            }
            "--replay" => {
                replay = Some(args[i + 1].clone());
                i += 1
            }
            _ => {}
        }
        i += 1;
    }
    std::fs::create_dir_all(&out).unwrap();
    // stale shards of an earlier run into the same directory would be picked up by the checker
    if let Ok(rd) = std::fs::read_dir(&out) {
        for e in rd.filter_map(|e| e.ok()) {
            let name = e.file_name().to_string_lossy().to_string();
            if name.starts_with("cases_") && (name.ends_with(".v") || name.ends_with(".vo") || name.ends_with(".vok") || name.ends_with(".vos") || name.ends_with(".glob")) {
                let _ = std::fs::remove_file(e.path());
            }
        }
    }
    let mut strs = Strs::new();
    let mut dirs = Dirs { n: 0 };
    let mut rng = Rng::from_env();

    let mut specs: Vec<Spec> = vec![];
    if let Some(p) = &replay {
        let v: Value = serde_json::from_str(&std::fs::read_to_string(p).unwrap_or_else(|e| panic!("c11: cannot read {}: {}", p, e))).unwrap_or_else(|e| panic!("c11: bad JSON in {}: {}", p, e));
        let (case, f) = case_parse(&v, &mut strs);
        specs.push(Spec { case, only: Some(f), origin: format!("replay:{}", p) });
    } else {
        if let Ok(rd) = std::fs::read_dir(CORPUS_DIR) {
            let mut ps: Vec<_> = rd.filter_map(|e| e.ok()).map(|e| e.path()).filter(|p| p.extension().map(|x| x == "json").unwrap_or(false)).collect();
            ps.sort();
            for p in ps {
                if let Ok(txt) = std::fs::read_to_string(&p) {
                    if let Ok(v) = serde_json::from_str::<Value>(&txt) {
                        let (case, f) = case_parse(&v, &mut strs);
                        specs.push(Spec { case, only: Some(f), origin: format!("corpus:{}", p.display()) });
                    }
                }
            }
        }
        for k in 0..n {
            let mut r = rng.fork(k as u64);
            let case = if k % 3 == 1 { gen_transition_history(&mut r, &strs, k / 3) } else { gen_history(&mut r, &strs) };
            specs.push(Spec { case, only: None, origin: format!("seeded:{}", k) });
        }
    }

    let t0 = std::time::Instant::now();
    let mut hist = Hist::default();
    let mut failures: Vec<Value> = vec![];
    let mut failures_total = 0u64;
    let mut shrunk_done = false;
    let mut order_mismatches = 0u64;
    let mut pairs_rust = 0u64;
    let mut pairs_coq = 0u64;
    let mut fallback_filters = 0u64;
    let mut census_ids: HashMap<String, usize> = HashMap::new();
    let mut distinct: HashSet<String> = HashSet::new();
    let mut range_nodes = [0u64; 3];
    let mut all: Vec<Value> = vec![];
    let mut samples: Vec<Value> = vec![];
    let mut shard_texts: Vec<String> = vec![];

    for (k, spec) in specs.iter().enumerate() {
        let c = &spec.case;
        let mut r_filters = rng.fork(0x1000 + k as u64);
        let mut r_select = rng.fork(0x2000 + k as u64);
        let ran = run_history(c, &strs, &mut dirs, &mut hist);
        hist.add("ops_total", c.ops.len() as u64);

        // second oracle: BatchDeleteFilter ops inside the history
        let bdf: Vec<(usize, String, Vec<u64>, Vec<u64>)> = ran.bdf_fails.iter().map(|x| (x.op_index, x.why.clone(), x.ids_index.clone(), x.ids_scan.clone())).collect();

        let qs: Vec<Q> = match &spec.only {
            Some(f) => {
                let (a, b) = eval(ran.backend(), f, &strs);
                vec![Q { f: f.clone(), class: 0, a, b }]
            }
            None => enumerate_filters(ran.backend(), &strs, &mut r_filters),
        };
        let cen = census(ran.backend());
        let live: Vec<u64> = cen.iter().map(|x| x.0).collect();
        let cen_key = {
            let mut cs = cen.clone();
            cs.sort();
            serde_json::to_string(&cs.iter().map(|(id, m)| json!([id, m.iter().map(|(a, b)| json!([sj(a), sj(b)])).collect::<Vec<_>>()])).collect::<Vec<_>>()).unwrap()
        };
        let nc = census_ids.len();
        let cen_id = *census_ids.entry(cen_key).or_insert(nc);
        hist.inc(&format!("final_live_{}", live.len().min(7)));

        let mut always: BTreeSet<usize> = BTreeSet::new();
        let mut state_fail: Vec<(usize, String)> = vec![];
        for (qi, q) in qs.iter().enumerate() {
            pairs_rust += 1;
            hist.inc(&format!("filter_class_{}", class_name(q.class)));
            hist.inc(&format!("filter_top_{}", q.f.kind()));
            hist.inc(&format!("filter_depth_{}", q.f.depth().min(7)));
            q.f.range_nodes(&strs, &mut range_nodes);
            if q.f.has_not_none() {
                fallback_filters += 1;
            }
            let (sa, sb) = (sorted(&q.a), sorted(&q.b));
            if sa != sb {
                always.insert(qi);
                state_fail.push((qi, format!("ids_for_metadata_filter != scan(matches): index-only {:?}, scan-only {:?}",
                    sa.iter().filter(|x| !sb.contains(x)).collect::<Vec<_>>(), sb.iter().filter(|x| !sa.contains(x)).collect::<Vec<_>>())));
            } else if q.a != q.b {
                order_mismatches += 1;
                always.insert(qi);
            }
            hist.inc(if sb.is_empty() { "result_empty" } else if sb.len() == live.len() { "result_all" } else { "result_partial" });
            if !sb.is_empty() && sb.len() != live.len() {
                distinct.insert(format!("{}|{}", cen_id, f_json(&q.f, &strs)));
            }
        }

        // record failures (first one overall is shrunk)
        for (op_index, why, ids_index, ids_scan) in bdf {
            failures_total += 1;
            let f = match &c.ops[op_index] {
                Op::BatchDeleteFilter(f) => f.clone(),
                _ => F::None,
            };
            let prefix = Case { cap: c.cap, persistent: c.persistent, ops: c.ops[..op_index].to_vec() };
            let mut rec = json!({"why": why, "state": k, "origin": spec.origin,
                "case": case_json(&Case { cap: c.cap, persistent: c.persistent, ops: c.ops[..=op_index].to_vec() }, Some(&f), &strs),
                "ids_index": ids_index, "ids_scan": ids_scan});
            if !shrunk_done {
                // reduces to the direct oracle on the prefix state when the two id lists differ
                let ab = final_ab(&prefix, &f, &strs, &mut dirs);
                if set_differs(&ab) {
                    let (sc, sf, a, b) = shrink(&prefix, &f, &strs, &mut dirs);
                    rec = json!({"why": format!("{} (shrunk to the direct oracle on the state before the op)", why), "state": k, "origin": spec.origin,
                        "case": case_json(&sc, Some(&sf), &strs), "ids_index": a, "ids_scan": b, "shrunk": true});
                }
                shrunk_done = true;
            }
            if failures.len() < 40 {
                failures.push(rec);
            }
        }
        for (qi, why) in &state_fail {
            failures_total += 1;
            let q = &qs[*qi];
            let rec = if !shrunk_done {
                shrunk_done = true;
                let (sc, sf, a, b) = shrink(c, &q.f, &strs, &mut dirs);
                json!({"why": why, "state": k, "qid": qi, "origin": spec.origin, "case": case_json(&sc, Some(&sf), &strs), "ids_index": a, "ids_scan": b, "shrunk": true,
                    "unshrunk": {"case": case_json(c, Some(&q.f), &strs), "ids_index": q.a, "ids_scan": q.b}})
            } else {
                json!({"why": why, "state": k, "qid": qi, "origin": spec.origin, "case": case_json(c, Some(&q.f), &strs), "ids_index": q.a, "ids_scan": q.b})
            };
            if failures.len() < 40 {
                failures.push(rec);
            }
        }

        // samples: a small history with a non-trivial filter
        if samples.len() < 3 {
            let pick = qs.iter().position(|q| q.class >= 2 && !q.b.is_empty() && q.b.len() != live.len()).or_else(|| qs.iter().position(|q| !q.b.is_empty() && q.b.len() != live.len())).unwrap_or(0);
            if let Some(q) = qs.get(pick) {
                samples.push(json!({"state": k, "case": case_json(c, Some(&q.f), &strs), "outs": ran.outs.iter().map(out_json).collect::<Vec<_>>(),
                    "live_ids": live, "ids_index": q.a, "ids_scan": q.b}));
            }
        }

        // Coq shard
        let sel = select(&qs, per_state, &always, &mut r_select);
        pairs_coq += sel.len() as u64;
        shard_texts.push(shard_text(k, c, &ran.outs, &qs, &sel, &strs, k == 0));
        all.push(json!({
            "state": k, "origin": spec.origin, "cap": c.cap, "persistent": c.persistent,
            "ops": c.ops.iter().map(|o| op_json(o, &strs)).collect::<Vec<_>>(),
            "outs": ran.outs.iter().map(out_json).collect::<Vec<_>>(),
            "filters_evaluated": qs.len(),
            "filters": sel.iter().map(|&i| json!({"qid": i, "class": class_name(qs[i].class), "f": f_json(&qs[i].f, &strs), "a": qs[i].a, "b": qs[i].b})).collect::<Vec<_>>(),
        }));
        ran.finish();
    }
    let rust_ms = t0.elapsed().as_millis() as u64;
    let _ = std::fs::remove_dir(DB_BASE); // only succeeds when empty

    for (k, t) in shard_texts.iter().enumerate() {
        std::fs::write(format!("{}/cases_{}.v", out, k), t).unwrap();
    }
    hist.add("range_nodes_bound_numeric", range_nodes[0]);
    hist.add("range_nodes_bound_not_numeric", range_nodes[1]);
    hist.add("range_nodes_no_bound", range_nodes[2]);
    let summary = json!({
        "states": specs.len(), "shards": shard_texts.len(),
        "pairs_rust": pairs_rust, "pairs_coq": pairs_coq,
        "oracle_failures": failures, "oracle_failures_total": failures_total,
        "order_mismatches": order_mismatches,
        "distinct_nontrivial": distinct.len(),
        "distinct_final_censuses": census_ids.len(),
        "fallback_filters": fallback_filters,
        "histogram": hist.0,
        "samples": samples,
        "rust_ms": rust_ms,
        "coq_per_state": per_state,
        "corpus_values": strs.corpus.len(),
    });
    std::fs::write(format!("{}/summary.json", out), serde_json::to_string_pretty(&summary).unwrap()).unwrap();
    std::fs::write(format!("{}/all_cases.json", out), serde_json::to_string(&all).unwrap()).unwrap();
    println!("c11: {} states, {} pairs, {} to coq, {} oracle failures", specs.len(), pairs_rust, pairs_coq, failures_total);
}
