//! Shared pieces of the persistence correspondences (C02, C01): normalisation / acceptance of vectors
//! through the engine's own code, interning of vectors and strings, and the Gallina prelude
//! (vector pool, normalisation table `cnorm`, acceptance predicates `cacc_e` / `cacc_c`) that the
//! cases files of Model/Backend.v-based checks start with.
use kyrodb_engine::config::DistanceMetric;
use kyrodb_engine::hnsw_backend::verif_normalize_in_place_if_needed;
use serde_json::{json, Value};
use std::collections::{BTreeMap, HashMap};
use std::fmt::Write as _;

pub type Meta = Vec<(String, String)>; // sorted by key bytes, unique keys

pub fn metric_of(m: u8) -> DistanceMetric {
    match m {
        1 => DistanceMetric::Cosine,
        2 => DistanceMetric::InnerProduct,
        _ => DistanceMetric::Euclidean,
    }
}
pub fn metric_code(s: &str) -> u8 {
    match s {
        "cosine" => 1,
        "innerproduct" => 2,
        _ => 0,
    }
}
pub fn metric_coq(m: u8) -> &'static str {
    match m {
        1 => "Cosine",
        2 => "InnerProduct",
        _ => "Euclidean",
    }
}
pub fn bits(v: &[f32]) -> Vec<u32> {
    v.iter().map(|x| x.to_bits()).collect()
}
pub fn floats(v: &[u32]) -> Vec<f32> {
    v.iter().map(|x| f32::from_bits(*x)).collect()
}

/// normalize_in_place_if_needed on bit patterns (the engine's own code through hook H5).
pub fn normalize(metric: u8, v: &[u32]) -> Option<Vec<u32>> {
    let mut f = floats(v);
    match verif_normalize_in_place_if_needed(metric_of(metric), &mut f) {
        Ok(()) => Some(bits(&f)),
        Err(_) => None,
    }
}

/// Does the index accept this (already normalised) vector?  `None` = within 1.5 % of the tolerance edge.
pub fn index_accepts(metric: u8, v: &[u32]) -> Option<bool> {
    let f = floats(v);
    if f.iter().any(|x| !x.is_finite()) {
        return Some(false);
    }
    if metric == 0 {
        return Some(true);
    }
    let n: f64 = f.iter().map(|x| (*x as f64) * (*x as f64)).sum();
    if (0.985..=1.015).contains(&n) {
        Some(true)
    } else if !(0.97..=1.03).contains(&n) {
        Some(false)
    } else {
        None
    }
}

pub fn canon_meta(m: &Meta) -> Meta {
    let mut b: BTreeMap<Vec<u8>, (String, String)> = BTreeMap::new();
    for (k, v) in m {
        b.insert(k.as_bytes().to_vec(), (k.clone(), v.clone()));
    }
    b.into_values().collect()
}

#[derive(Default)]
pub struct Intern {
    pub vecs: Vec<Vec<u32>>,
    pub vmap: HashMap<Vec<u32>, usize>,
    pub strs: Vec<String>,
    pub smap: HashMap<String, usize>,
    pub norm: BTreeMap<Vec<u32>, Option<Vec<u32>>>,
    pub rej_e: Vec<Vec<u32>>,
    pub rej_c: Vec<Vec<u32>>,
    pub idem_checked: u64,
    pub idem_failed: Vec<Value>,
}

impl Intern {
    pub fn v(&mut self, b: &[u32]) -> String {
        let n = self.vecs.len();
        let i = *self.vmap.entry(b.to_vec()).or_insert(n);
        if i == n {
            self.vecs.push(b.to_vec());
        }
        format!("v{}", i)
    }
    pub fn s(&mut self, x: &str) -> String {
        let n = self.strs.len();
        let i = *self.smap.entry(x.to_string()).or_insert(n);
        if i == n {
            self.strs.push(x.to_string());
        }
        format!("b{}", i)
    }
    pub fn meta(&mut self, m: &Meta) -> String {
        let parts: Vec<String> = m.iter().map(|(k, v)| format!("({}, {})", self.s(k), self.s(v))).collect();
        format!("[{}]", parts.join("; "))
    }
    /// call for every vector of the right dimension that an insert carries
    pub fn note_insert(&mut self, metric: u8, raw: &[u32]) {
        if metric != 0 {
            self.note_norm(raw);
        }
        if metric == 0 {
            if index_accepts(0, raw) == Some(false) && !self.rej_e.iter().any(|x| x == raw) {
                self.v(raw);
                self.rej_e.push(raw.to_vec());
            }
        } else if let Some(w) = normalize(1, raw) {
            if index_accepts(1, &w) == Some(false) && !self.rej_c.iter().any(|x| *x == w) {
                self.v(&w);
                self.rej_c.push(w);
            }
        }
    }
    fn note_norm(&mut self, raw: &[u32]) {
        if self.norm.contains_key(raw) {
            return;
        }
        let w = normalize(1, raw);
        self.norm.insert(raw.to_vec(), w.clone());
        self.v(raw);
        if let Some(w) = w {
            self.v(&w);
            let ww = normalize(1, &w);
            self.idem_checked += 1;
            if ww.as_ref() != Some(&w) && index_accepts(1, &w) == Some(true) {
                self.idem_failed.push(json!({"raw_bits": raw, "normalised_bits": w, "renormalised_bits": ww}));
            }
            if let Some(x) = &ww {
                self.v(x);
            }
            self.norm.entry(w.clone()).or_insert(ww);
        }
    }
    /// `mkCfg …` literal; fsync: "always" | "never" | "data"
    pub fn cfg(&self, metric: u8, dim: usize, interval: usize, max_wal: u64, cap: usize, fsync: &str) -> String {
        format!(
            "(mkCfg {} {} {} {} {} {} cnorm {})",
            metric_coq(metric), dim, interval, max_wal, cap,
            match fsync { "always" => "FsAlways", "data" => "FsData", _ => "FsNever" },
            if metric == 0 { "cacc_e" } else { "cacc_c" }
        )
    }
    /// imports + pool definitions + cnorm / cacc_* / D
    pub fn prelude(&self, imports: &str) -> String {
        let mut s = String::new();
        s.push_str(imports);
        for (i, v) in self.vecs.iter().enumerate() {
            let _ = writeln!(s, "Definition v{} : vec := [{}]%Z.", i, v.iter().map(|x| x.to_string()).collect::<Vec<_>>().join("; "));
        }
        for (i, x) in self.strs.iter().enumerate() {
            let _ = writeln!(s, "Definition b{} : bytes := [{}].", i, x.as_bytes().iter().map(|x| x.to_string()).collect::<Vec<_>>().join("; "));
        }
        let tab: Vec<String> = self
            .norm
            .iter()
            .map(|(k, v)| {
                format!("(v{}, {})", self.vmap[k], match v {
                    None => "None".to_string(),
                    Some(w) => format!("Some v{}", self.vmap[w]),
                })
            })
            .collect();
        let _ = writeln!(s, "Definition ntab : list (vec * option vec) := [{}].", tab.join("; "));
        s.push_str("Definition cnorm (v : vec) : option vec := match find (fun p => vec_eqb (fst p) v) ntab with Some p => snd p | None => None end.\n");
        let _ = writeln!(s, "Definition rej_e : list vec := [{}].", self.rej_e.iter().map(|v| format!("v{}", self.vmap[v])).collect::<Vec<_>>().join("; "));
        let _ = writeln!(s, "Definition rej_c : list vec := [{}].", self.rej_c.iter().map(|v| format!("v{}", self.vmap[v])).collect::<Vec<_>>().join("; "));
        s.push_str("Definition cacc_e (v : vec) : bool := negb (existsb (vec_eqb v) rej_e).\nDefinition cacc_c (v : vec) : bool := negb (existsb (vec_eqb v) rej_c).\n");
        s.push_str("Definition D (v : vec) (m : meta) : doc := mkDoc v m.\n");
        s
    }
}
