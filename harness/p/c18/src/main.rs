//! C18 correspondence + oracle driver: the FULL cross product of the safety-relevant discrete settings on
//! the real `KyroDbConfig::validate`, compared in Coq with the regenerated `Config_gen.validate`.
//! usage: c18 --out DIR --n N [--replay FILE] [--guards Config_gen.json] [--server-samples K] [--variant-every D]
//!   N = number of sampled rows that are additionally supplied through TOML / YAML / KYRODB__* environment
//!       overrides / TOML+environment via the real `KyroDbConfig::load`.
use kvh::rng::Rng;
use kyrodb_engine::config::{CacheStrategy, FsyncPolicy, KyroDbConfig, ObservabilityAuthMode, RecoveryMode};
use serde_json::{json, Value};
use std::collections::BTreeMap;
use std::fmt::Write as _;
use std::path::PathBuf;

const BASE_NAMES: [&str; 5] = ["production", "pilot", "benchmark", "", "staging"];
/// case / whitespace variants (Unicode White_Space included) and near misses that are NOT variants
const VARIANT_NAMES: [&str; 14] = [
    " Pilot ",
    "PRODUCTION",
    "Benchmark\n",
    "\tpIlOt",
    "\u{a0}pilot\u{3000}",
    "BENCHMARK ",
    "Production\r\n",
    "\u{2003}PrOdUcTiOn\u{85}",
    "\u{2028}bEnChMaRk\u{205f}",
    "pi lot",         // inner blank: not a variant
    "pilot\u{200b}",  // ZERO WIDTH SPACE is not White_Space: not a variant
    "bench-mark",
    "\u{ff30}ilot",   // full-width P: not ASCII
    "   ",
];
const FSYNC: [FsyncPolicy; 3] = [FsyncPolicy::None, FsyncPolicy::DataOnly, FsyncPolicy::Full];
const RECOVERY: [RecoveryMode; 2] = [RecoveryMode::Strict, RecoveryMode::BestEffort];
const STRATEGY: [CacheStrategy; 3] = [CacheStrategy::Lru, CacheStrategy::Learned, CacheStrategy::AbTest];
const OBS: [ObservabilityAuthMode; 3] = [ObservabilityAuthMode::Disabled, ObservabilityAuthMode::MetricsAndSlo, ObservabilityAuthMode::All];
const LOOP_HOSTS: [&str; 7] = ["127.0.0.1", "localhost", "[::1]", "::1", "127.0.0.53", " LocalHost ", "[::1%lo]"];
const NONLOOP_HOSTS: [&str; 7] = ["0.0.0.0", "10.1.2.3", "::", "[::]", "example.com", "192.168.1.127", "1.127.0.1"];
const SNAP_POS: [u64; 4] = [1, 10_000, 4_294_967_296, 9_000_000_000_000_000_000];
/// radices of the row coordinates after the name: fsync snap rec strat auth rl obs fresh tls grpc http
const RADIX: [usize; 11] = [3, 2, 2, 3, 2, 2, 3, 2, 2, 2, 3];
const PER_NAME: usize = 3 * 2 * 2 * 3 * 2 * 2 * 3 * 2 * 2 * 2 * 3;

#[derive(Clone, Debug)]
struct Row {
    name: String,
    co: [usize; 11],
    /// representative picks (do not change the class)
    pick: usize,
}

impl Row {
    fn fsync(&self) -> FsyncPolicy { FSYNC[self.co[0]] }
    fn snap_zero(&self) -> bool { self.co[1] == 0 }
    fn snap_val(&self) -> u64 { if self.snap_zero() { 0 } else { SNAP_POS[self.pick % SNAP_POS.len()] } }
    fn recovery(&self) -> RecoveryMode { RECOVERY[self.co[2]] }
    fn strategy(&self) -> CacheStrategy { STRATEGY[self.co[3]] }
    fn auth(&self) -> bool { self.co[4] == 1 }
    fn rl(&self) -> bool { self.co[5] == 1 }
    fn obs(&self) -> ObservabilityAuthMode { OBS[self.co[6]] }
    fn fresh(&self) -> bool { self.co[7] == 1 }
    fn tls(&self) -> bool { self.co[8] == 1 }
    fn grpc_loop(&self) -> bool { self.co[9] == 1 }
    fn grpc_host(&self) -> &'static str {
        if self.grpc_loop() { LOOP_HOSTS[self.pick % LOOP_HOSTS.len()] } else { NONLOOP_HOSTS[self.pick % NONLOOP_HOSTS.len()] }
    }
    /// 0 unset (inherits the gRPC host), 1 loopback, 2 non-loopback
    fn http(&self) -> usize { self.co[10] }
    fn http_host(&self) -> Option<&'static str> {
        match self.http() {
            0 => None,
            1 => Some(LOOP_HOSTS[(self.pick / 7) % LOOP_HOSTS.len()]),
            _ => Some(NONLOOP_HOSTS[(self.pick / 7) % NONLOOP_HOSTS.len()]),
        }
    }
    fn from_index(name: &str, mut ix: usize, pick: usize) -> Row {
        let mut co = [0usize; 11];
        for k in (0..11).rev() {
            co[k] = ix % RADIX[k];
            ix /= RADIX[k];
        }
        Row { name: name.to_string(), co, pick }
    }
    fn index(&self) -> usize {
        let mut ix = 0;
        for k in 0..11 {
            ix = ix * RADIX[k] + self.co[k];
        }
        ix
    }
    fn to_json(&self) -> Value {
        json!({
            "environment_type": self.name, "co": self.co.to_vec(), "pick": self.pick,
            "fsync_policy": format!("{:?}", self.fsync()), "snapshot_interval_mutations": self.snap_val(),
            "recovery_mode": format!("{:?}", self.recovery()), "cache_strategy": format!("{:?}", self.strategy()),
            "auth_enabled": self.auth(), "rate_limit_enabled": self.rl(), "observability_auth": format!("{:?}", self.obs()),
            "allow_fresh_start_on_recovery_failure": self.fresh(), "tls_enabled": self.tls(),
            "grpc_host": self.grpc_host(), "grpc_host_class": if self.grpc_loop() { "loopback" } else { "non-loopback" },
            "http_host": self.http_host(), "http_host_class": (["unset", "loopback", "non-loopback"])[self.http()],
        })
    }
    fn from_json(v: &Value) -> Option<Row> {
        let co_v = v.get("co")?.as_array()?;
        if co_v.len() != 11 {
            return None;
        }
        let mut co = [0usize; 11];
        for k in 0..11 {
            co[k] = co_v[k].as_u64()? as usize;
            if co[k] >= RADIX[k] {
                return None;
            }
        }
        Some(Row { name: v.get("environment_type")?.as_str()?.to_string(), co, pick: v.get("pick").and_then(|p| p.as_u64()).unwrap_or(0) as usize })
    }
}

fn build_config(r: &Row) -> KyroDbConfig {
    let mut c = KyroDbConfig::default();
    c.environment.environment_type = r.name.clone();
    c.persistence.fsync_policy = r.fsync();
    c.persistence.snapshot_interval_mutations = r.snap_val();
    c.persistence.recovery_mode = r.recovery();
    c.persistence.allow_fresh_start_on_recovery_failure = r.fresh();
    c.cache.strategy = r.strategy();
    c.auth.enabled = r.auth();
    // unrelated guards must pass: a key file path when auth is on, cert/key paths when TLS is on
    c.auth.api_keys_file = if r.auth() { Some(PathBuf::from("/nonexistent/verif/api_keys.yaml")) } else { None };
    c.rate_limit.enabled = r.rl();
    c.server.observability_auth = r.obs();
    c.server.tls.enabled = r.tls();
    if r.tls() {
        c.server.tls.cert_path = Some(PathBuf::from("/nonexistent/verif/server.crt"));
        c.server.tls.key_path = Some(PathBuf::from("/nonexistent/verif/server.key"));
    }
    c.server.host = r.grpc_host().to_string();
    c.server.http_host = r.http_host().map(|s| s.to_string());
    c
}

fn run_validate(r: &Row) -> (bool, String) {
    match build_config(r).validate() {
        Ok(()) => (true, String::new()),
        Err(e) => (false, format!("{:#}", e)),
    }
}

/// The property, stated over the inputs and the observed verdict only.  The intended environment of a
/// raw name is its trimmed, ASCII-lower-cased form ("case / whitespace variants").
fn oracle(r: &Row, accepted: bool) -> Option<String> {
    if !accepted {
        return None;
    }
    let intended = r.name.trim().to_ascii_lowercase();
    if intended != "benchmark" {
        if r.fsync() == FsyncPolicy::None {
            return Some(format!("accepted with fsync_policy=none in environment {:?}", r.name));
        }
        if r.snap_zero() {
            return Some(format!("accepted with snapshots disabled in environment {:?}", r.name));
        }
        if r.recovery() != RecoveryMode::Strict {
            return Some(format!("accepted with recovery_mode=best_effort in environment {:?}", r.name));
        }
        if r.strategy() != CacheStrategy::Learned {
            return Some(format!("accepted with cache strategy {:?} in environment {:?}", r.strategy(), r.name));
        }
    }
    if intended == "pilot" {
        if !r.auth() {
            return Some("pilot accepted without authentication".into());
        }
        if !r.rl() {
            return Some("pilot accepted without rate limiting".into());
        }
        if r.obs() == ObservabilityAuthMode::Disabled {
            return Some("pilot accepted with unprotected observability endpoints".into());
        }
        if r.fresh() {
            return Some("pilot accepted with allow_fresh_start_on_recovery_failure".into());
        }
        if !r.tls() && !r.grpc_loop() {
            return Some(format!("pilot accepted without TLS on non-loopback bind {:?}", r.grpc_host()));
        }
    }
    if intended == "production" && !r.grpc_loop() && !r.auth() {
        return Some(format!("production accepted on non-loopback bind {:?} without authentication", r.grpc_host()));
    }
    None
}

// ------------------------------------------------------------------------------------------------
// file / environment channels through the real KyroDbConfig::load
// ------------------------------------------------------------------------------------------------
fn serde_name<T: serde::Serialize>(v: &T) -> String {
    match serde_json::to_value(v) {
        Ok(Value::String(s)) => s,
        other => panic!("enum does not serialise to a string: {:?}", other),
    }
}
fn esc(s: &str) -> String {
    // TOML basic string == YAML double-quoted string for this escape set
    let mut o = String::from("\"");
    for ch in s.chars() {
        match ch {
            '\\' => o.push_str("\\\\"),
            '"' => o.push_str("\\\""),
            c if (c as u32) < 0x20 || (c as u32) == 0x7f || (c as u32) > 0x7e => {
                if (c as u32) <= 0xffff {
                    let _ = write!(o, "\\u{:04X}", c as u32);
                } else {
                    let _ = write!(o, "\\U{:08X}", c as u32);
                }
            }
            c => o.push(c),
        }
    }
    o.push('"');
    o
}

fn toml_text(r: &Row) -> String {
    let mut s = String::new();
    let _ = writeln!(s, "[environment]\ntype = {}\n", esc(&r.name));
    let _ = writeln!(s, "[persistence]\nfsync_policy = {}\nsnapshot_interval_mutations = {}\nrecovery_mode = {}\nallow_fresh_start_on_recovery_failure = {}\n",
        esc(&serde_name(&r.fsync())), r.snap_val(), esc(&serde_name(&r.recovery())), r.fresh());
    let _ = writeln!(s, "[cache]\nstrategy = {}\n", esc(&serde_name(&r.strategy())));
    let _ = writeln!(s, "[auth]\nenabled = {}", r.auth());
    if r.auth() {
        let _ = writeln!(s, "api_keys_file = \"/nonexistent/verif/api_keys.yaml\"");
    }
    let _ = writeln!(s, "\n[rate_limit]\nenabled = {}\n", r.rl());
    let _ = writeln!(s, "[server]\nhost = {}\nobservability_auth = {}", esc(r.grpc_host()), esc(&serde_name(&r.obs())));
    if let Some(h) = r.http_host() {
        let _ = writeln!(s, "http_host = {}", esc(h));
    }
    let _ = writeln!(s, "\n[server.tls]\nenabled = {}", r.tls());
    if r.tls() {
        let _ = writeln!(s, "cert_path = \"/nonexistent/verif/server.crt\"\nkey_path = \"/nonexistent/verif/server.key\"");
    }
    s
}

fn yaml_text(r: &Row) -> String {
    let mut s = String::new();
    let _ = writeln!(s, "environment:\n  type: {}", esc(&r.name));
    let _ = writeln!(s, "persistence:\n  fsync_policy: {}\n  snapshot_interval_mutations: {}\n  recovery_mode: {}\n  allow_fresh_start_on_recovery_failure: {}",
        esc(&serde_name(&r.fsync())), r.snap_val(), esc(&serde_name(&r.recovery())), r.fresh());
    let _ = writeln!(s, "cache:\n  strategy: {}", esc(&serde_name(&r.strategy())));
    let _ = writeln!(s, "auth:\n  enabled: {}", r.auth());
    if r.auth() {
        let _ = writeln!(s, "  api_keys_file: \"/nonexistent/verif/api_keys.yaml\"");
    }
    let _ = writeln!(s, "rate_limit:\n  enabled: {}", r.rl());
    let _ = writeln!(s, "server:\n  host: {}\n  observability_auth: {}", esc(r.grpc_host()), esc(&serde_name(&r.obs())));
    if let Some(h) = r.http_host() {
        let _ = writeln!(s, "  http_host: {}", esc(h));
    }
    let _ = writeln!(s, "  tls:\n    enabled: {}", r.tls());
    if r.tls() {
        let _ = writeln!(s, "    cert_path: \"/nonexistent/verif/server.crt\"\n    key_path: \"/nonexistent/verif/server.key\"");
    }
    s
}

fn env_pairs(r: &Row) -> Vec<(String, String)> {
    let mut v = vec![
        ("KYRODB__ENVIRONMENT__TYPE".to_string(), r.name.clone()),
        ("KYRODB__PERSISTENCE__FSYNC_POLICY".into(), serde_name(&r.fsync())),
        ("KYRODB__PERSISTENCE__SNAPSHOT_INTERVAL_MUTATIONS".into(), r.snap_val().to_string()),
        ("KYRODB__PERSISTENCE__RECOVERY_MODE".into(), serde_name(&r.recovery())),
        ("KYRODB__PERSISTENCE__ALLOW_FRESH_START_ON_RECOVERY_FAILURE".into(), r.fresh().to_string()),
        ("KYRODB__CACHE__STRATEGY".into(), serde_name(&r.strategy())),
        ("KYRODB__AUTH__ENABLED".into(), r.auth().to_string()),
        ("KYRODB__RATE_LIMIT__ENABLED".into(), r.rl().to_string()),
        ("KYRODB__SERVER__HOST".into(), r.grpc_host().to_string()),
        ("KYRODB__SERVER__OBSERVABILITY_AUTH".into(), serde_name(&r.obs())),
        ("KYRODB__SERVER__TLS__ENABLED".into(), r.tls().to_string()),
    ];
    if r.auth() {
        v.push(("KYRODB__AUTH__API_KEYS_FILE".into(), "/nonexistent/verif/api_keys.yaml".into()));
    }
    if let Some(h) = r.http_host() {
        v.push(("KYRODB__SERVER__HTTP_HOST".into(), h.to_string()));
    }
    if r.tls() {
        v.push(("KYRODB__SERVER__TLS__CERT_PATH".into(), "/nonexistent/verif/server.crt".into()));
        v.push(("KYRODB__SERVER__TLS__KEY_PATH".into(), "/nonexistent/verif/server.key".into()));
    }
    v
}

fn clear_kyrodb_env() {
    let keys: Vec<String> = std::env::vars_os().filter_map(|(k, _)| k.into_string().ok()).filter(|k| k.starts_with("KYRODB")).collect();
    for k in keys {
        std::env::remove_var(k);
    }
}

/// A "safe baseline" file whose every safety-relevant value is overridden by the environment variables
/// of the row (tests the priority chain file -> environment).
fn baseline_toml() -> String {
    let base = Row { name: "production".into(), co: [2, 1, 0, 1, 1, 1, 2, 0, 0, 1, 0], pick: 0 };
    toml_text(&base)
}

#[derive(Debug)]
struct LoadObs {
    accepted: bool,
    /// the loader failed before validation (parse / deserialise)
    loader_error: bool,
    message: String,
    /// for accepted loads: the loaded settings equal the row's
    fields_match: bool,
}

fn load_via(channel: &str, r: &Row, dir: &str) -> LoadObs {
    clear_kyrodb_env();
    let file: Option<String> = match channel {
        "toml" => {
            let p = format!("{}/row.toml", dir);
            std::fs::write(&p, toml_text(r)).unwrap();
            Some(p)
        }
        "yaml" => {
            let p = format!("{}/row.yaml", dir);
            std::fs::write(&p, yaml_text(r)).unwrap();
            Some(p)
        }
        "toml+env" => {
            let p = format!("{}/baseline.toml", dir);
            std::fs::write(&p, baseline_toml()).unwrap();
            Some(p)
        }
        _ => None,
    };
    if channel == "env" || channel == "toml+env" {
        for (k, v) in env_pairs(r) {
            std::env::set_var(k, v);
        }
    }
    let res = KyroDbConfig::load(file.as_deref());
    clear_kyrodb_env();
    match res {
        Ok(c) => {
            let m = c.persistence.fsync_policy == r.fsync()
                && (c.persistence.snapshot_interval_mutations == 0) == r.snap_zero()
                && c.persistence.recovery_mode == r.recovery()
                && c.persistence.allow_fresh_start_on_recovery_failure == r.fresh()
                && c.cache.strategy == r.strategy()
                && c.auth.enabled == r.auth()
                && c.rate_limit.enabled == r.rl()
                && c.server.observability_auth == r.obs()
                && c.server.tls.enabled == r.tls()
                && c.server.host.trim() == r.grpc_host().trim()
                && c.server.http_host.as_deref().map(|s| s.trim().to_string()) == r.http_host().map(|s| s.trim().to_string())
                && c.environment.environment_type.trim().to_ascii_lowercase() == r.name.trim().to_ascii_lowercase();
            LoadObs { accepted: true, loader_error: false, message: String::new(), fields_match: m }
        }
        Err(e) => {
            let msg = format!("{:#}", e);
            let loader_error = msg.starts_with("Failed to build config") || msg.starts_with("Failed to deserialize config") || msg.starts_with("Failed to serialize defaults");
            LoadObs { accepted: false, loader_error, message: msg, fields_match: true }
        }
    }
}

// ------------------------------------------------------------------------------------------------
// Coq output
// ------------------------------------------------------------------------------------------------
struct Ctors {
    fsync: BTreeMap<String, String>,
    recovery: BTreeMap<String, String>,
    strategy: BTreeMap<String, String>,
    obs: BTreeMap<String, String>,
    mismatch: Vec<String>,
}

fn load_ctors(guards: &Option<Value>) -> Ctors {
    let mut c = Ctors { fsync: BTreeMap::new(), recovery: BTreeMap::new(), strategy: BTreeMap::new(), obs: BTreeMap::new(), mismatch: vec![] };
    let defaults: [(&str, &[(&str, &str)]); 4] = [
        ("FsyncPolicy", &[("None", "FsNone"), ("DataOnly", "FsDataOnly"), ("Full", "FsFull")]),
        ("RecoveryMode", &[("Strict", "Strict"), ("BestEffort", "BestEffort")]),
        ("CacheStrategy", &[("Lru", "Lru"), ("Learned", "Learned"), ("AbTest", "AbTest")]),
        ("ObservabilityAuthMode", &[("Disabled", "ObsDisabled"), ("MetricsAndSlo", "ObsMetricsAndSlo"), ("All", "ObsAll")]),
    ];
    for (en, dflt) in defaults {
        let mut m = BTreeMap::new();
        match guards.as_ref().and_then(|g| g.get("enums")).and_then(|e| e.get(en)).and_then(|a| a.as_array()) {
            Some(arr) => {
                for it in arr {
                    m.insert(it["rust"].as_str().unwrap_or("").to_string(), it["coq"].as_str().unwrap_or("").to_string());
                }
                let mine: Vec<&str> = dflt.iter().map(|(r, _)| *r).collect();
                let theirs: Vec<&str> = m.keys().map(|s| s.as_str()).collect();
                let mut a = mine.clone();
                a.sort();
                if a != theirs {
                    c.mismatch.push(format!("{}: the driver enumerates {:?} but config.rs declares {:?}", en, mine, theirs));
                }
            }
            None => {
                for (r, q) in dflt {
                    m.insert(r.to_string(), q.to_string());
                }
            }
        }
        match en {
            "FsyncPolicy" => c.fsync = m,
            "RecoveryMode" => c.recovery = m,
            "CacheStrategy" => c.strategy = m,
            _ => c.obs = m,
        }
    }
    c
}

fn coq_name(s: &str) -> String {
    let parts: Vec<String> = s.chars().map(|c| (c as u32).to_string()).collect();
    format!("[{}]%N", parts.join("; "))
}

/// One row of a cases file: a single number  ((name_ix * PER_NAME + ix) * 2 + observed)  that the
/// header of the cases file decodes digit by digit (an independent implementation of `Row::from_index`).
fn coq_row(name_ix: usize, r: &Row, accepted: bool, _ct: &Ctors) -> String {
    format!("{}", (name_ix * PER_NAME + r.index()) * 2 + accepted as usize)
}

fn coq_row_readable(name_ix: usize, r: &Row, accepted: bool, ct: &Ctors) -> String {
    let g = |m: &BTreeMap<String, String>, k: String| m.get(&k).cloned().unwrap_or_else(|| format!("UNKNOWN_{}", k));
    format!(
        "R n{} {} {} {} {} {} {} {} {} {} {} {} {} {}",
        name_ix,
        g(&ct.fsync, format!("{:?}", r.fsync())),
        if r.snap_zero() { "SnapZero" } else { "SnapPositive" },
        g(&ct.recovery, format!("{:?}", r.recovery())),
        g(&ct.strategy, format!("{:?}", r.strategy())),
        r.auth(), r.rl(),
        g(&ct.obs, format!("{:?}", r.obs())),
        r.fresh(), r.tls(), r.grpc_loop(), r.http() != 0, r.http() == 1, accepted
    )
}

fn digit_fn(name: &str, ty: &str, ctors: Vec<String>) -> String {
    let mut s = format!("Definition {} (d : N) : {} := match d with", name, ty);
    for (i, c) in ctors.iter().enumerate() {
        if i + 1 == ctors.len() { let _ = write!(s, " | _ => {}", c); } else { let _ = write!(s, " | {} => {}", i, c); }
    }
    s.push_str(" end.\n");
    s
}

fn shard_text(names: &[String], body: &str, first: Option<(usize, &Row, bool)>, ct: &Ctors) -> String {
    let g = |m: &BTreeMap<String, String>, k: String| m.get(&k).cloned().unwrap_or_else(|| format!("UNKNOWN_{}", k));
    let mut s = String::new();
    s.push_str("From Coq Require Import List NArith Bool.\nFrom Kyro Require Import Model.RustStr gen.Config_gen.\nImport ListNotations.\nOpen Scope N_scope.\n");
    s.push_str("(* one row = the raw environment name, the safety-relevant settings, and the verdict OBSERVED on the real\n   KyroDbConfig::validate; R is true when the regenerated model agrees (all unrelated guards passing).\n   `bad` lists the positions (0-based, within this shard) of the rows that disagree. *)\n");
    s.push_str("Definition R (nm : str) (fs : fsync_t) (sn : snap_t) (rm : recovery_t) (st : cache_strategy_t) (au rl : bool)\n    (ob : obs_auth_t) (fr tl gl hs hl : bool) (observed : bool) : bool :=\n  Bool.eqb (validate_raw nm {| env := EnvOther; fsync := fs; snapshot_interval := sn; recovery := rm; strategy := st;\n    auth := au; rate_limit := rl; obs_auth := ob; fresh_start := fr; tls := tl; grpc_loopback := gl;\n    http_host_set := hs; http_loopback := hl |} all_opaque_true) observed.\n");
    for (i, n) in names.iter().enumerate() {
        let _ = writeln!(s, "Definition n{} : str := {}.", i, coq_name(n));
    }
    s.push_str(&digit_fn("name_of", "str", (0..names.len()).map(|i| format!("n{}", i)).collect()));
    s.push_str(&digit_fn("fs_of", "fsync_t", FSYNC.iter().map(|v| g(&ct.fsync, format!("{:?}", v))).collect()));
    s.push_str(&digit_fn("sn_of", "snap_t", vec!["SnapZero".into(), "SnapPositive".into()]));
    s.push_str(&digit_fn("rm_of", "recovery_t", RECOVERY.iter().map(|v| g(&ct.recovery, format!("{:?}", v))).collect()));
    s.push_str(&digit_fn("st_of", "cache_strategy_t", STRATEGY.iter().map(|v| g(&ct.strategy, format!("{:?}", v))).collect()));
    s.push_str(&digit_fn("ob_of", "obs_auth_t", OBS.iter().map(|v| g(&ct.obs, format!("{:?}", v))).collect()));
    s.push_str("(* code = ((name * 10368 + ix) * 2 + observed); ix is the mixed-radix number with digits, most significant first,\n   fsync(3) snapshot(2: 0 = zero) recovery(2) strategy(3) auth(2) rate_limit(2) obs_auth(3) fresh_start(2) tls(2)\n   grpc bind(2: 1 = loopback) http bind(3: 0 = unset, 1 = loopback, 2 = non-loopback) *)\n");
    s.push_str("Inductive row : Set := T (nm : str) (fs : fsync_t) (sn : snap_t) (rm : recovery_t) (st : cache_strategy_t) (au rl : bool)\n    (ob : obs_auth_t) (fr tl gl hs hl : bool) (observed : bool).\n");
    s.push_str("Definition decode (code : N) : row :=\n  let observed := N.odd code in let x := N.div2 code in\n  let http := x mod 3 in let x := x / 3 in\n  let gl := x mod 2 in let x := x / 2 in\n  let tl := x mod 2 in let x := x / 2 in\n  let fr := x mod 2 in let x := x / 2 in\n  let ob := x mod 3 in let x := x / 3 in\n  let rl := x mod 2 in let x := x / 2 in\n  let au := x mod 2 in let x := x / 2 in\n  let st := x mod 3 in let x := x / 3 in\n  let rm := x mod 2 in let x := x / 2 in\n  let sn := x mod 2 in let x := x / 2 in\n  let fs := x mod 3 in let nm := x / 3 in\n  T (name_of nm) (fs_of fs) (sn_of sn) (rm_of rm) (st_of st) (au =? 1) (rl =? 1) (ob_of ob) (fr =? 1) (tl =? 1) (gl =? 1)\n    (negb (http =? 0)) (http =? 1) observed.\nDefinition agrees (t : row) : bool := match t with T nm fs sn rm st au rl ob fr tl gl hs hl observed => R nm fs sn rm st au rl ob fr tl gl hs hl observed end.\n");
    if let Some((nix, r, acc)) = first {
        let rd = coq_row_readable(nix, r, acc, ct).replacen("R ", "T ", 1);
        let _ = writeln!(s, "(* the decoder is checked on the first row of the shard, written out by the driver *)");
        let _ = writeln!(s, "Goal decode {} = {}. Proof. vm_compute. reflexivity. Qed.", coq_row(nix, r, acc, ct), rd);
    }
    let _ = writeln!(s, "Definition codes : list N := [\n  {}\n].", body);
    s.push_str("Definition rows : list bool := map (fun c => agrees (decode c)) codes.\n");
    s.push_str("Fixpoint bad_from (i : N) (l : list bool) : list N :=\n  match l with [] => [] | b :: t => if b then bad_from (N.succ i) t else i :: bad_from (N.succ i) t end.\n");
    s.push_str("Definition bad : list N := bad_from 0%N rows.\n");
    s.push_str("Goal True. idtac \"@@bad\". Abort.\nEval vm_compute in bad.\nGoal True. idtac \"@@count\". Abort.\nEval vm_compute in (N.of_nat (length rows)).\n");
    s
}

// ------------------------------------------------------------------------------------------------
fn main() {
    let args: Vec<String> = std::env::args().collect();
    let mut out = String::from("/verif/.cache/run/C18");
    let mut n = 120usize;
    let mut replay: Option<String> = None;
    let mut guards_path = String::from("/verif/.cache/gen/Config_gen.json");
    let mut server_samples = 0usize;
    let mut variant_every = 60u64; // 1 = every name-variant row is also compared in coqc
    let mut i = 1;
    while i < args.len() {
        match args[i].as_str() {
            "--out" => { out = args[i + 1].clone(); i += 1 }
            "--n" => { n = args[i + 1].parse().unwrap(); i += 1 }
            "--replay" => { replay = Some(args[i + 1].clone()); i += 1 }
            "--guards" => { guards_path = args[i + 1].clone(); i += 1 }
            "--server-samples" => { server_samples = args[i + 1].parse().unwrap(); i += 1 }
            "--variant-every" => { variant_every = args[i + 1].parse::<u64>().unwrap().max(1); i += 1 }
            _ => {}
        }
        i += 1;
    }
    std::fs::create_dir_all(&out).unwrap();
    clear_kyrodb_env();
    let guards: Option<Value> = std::fs::read_to_string(&guards_path).ok().and_then(|s| serde_json::from_str(&s).ok()).filter(|v: &Value| v["ok"] == json!(true));
    let ct = load_ctors(&guards);
    // safety-guard message prefixes (from the translator's report of the CURRENT source)
    let mut safety_prefixes: Vec<(String, u64)> = vec![];
    let mut other_prefixes: Vec<(String, u64)> = vec![];
    if let Some(g) = &guards {
        for it in g["guards"].as_array().cloned().unwrap_or_default() {
            let p = it["message_prefix"].as_str().unwrap_or("").to_string();
            if p.is_empty() {
                continue;
            }
            if it["safety"] == json!(true) { safety_prefixes.push((p, it["line"].as_u64().unwrap_or(0))) } else { other_prefixes.push((p, it["line"].as_u64().unwrap_or(0))) }
        }
    }
    let classify = |msg: &str| -> (bool, u64) {
        // longest matching prefix wins
        let mut best: Option<(usize, bool, u64)> = None;
        for (p, l) in &safety_prefixes {
            if msg.starts_with(p.as_str()) && best.map_or(true, |b| p.len() > b.0) { best = Some((p.len(), true, *l)) }
        }
        for (p, l) in &other_prefixes {
            if msg.starts_with(p.as_str()) && best.map_or(true, |b| p.len() > b.0) { best = Some((p.len(), false, *l)) }
        }
        best.map_or((false, 0), |b| (b.1, b.2))
    };

    let mut rng = Rng::from_env();
    let mut names: Vec<String> = BASE_NAMES.iter().map(|s| s.to_string()).collect();
    names.extend(VARIANT_NAMES.iter().map(|s| s.to_string()));

    // ------------------------------------------------------------------ replay of one row
    if let Some(p) = &replay {
        let v: Value = serde_json::from_str(&std::fs::read_to_string(p).unwrap()).unwrap();
        let cv = if v.get("case").is_some() { v["case"].clone() } else { v };
        let row = match Row::from_json(&cv) {
            Some(r) => r,
            None => { eprintln!("c18: replay file holds no row (no-failing-input replay?)"); std::process::exit(3) }
        };
        let (acc, msg) = run_validate(&row);
        let mut fails = vec![];
        if let Some(why) = oracle(&row, acc) {
            fails.push(json!({"id": 0, "why": why, "case": row.to_json(), "channel": "in-process", "toml": toml_text(&row)}));
        }
        let mut chans = vec![];
        for ch in ["toml", "yaml", "env", "toml+env"] {
            let o = load_via(ch, &row, &out);
            if let Some(why) = oracle(&row, o.accepted) {
                fails.push(json!({"id": 0, "why": format!("{} (via {})", why, ch), "case": row.to_json(), "channel": ch, "toml": toml_text(&row)}));
            }
            chans.push(json!({"channel": ch, "accepted": o.accepted, "message": o.message}));
        }
        let names1 = vec![row.name.clone()];
        std::fs::write(format!("{}/cases_0.v", out), shard_text(&names1, &coq_row(0, &row, acc, &ct), Some((0, &row, acc)), &ct)).unwrap();
        let summary = json!({"cases": 1, "shards": 1, "replay": true, "oracle_failures": fails, "accepted": acc, "message": msg,
            "channels": chans, "samples": [row.to_json()], "nontrivial": 1, "enum_mismatch": ct.mismatch, "guards_json_ok": guards.is_some(),
            "channel_disagreements": [], "variant_rows": 0, "variant_metamorphic_failures": [], "histogram": {}, "server_rows": [],
            "shard_index": [[[0, 0, row.pick]]], "names": names1, "radix": RADIX.to_vec(), "per_name": PER_NAME, "rejections_unclassified": 0});
        std::fs::write(format!("{}/summary.json", out), serde_json::to_string_pretty(&summary).unwrap()).unwrap();
        std::fs::write(format!("{}/all_cases.json", out), serde_json::to_string(&json!([row.to_json()])).unwrap()).unwrap();
        println!("c18: replay accepted={} oracle_failures={}", acc, summary["oracle_failures"].as_array().unwrap().len());
        return;
    }

    // ------------------------------------------------------------------ the full matrix
    let mut oracle_fail: Vec<Value> = vec![];
    let mut hist_env: BTreeMap<String, (u64, u64)> = BTreeMap::new(); // name -> (accepted, rejected)
    let mut hist_guard: BTreeMap<String, u64> = BTreeMap::new();
    let mut verdicts: Vec<Vec<(bool, bool)>> = vec![]; // per name: (accepted, rejected-by-safety-guard)
    let mut unclassified = 0u64;
    let mut samples: Vec<Value> = vec![];
    let mut shards: Vec<String> = vec![];
    let mut cur = String::new();
    let mut cur_n = 0usize;
    let mut shard_index: Vec<Vec<[usize; 3]>> = vec![]; // per shard: (name_ix, ix, pick) of every row, in order
    let mut cur_index: Vec<[usize; 3]> = vec![];
    let shard_rows = 5184usize;
    let mut id = 0usize;
    let mut variant_meta_fail: Vec<Value> = vec![];
    let mut variant_coq: Vec<(usize, usize, Row, bool)> = vec![];
    let mut all_rejected_ids: Vec<(usize, usize)> = vec![]; // (name_ix, ix)
    for (name_ix, name) in names.iter().enumerate() {
        let is_base = name_ix < BASE_NAMES.len();
        let mut table = Vec::with_capacity(PER_NAME);
        // the canonical row a variant must agree with
        let canon = name.trim().to_ascii_lowercase();
        let canon_ix = BASE_NAMES.iter().position(|b| *b == canon);
        for ix in 0..PER_NAME {
            let row = Row::from_index(name, ix, ix + name_ix);
            debug_assert_eq!(row.index(), ix);
            let (acc, msg) = run_validate(&row);
            let (by_safety, line) = if acc { (false, 0) } else { classify(&msg) };
            if !acc && line == 0 {
                unclassified += 1;
            }
            let e = hist_env.entry(format!("{:?}", name)).or_insert((0, 0));
            if acc { e.0 += 1 } else { e.1 += 1 }
            if !acc {
                *hist_guard.entry(format!("L{} {}", line, msg.chars().take(48).collect::<String>())).or_insert(0) += 1;
                all_rejected_ids.push((name_ix, ix));
            }
            table.push((acc, by_safety));
            if let Some(why) = oracle(&row, acc) {
                if oracle_fail.len() < 20 {
                    oracle_fail.push(json!({"id": id, "why": why, "case": row.to_json(), "channel": "in-process", "toml": toml_text(&row)}));
                }
            }
            if is_base {
                if cur_n == shard_rows {
                    shards.push(std::mem::take(&mut cur));
                    shard_index.push(std::mem::take(&mut cur_index));
                    cur_n = 0;
                }
                if cur_n > 0 {
                    cur.push_str(if cur_n % 16 == 0 { ";\n  " } else { "; " });
                }
                cur.push_str(&coq_row(name_ix, &row, acc, &ct));
                cur_index.push([name_ix, ix, row.pick]);
                cur_n += 1;
                if (ix % 3571 == 17) && samples.len() < 6 {
                    let mut j = row.to_json();
                    j["observed_accept"] = json!(acc);
                    j["message"] = json!(msg.chars().take(90).collect::<String>());
                    samples.push(j);
                }
            } else {
                // metamorphic: a variant's verdict equals the verdict of its canonical name (or of an invalid name)
                let expect = match canon_ix {
                    Some(ci) => verdicts[ci][ix].0,
                    None => false,
                };
                if acc != expect && variant_meta_fail.len() < 10 {
                    variant_meta_fail.push(json!({"case": row.to_json(), "accepted": acc, "canonical_name": canon, "canonical_accepted": expect}));
                }
                if rng.below(variant_every) == 0 {
                    variant_coq.push((id, name_ix, row.clone(), acc));
                }
            }
            id += 1;
        }
        verdicts.push(table);
    }
    if cur_n > 0 {
        shards.push(std::mem::take(&mut cur));
        shard_index.push(std::mem::take(&mut cur_index));
    }
    let base_rows = BASE_NAMES.len() * PER_NAME;
    // sampled variant rows, evaluated in Coq through env_of_raw on the raw string
    for chunk in variant_coq.chunks(shard_rows) {
        let body: Vec<String> = chunk.iter().map(|(_, nix, r, a)| coq_row(*nix, r, *a, &ct)).collect();
        shards.push(body.join("; "));
        shard_index.push(chunk.iter().map(|(_, nix, r, _)| [*nix, r.index(), r.pick]).collect());
    }
    for (k, body) in shards.iter().enumerate() {
        let f = shard_index[k][0];
        let r0 = Row::from_index(&names[f[0]], f[1], f[2]);
        let (a0, _) = run_validate(&r0);
        std::fs::write(format!("{}/cases_{}.v", out, k), shard_text(&names, body, Some((f[0], &r0, a0)), &ct)).unwrap();
    }

    // ---- distinct non-trivial rows of the base matrix: an ENVIRONMENT-DEPENDENT safety guard decides.
    // Measured semantically on the observed verdicts (rows are distinct by construction):
    //   * a production/pilot row that is rejected although the same settings are accepted under
    //     "benchmark" (only the C18 guards distinguish the two), or
    //   * a production/pilot row that is accepted and has a single-setting neighbour that is rejected
    //     while that neighbour is accepted under "benchmark" (the acceptance hinges on a C18 guard).
    let bench = BASE_NAMES.iter().position(|b| *b == "benchmark").unwrap();
    let mut nontrivial = 0u64;
    let mut nontrivial_rejected = 0u64;
    let mut rejected_by_safety_msg = 0u64;
    for name_ix in 0..BASE_NAMES.len() {
        for ix in 0..PER_NAME {
            if !verdicts[name_ix][ix].0 && verdicts[name_ix][ix].1 {
                rejected_by_safety_msg += 1;
            }
        }
        if BASE_NAMES[name_ix] != "production" && BASE_NAMES[name_ix] != "pilot" {
            continue;
        }
        for ix in 0..PER_NAME {
            let (acc, _) = verdicts[name_ix][ix];
            if !acc {
                if verdicts[bench][ix].0 { nontrivial += 1; nontrivial_rejected += 1 }
                continue;
            }
            let row = Row::from_index("", ix, 0);
            let mut hinge = false;
            'outer: for k in 0..11 {
                for v in 0..RADIX[k] {
                    if v == row.co[k] { continue }
                    let mut r2 = row.clone();
                    r2.co[k] = v;
                    let j = r2.index();
                    if !verdicts[name_ix][j].0 && verdicts[bench][j].0 { hinge = true; break 'outer }
                }
            }
            if hinge { nontrivial += 1 }
        }
    }

    // ---- channels: TOML / YAML / environment / TOML+environment through KyroDbConfig::load
    let mut channel_disagree: Vec<Value> = vec![];
    let mut channel_hist: BTreeMap<String, u64> = BTreeMap::new();
    let mut channel_runs = 0u64;
    let chan_dir = format!("{}/chan", out);
    std::fs::create_dir_all(&chan_dir).unwrap();
    for k in 0..n {
        // half of the samples use variant names, and samples are biased towards accepted / near-accepted rows
        let mut r = rng.fork(k as u64);
        let name_ix = if r.chance(1, 2) { r.below(3) as usize } else { r.below(names.len() as u64) as usize };
        let mut ix = r.below(PER_NAME as u64) as usize;
        if r.chance(2, 3) {
            // start from a safe row and perturb up to two coordinates
            let mut row = Row::from_index("", 0, 0);
            row.co = [1 + r.below(2) as usize, 1, 0, 1, 1, 1, 1 + r.below(2) as usize, 0, r.below(2) as usize, r.below(2) as usize, r.below(3) as usize];
            for _ in 0..r.below(3) {
                let c = r.below(11) as usize;
                row.co[c] = r.below(RADIX[c] as u64) as usize;
            }
            ix = row.index();
        }
        let mut row = Row::from_index(&names[name_ix], ix, r.next_u64() as usize >> 8);
        // file channels carry i64 integers: keep the positive snapshot interval below 2^63
        if row.snap_val() > i64::MAX as u64 { row.pick = 0 }
        let (acc, msg) = run_validate(&row);
        for ch in ["toml", "yaml", "env", "toml+env"] {
            let o = load_via(ch, &row, &chan_dir);
            channel_runs += 1;
            *channel_hist.entry(format!("{}:{}", ch, if o.accepted { "accepted" } else if o.loader_error { "loader-error" } else { "rejected" })).or_insert(0) += 1;
            if let Some(why) = oracle(&row, o.accepted) {
                if oracle_fail.len() < 20 {
                    oracle_fail.push(json!({"id": k, "why": format!("{} (via {})", why, ch), "case": row.to_json(), "channel": ch, "toml": toml_text(&row)}));
                }
            }
            if o.accepted != acc || (o.accepted && !o.fields_match) {
                if channel_disagree.len() < 10 {
                    channel_disagree.push(json!({"channel": ch, "case": row.to_json(), "in_process_accepted": acc, "in_process_message": msg,
                        "loaded_accepted": o.accepted, "loader_error": o.loader_error, "fields_match": o.fields_match, "message": o.message}));
                }
            }
        }
    }

    // ---- rows for the real server binary (thorough tier; run by the check if a prebuilt binary exists)
    let mut server_rows = vec![];
    if server_samples > 0 {
        let sdir = format!("{}/server", out);
        std::fs::create_dir_all(&sdir).unwrap();
        for k in 0..server_samples {
            let mut r = rng.fork(1_000_000 + k as u64);
            let (name_ix, ix) = all_rejected_ids[r.below(all_rejected_ids.len() as u64) as usize];
            let mut row = Row::from_index(&names[name_ix], ix, r.next_u64() as usize >> 8);
            if row.snap_val() > i64::MAX as u64 { row.pick = 0 }
            let (acc, msg) = run_validate(&row);
            if acc { continue }
            let p = format!("{}/row_{}.toml", sdir, k);
            let mut text = toml_text(&row);
            // a data directory inside the scratch area, in case a broken server would try to open it
            text = text.replace("[persistence]\n", &format!("[persistence]\ndata_dir = \"{}/data_{}\"\n", sdir, k));
            std::fs::write(&p, text).unwrap();
            server_rows.push(json!({"toml": p, "data_dir": format!("{}/data_{}", sdir, k), "case": row.to_json(), "message": msg}));
        }
    }

    let hist_env_j: BTreeMap<String, Value> = hist_env.iter().map(|(k, v)| (k.clone(), json!({"accepted": v.0, "rejected": v.1}))).collect();
    let mut guard_top: Vec<(String, u64)> = hist_guard.into_iter().collect();
    guard_top.sort_by(|a, b| b.1.cmp(&a.1));
    let summary = json!({
        "cases": base_rows,
        "rows_total_on_real_validate": id,
        "variant_rows": id - base_rows,
        "variant_rows_in_coq": variant_coq.len(),
        "shards": shards.len(),
        "oracle_failures": oracle_fail,
        "nontrivial": nontrivial,
        "nontrivial_rejected": nontrivial_rejected,
        "rejected_with_safety_guard_message": rejected_by_safety_msg,
        "shard_index": shard_index.iter().map(|v| v.iter().map(|t| t.to_vec()).collect::<Vec<_>>()).collect::<Vec<_>>(),
        "names": names, "radix": RADIX.to_vec(), "per_name": PER_NAME,
        "rejections_unclassified": unclassified,
        "variant_metamorphic_failures": variant_meta_fail,
        "channel_disagreements": channel_disagree,
        "channel_runs": channel_runs,
        "enum_mismatch": ct.mismatch,
        "guards_json_ok": guards.is_some(),
        "histogram": {"by_environment_name": hist_env_j, "by_first_failing_guard": guard_top.into_iter().map(|(k, v)| json!([k, v])).collect::<Vec<_>>(), "channels": channel_hist},
        "samples": samples,
        "server_rows": server_rows,
    });
    std::fs::write(format!("{}/summary.json", out), serde_json::to_string_pretty(&summary).unwrap()).unwrap();
    println!("c18: {} rows on the real validate ({} in the Coq-compared base matrix, {} shards), {} oracle failures, {} channel runs", id, base_rows, shards.len(), summary["oracle_failures"].as_array().unwrap().len(), channel_runs);
}
