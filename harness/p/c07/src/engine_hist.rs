//! Stream E: engine-level histories on a small TieredEngine (Euclidean, tiny collections, so the
//! HNSW search is exhaustive).  Observation: SearchExecutionPath::CacheHit from
//! knn_search_with_ef_detailed_scoped.  Oracle: a cache hit must be an answer a fresh, uncached
//! search (ef override => the cache is bypassed) could give NOW, modulo ties.
use kvh::rng::Rng;
use kyrodb_engine::config::DistanceMetric;
use kyrodb_engine::{LruCacheStrategy, QueryHashCache, SearchExecutionPath, TieredEngine, TieredEngineConfig};
use serde_json::{json, Value};
use std::collections::{BTreeMap, HashMap};
use std::sync::Arc;

#[derive(Clone, Debug)]
pub enum EOp {
    Search { scope: u64, q: Vec<f32>, k: usize },
    /// knn_search_batch_with_ef_detailed_scoped without ef override (cache consulted per query, misses searched as a group)
    BatchSearch { scope: u64, qs: Vec<Vec<f32>>, k: usize },
    Insert { id: u64, v: Vec<f32> },
    Delete { id: u64 },
    UpdateMeta { id: u64 },
    Bulk { docs: Vec<(u64, Vec<f32>)> },
    Flush,
    /// FAULT (not an API call): the canonical cold-tier record of `id` is lost while its hot-tier mirror
    /// survives (`engine.cold_tier().delete(id)`); the next drain repairs it from the mirror (drift repair)
    ColdLoss { id: u64 },
}

#[derive(Clone, Debug)]
pub struct Hist {
    pub dim: usize,
    pub cap: usize,
    pub ops: Vec<EOp>,
}

pub struct RunOut {
    pub trace: Vec<Value>,
    pub failure: Option<String>,
    pub hits: u64,
    pub hits_after_write: u64,
    pub searches: u64,
    pub ref_mismatch: u64,
    pub cold_losses: u64,
    pub repairs: u64,
}

fn meta(tag: &str) -> HashMap<String, String> {
    let mut m = HashMap::new();
    m.insert("t".to_string(), tag.to_string());
    m
}

/// Is `got` an answer a fresh, uncached search could give NOW (modulo ties)?  Returns (why not, reference ids != live ids).
fn judge(engine: &TieredEngine, live: &BTreeMap<u64, Vec<f32>>, scope: u64, q: &[f32], k: usize, got: &[(u64, f32)]) -> (Option<String>, bool) {
    let nlive = live.len();
    // An answer identical to what an uncached search with the SAME k returns right now is not stale, whatever
    // the index's recall is (tombstones of overwritten versions crowding a small candidate list is C06 / C16
    // territory, not the cache's).
    // (an explicit ef equal to the configured default bypasses the cache and searches with exactly the parameters
    // of a default search; 512 is the exhaustive setting)
    let served: Vec<(u64, u32)> = got.iter().map(|(i, d)| (*i, d.to_bits())).collect();
    for ef in [TieredEngineConfig::default().hnsw_ef_search, 512] {
        if let Ok((same_k, _)) = engine.knn_search_with_ef_detailed_scoped(q, k, Some(ef), scope) {
            let fresh: Vec<(u64, u32)> = same_k.iter().map(|x| (x.doc_id, x.distance.to_bits())).collect();
            if fresh == served {
                return (None, false);
            }
        }
    }
    let reference: Vec<(u64, f32)> = if nlive == 0 {
        vec![]
    } else {
        engine
            .knn_search_with_ef_detailed_scoped(q, nlive, Some(512), scope)
            .map(|(r, _)| r.iter().map(|x| (x.doc_id, x.distance)).collect())
            .unwrap_or_default()
    };
    let mut ref_ids: Vec<u64> = reference.iter().map(|p| p.0).collect();
    ref_ids.sort();
    let mism = ref_ids != live.keys().cloned().collect::<Vec<_>>();
    let now: HashMap<u64, f32> = reference.iter().cloned().collect();
    if got.len() != k.min(nlive) {
        return (Some(format!("served {} results, a fresh search returns min(k={}, live={})", got.len(), k, nlive)), mism);
    }
    let mut worst = f32::NEG_INFINITY;
    for (id, d) in got {
        match (live.get(id), now.get(id)) {
            (None, _) => return (Some(format!("served doc {} which was deleted", id)), mism),
            (Some(_), Some(dn)) if dn.to_bits() != d.to_bits() => {
                return (Some(format!("served doc {} with distance {} but its current distance is {}", id, d, dn)), mism)
            }
            _ => {}
        }
        worst = worst.max(*d);
    }
    for (id, dn) in &reference {
        if !got.iter().any(|p| p.0 == *id) && *dn < worst {
            return (Some(format!("omitted live doc {} at distance {} strictly inside the served boundary {}", id, dn, worst)), mism);
        }
    }
    (None, mism)
}

pub fn run(h: &Hist) -> RunOut {
    kvh::panicrec::set_input(hist_json(h).to_string());
    let qc = Arc::new(QueryHashCache::new(h.cap, 1.0));
    let engine = TieredEngine::new(
        Box::new(LruCacheStrategy::new(16)),
        Arc::clone(&qc),
        vec![],
        vec![],
        TieredEngineConfig {
            hot_tier_max_size: 6,
            hot_tier_hard_limit: 12,
            hnsw_max_elements: 256,
            embedding_dimension: h.dim,
            hnsw_distance: DistanceMetric::Euclidean,
            ..Default::default()
        },
    )
    .expect("engine");
    let mut live: BTreeMap<u64, Vec<f32>> = BTreeMap::new();
    let mut lost: BTreeMap<u64, Vec<f32>> = BTreeMap::new();
    let mut out = RunOut { trace: vec![], failure: None, hits: 0, hits_after_write: 0, searches: 0, ref_mismatch: 0, cold_losses: 0, repairs: 0 };
    let mut writes = 0u64;
    let mut last_search: HashMap<(u64, Vec<u32>), u64> = HashMap::new();
    for (i, op) in h.ops.iter().enumerate() {
        match op {
            EOp::Insert { id, v } => {
                let r = engine.insert(*id, v.clone(), meta("a"));
                if r.is_ok() {
                    live.insert(*id, v.clone());
                    lost.remove(id);
                }
                writes += 1;
                out.trace.push(json!({"insert": id, "ok": r.is_ok()}));
            }
            EOp::Delete { id } => {
                let r = engine.delete(*id);
                if matches!(r, Ok(true)) {
                    live.remove(id);
                    lost.remove(id);
                }
                writes += 1;
                out.trace.push(json!({"delete": id, "res": r.ok()}));
            }
            EOp::UpdateMeta { id } => {
                let r = engine.update_metadata(*id, meta("b"), true);
                writes += 1;
                out.trace.push(json!({"update_metadata": id, "res": r.ok()}));
            }
            EOp::Bulk { docs } => {
                let d: Vec<_> = docs.iter().map(|(id, v)| (*id, v.clone(), meta("c"))).collect();
                let r = engine.bulk_load_cold_tier(d);
                if r.is_ok() {
                    for (id, v) in docs {
                        live.insert(*id, v.clone());
                        lost.remove(id);
                    }
                }
                writes += 1;
                out.trace.push(json!({"bulk_load": docs.len(), "ok": r.is_ok()}));
            }
            EOp::Flush => {
                let r = engine.flush_hot_tier(true);
                // drift repair: a lost canonical record is restored from its surviving mirror
                let mut repaired = vec![];
                for (id, v) in lost.clone() {
                    if engine.cold_tier().exists(id) {
                        if !live.contains_key(&id) {
                            live.insert(id, v);
                            repaired.push(id);
                        }
                        lost.remove(&id);
                    }
                }
                if !repaired.is_empty() {
                    writes += 1;
                    out.repairs += repaired.len() as u64;
                }
                out.trace.push(json!({"flush": r.ok(), "repaired_from_mirror": repaired}));
            }
            EOp::ColdLoss { id } => {
                let r = engine.cold_tier().delete(*id);
                if matches!(r, Ok(true)) {
                    if let Some(v) = live.remove(id) {
                        lost.insert(*id, v);
                    }
                    out.cold_losses += 1;
                    writes += 1;
                }
                out.trace.push(json!({"cold_loss": id, "res": r.ok()}));
            }
            EOp::BatchSearch { scope, qs, k } => {
                out.searches += qs.len() as u64;
                match engine.knn_search_batch_with_ef_detailed_scoped(qs, *k, None, *scope) {
                    Err(e) => out.trace.push(json!({"batch_search_error": e.to_string()})),
                    Ok(rs) => {
                        let mut tr = vec![];
                        for (j, (res, path)) in rs.iter().enumerate() {
                            let got: Vec<(u64, f32)> = res.iter().map(|r| (r.doc_id, r.distance)).collect();
                            tr.push(json!({"q": qs[j], "path": format!("{:?}", path), "results": got}));
                            if *path == SearchExecutionPath::CacheHit {
                                out.hits += 1;
                            }
                            // every answer of the batch, cached or computed, must be one a fresh search could give
                            let (why, mism) = judge(&engine, &live, *scope, &qs[j], *k, &got);
                            if mism {
                                out.ref_mismatch += 1;
                            }
                            if let Some(w) = why {
                                out.trace.push(json!({"batch_search": {"scope": scope, "k": k}, "answers": tr}));
                                out.failure = Some(format!("op {}: batch search answer #{} ({:?}) for scope {} q {:?} k {}: {}", i, j, path, scope, qs[j], k, w));
                                return out;
                            }
                            let key = (*scope, qs[j].iter().map(|x| x.to_bits()).collect::<Vec<u32>>());
                            last_search.insert(key, writes);
                        }
                        out.trace.push(json!({"batch_search": {"scope": scope, "k": k}, "answers": tr}));
                    }
                }
            }
            EOp::Search { scope, q, k } => {
                out.searches += 1;
                let r = engine.knn_search_with_ef_detailed_scoped(q, *k, None, *scope);
                let (res, path) = match r {
                    Ok(x) => x,
                    Err(e) => {
                        out.trace.push(json!({"search_error": e.to_string()}));
                        continue;
                    }
                };
                let key = (*scope, q.iter().map(|x| x.to_bits()).collect::<Vec<u32>>());
                let got: Vec<(u64, f32)> = res.iter().map(|r| (r.doc_id, r.distance)).collect();
                out.trace.push(json!({"search": {"scope": scope, "q": q, "k": k}, "path": format!("{:?}", path), "results": got}));
                if path == SearchExecutionPath::CacheHit {
                    out.hits += 1;
                    if last_search.get(&key).map(|w| *w < writes).unwrap_or(false) {
                        out.hits_after_write += 1;
                    }
                    let (why, mism) = judge(&engine, &live, *scope, q, *k, &got);
                    if mism {
                        out.ref_mismatch += 1;
                    }
                    if let Some(w) = why {
                        out.failure = Some(format!("op {}: cache hit for scope {} q {:?} k {}: {}", i, scope, q, k, w));
                        return out;
                    }
                }
                last_search.insert(key, writes);
            }
        }
    }
    out
}

fn gv(r: &mut Rng, dim: usize, scale: f32) -> Vec<f32> {
    (0..dim).map(|_| (r.range(0, 14) as f32 - 7.0) * scale / 8.0).collect()
}

pub fn gen(r: &mut Rng) -> Hist {
    let dim = r.range(2, 3) as usize;
    let cap = *r.pick(&[1usize, 2, 4, 4]);
    // scale 8: components up to 7 (outside the unit box, where the old key saturated)
    let scale = *r.pick(&[1.0f32, 8.0, 8.0]);
    let mut queries: Vec<Vec<f32>> = (0..r.range(2, 4)).map(|_| gv(r, dim, scale)).collect();
    let mut vecs: Vec<Vec<f32>> = (0..r.range(4, 8)).map(|_| gv(r, dim, scale)).collect();
    if dim == 2 && scale > 1.0 && r.chance(1, 2) {
        queries.push(vec![5.0, 3.0]);
        queries.push(vec![2.0, 7.0]);
        vecs.push(vec![5.0, 3.0]);
        vecs.push(vec![2.0, 7.0]);
    }
    let n = r.range(15, 60) as usize;
    let mut ops = vec![];
    for _ in 0..n {
        match r.below(20) {
            0..=6 => ops.push(EOp::Search { scope: r.below(2), q: r.pick(&queries).clone(), k: r.range(1, 3) as usize }),
            7..=8 => {
                // a batch in which some queries are usually cached already and others are not
                let n = r.range(2, 4) as usize;
                let qs: Vec<Vec<f32>> = (0..n).map(|_| r.pick(&queries).clone()).collect();
                ops.push(EOp::BatchSearch { scope: r.below(2), qs, k: r.range(1, 3) as usize })
            }
            9..=13 => {
                // inserts near a query as often as far away
                let v = if r.chance(1, 3) { r.pick(&queries).clone() } else { r.pick(&vecs).clone() };
                ops.push(EOp::Insert { id: r.range(1, 8), v })
            }
            14..=16 => ops.push(EOp::Delete { id: r.range(1, 8) }),
            17 => ops.push(EOp::UpdateMeta { id: r.range(1, 8) }),
            18 => ops.push(EOp::Bulk { docs: (0..r.range(1, 3)).map(|_| (r.range(1, 10), r.pick(&vecs).clone())).collect() }),
            _ => {
                if r.chance(1, 2) {
                    ops.push(EOp::Flush)
                } else {
                    // drift: a freshly written (hence mirrored) document right at a query loses its canonical
                    // record; the query is searched (and cached) without it; a drain repairs the record from the
                    // mirror; the same query is searched again
                    let id = r.range(1, 8);
                    let q = r.pick(&queries).clone();
                    let k = r.range(1, 3) as usize;
                    if r.chance(2, 3) {
                        ops.push(EOp::Insert { id, v: q.clone() });
                    }
                    ops.push(EOp::ColdLoss { id });
                    ops.push(EOp::Search { scope: 0, q: q.clone(), k });
                    if r.chance(3, 4) {
                        ops.push(EOp::Flush);
                        ops.push(EOp::Search { scope: 0, q, k });
                    }
                }
            }
        }
    }
    Hist { dim, cap, ops }
}

pub fn hist_json(h: &Hist) -> Value {
    let ops: Vec<Value> = h.ops.iter().map(|o| match o {
        EOp::Search { scope, q, k } => json!({"op": "search", "scope": scope, "q": q, "k": k}),
        EOp::BatchSearch { scope, qs, k } => json!({"op": "batch_search", "scope": scope, "qs": qs, "k": k}),
        EOp::Insert { id, v } => json!({"op": "insert", "id": id, "v": v}),
        EOp::Delete { id } => json!({"op": "delete", "id": id}),
        EOp::UpdateMeta { id } => json!({"op": "update_metadata", "id": id}),
        EOp::Bulk { docs } => json!({"op": "bulk_load", "docs": docs}),
        EOp::Flush => json!({"op": "flush"}),
        EOp::ColdLoss { id } => json!({"op": "cold_loss", "id": id}),
    }).collect();
    json!({"stream": "E", "dim": h.dim, "capacity": h.cap, "metric": "euclidean", "threshold": 1.0, "ops": ops})
}

fn fv(v: &Value) -> Vec<f32> {
    v.as_array().unwrap().iter().map(|x| x.as_f64().unwrap() as f32).collect()
}

pub fn hist_from_json(v: &Value) -> Hist {
    let ops = v["ops"].as_array().unwrap().iter().map(|o| match o["op"].as_str().unwrap() {
        "batch_search" => EOp::BatchSearch { scope: o["scope"].as_u64().unwrap(), qs: o["qs"].as_array().unwrap().iter().map(fv).collect(), k: o["k"].as_u64().unwrap() as usize },
        "search" => EOp::Search { scope: o["scope"].as_u64().unwrap(), q: fv(&o["q"]), k: o["k"].as_u64().unwrap() as usize },
        "insert" => EOp::Insert { id: o["id"].as_u64().unwrap(), v: fv(&o["v"]) },
        "delete" => EOp::Delete { id: o["id"].as_u64().unwrap() },
        "update_metadata" => EOp::UpdateMeta { id: o["id"].as_u64().unwrap() },
        "cold_loss" => EOp::ColdLoss { id: o["id"].as_u64().unwrap() },
        "bulk_load" => EOp::Bulk { docs: o["docs"].as_array().unwrap().iter().map(|d| (d[0].as_u64().unwrap(), fv(&d[1]))).collect() },
        _ => EOp::Flush,
    }).collect();
    Hist { dim: v["dim"].as_u64().unwrap() as usize, cap: v["capacity"].as_u64().unwrap() as usize, ops }
}

fn shrink(h: &Hist) -> Hist {
    let mut cur = h.clone();
    loop {
        let mut improved = false;
        let mut i = 0;
        while i < cur.ops.len() {
            let mut t = cur.clone();
            t.ops.remove(i);
            if run(&t).failure.is_some() {
                cur = t;
                improved = true;
            } else {
                i += 1;
            }
        }
        if !improved {
            return cur;
        }
    }
}

pub fn run_stream(n: usize, rng: &mut Rng) -> Value {
    let mut fails = vec![];
    let (mut hits, mut haw, mut searches, mut mism, mut nontrivial) = (0u64, 0u64, 0u64, 0u64, 0u64);
    let (mut losses, mut repairs) = (0u64, 0u64);
    let mut sample = Value::Null;
    for k in 0..n {
        let mut r = rng.fork(k as u64);
        let h = gen(&mut r);
        let o = run(&h);
        hits += o.hits;
        haw += o.hits_after_write;
        searches += o.searches;
        mism += o.ref_mismatch;
        losses += o.cold_losses;
        repairs += o.repairs;
        if o.hits_after_write > 0 {
            nontrivial += 1;
        }
        if k == 0 {
            sample = json!({"history": hist_json(&h), "trace": o.trace});
        }
        if let Some(w) = o.failure {
            if fails.len() < 3 {
                let s = shrink(&h);
                let so = run(&s);
                fails.push(json!({"why": so.failure.unwrap_or(w), "case": hist_json(&s), "trace": so.trace, "unshrunk_ops": h.ops.len()}));
            }
        }
    }
    json!({"histories": n, "searches": searches, "cache_hits": hits, "cache_hits_after_intervening_write": haw,
           "histories_with_hit_after_write": nontrivial, "reference_live_set_mismatch": mism,
           "injected_cold_record_losses": losses, "drift_repairs_from_mirror": repairs,
           "oracle_failures": fails, "sample": sample})
}

pub fn replay(v: &Value) -> Value {
    let h = hist_from_json(v);
    let o = run(&h);
    json!({"histories": 1, "oracle_failures": match o.failure { Some(w) => vec![json!({"why": w, "case": hist_json(&h), "trace": o.trace})], None => vec![] },
           "cache_hits": o.hits, "searches": o.searches})
}

/// Engine-level form of the regression probe for C07-quantised-key-saturation: Euclidean metric
/// (queries are not normalised), two documents outside the unit box; before /repo 6ba2bfe the second
/// search was answered from the first one's entry.  Expected now: no oracle failure.
pub fn saturation_probe_engine() -> Value {
    let h = Hist {
        dim: 2,
        cap: 4,
        ops: vec![
            EOp::Insert { id: 1, v: vec![5.0, 3.0] },
            EOp::Insert { id: 2, v: vec![2.0, 7.0] },
            EOp::Search { scope: 0, q: vec![5.0, 3.0], k: 1 },
            EOp::Search { scope: 0, q: vec![2.0, 7.0], k: 1 },
        ],
    };
    let o = run(&h);
    json!({"history": hist_json(&h), "trace": o.trace, "oracle": o.failure, "cache_hits": o.hits})
}
