//! Stream B: differential of insert_can_affect_cached_boundary through the H5 hook
//! `QueryHashCache::verif_insert_can_affect_cached_boundary` against `can_affect` of Model/QCache.v.
//!  * grid rows  : components k/16, boundary k/8, comparisons that depend on a sqrt rounding are
//!                 excluded (moved to the near rows) -> must agree EXACTLY with the model;
//!  * near rows  : arbitrary f32 vectors with the boundary placed within a few ulp of the code's own
//!                 bound; coqc evaluates the exact rational decision and the exact distance
//!                 comparison, and reports where the code says "cannot affect" although the exact
//!                 distance is <= worst (unsound direction), with and without a stated tolerance.
use crate::{metric_lit, metric_of, qlit, vec_lit, HEADER};
use kvh::rng::Rng;
use kyrodb_engine::QueryHashCache;
use serde_json::{json, Value};

#[derive(Clone, Debug)]
pub struct Row {
    pub m: u8,
    pub p: usize,
    pub q: Vec<f32>,
    pub x: Vec<f32>,
    pub w: f32,
    pub near: bool,
}

fn code(r: &Row) -> bool {
    QueryHashCache::verif_insert_can_affect_cached_boundary(&r.q, &r.x, r.p, r.w, metric_of(r.m))
}

fn bound_f64(r: &Row) -> (f64, bool) {
    // value compared against the threshold by the code, in f64, and whether a sqrt is involved
    let p = r.p.min(r.q.len()).min(r.x.len());
    let pd: f64 = r.q[..p].iter().zip(&r.x[..p]).map(|(a, b)| *a as f64 * *b as f64).sum();
    let ss = |v: &[f32]| -> f64 { v.iter().map(|a| (*a as f64).powi(2)).sum() };
    let (tq, tx) = (ss(&r.q[p..]).sqrt(), ss(&r.x[p..]).sqrt());
    match r.m {
        0 => {
            let l2: f64 = r.q[..p].iter().zip(&r.x[..p]).map(|(a, b)| (*a as f64 - *b as f64).powi(2)).sum();
            (l2.sqrt(), false)
        }
        1 => {
            let d = ss(&r.q).sqrt() * ss(&r.x).sqrt();
            if d <= 0.0 {
                (f64::NAN, false)
            } else {
                (1.0 - ((pd + tq * tx) / d).clamp(-1.0, 1.0), true)
            }
        }
        _ => (1.0 - (pd + tq * tx), p < r.q.len()),
    }
}

fn gen_grid(r: &mut Rng) -> Row {
    let dim = if r.chance(1, 5) { r.range(33, 48) as usize } else { r.range(1, 8) as usize };
    let gv = |r: &mut Rng, n: usize| -> Vec<f32> {
        if r.chance(1, 12) {
            return vec![0.0; n];
        }
        (0..n).map(|_| (r.range(0, 30) as f32 - 15.0) / 16.0).collect()
    };
    let q = gv(r, dim);
    let x = match r.below(6) {
        0 => q.clone(),
        1 => q.iter().map(|a| -a).collect(),
        2 if dim > 32 => {
            // same prefix direction, tail proportional (Cauchy-Schwarz tight on the tail)
            let mut v = gv(r, dim);
            for i in 32..dim {
                v[i] = q[i] / 2.0;
            }
            v
        }
        3 if r.chance(1, 4) => gv(r, dim + 1), // length mismatch -> true
        _ => gv(r, dim),
    };
    let p = match r.below(6) {
        0 => r.below(dim as u64 + 4) as usize,
        1 => 0,
        _ => 32.min(x.len()),
    };
    let w = (r.range(0, 24) as f32 - 4.0) / 8.0;
    Row { m: r.below(3) as u8, p, q, x, w, near: false }
}

fn rand_f32(r: &mut Rng) -> f32 {
    // 24 significant bits in [-1, 1)
    ((r.below(1 << 25) as f64) / (1u64 << 24) as f64 - 1.0) as f32
}

fn gen_near(r: &mut Rng) -> Row {
    let dim = match r.below(20) {
        0..=5 => r.range(1, 4) as usize,
        6..=10 => r.range(5, 16) as usize,
        11..=13 => r.range(17, 32) as usize,
        14..=17 => r.range(33, 40) as usize,
        _ => r.range(41, 64) as usize,
    };
    let scale = *r.pick(&[1.0f32, 1.0, 0.25, 3.0]);
    let q: Vec<f32> = (0..dim).map(|_| rand_f32(r) * scale).collect();
    let mut x: Vec<f32> = match r.below(4) {
        0 => q.iter().map(|a| a * 0.5 + rand_f32(r) * 1e-3).collect(),
        1 => q.iter().map(|a| -a + rand_f32(r) * 0.1).collect(),
        _ => (0..dim).map(|_| rand_f32(r) * scale).collect(),
    };
    let mut tight = false;
    if dim > 32 && r.chance(1, 2) {
        // tail parallel to the query's tail: the tail bound is (nearly) attained
        let c = *r.pick(&[0.5f32, 1.0, 2.0]);
        for i in 32..dim {
            x[i] = q[i] * c;
        }
        tight = true;
    }
    let m = r.below(3) as u8;
    let p = if r.chance(1, 8) { r.below(dim as u64 + 2) as usize } else { 32.min(dim) };
    tight = tight && p == 32;
    let mut row = Row { m, p, q, x, w: 0.0, near: true };
    let (b, _) = bound_f64(&row);
    let b = if b.is_finite() { b } else { 0.5 };
    if tight && m != 0 && r.chance(1, 2) {
        // "margin" rows: with parallel tails the Cauchy-Schwarz bound is attained, so the exact
        // distance equals the bound b.  Place the boundary a relative 1e-3 ABOVE it (hundreds of
        // times the worst f32 accumulation error over <= 64 terms): a sound pre-filter must answer
        // "can affect"; any under-estimate of the similarity larger than that margin (a dropped
        // coordinate, a wrong tail split) answers "cannot" on a document well inside the boundary.
        let mass: f64 = row.q.iter().zip(&row.x).map(|(a, c)| (*a as f64 * *c as f64).abs()).sum();
        let unit = if m == 1 { 1.0 } else { b.abs().max(1.0).max(mass) };
        row.w = (b + *r.pick(&[1e-3f64, 3e-3, 1e-2]) * unit) as f32;
        return row;
    }
    let j = r.range(0, 16) as f64 - 8.0;
    row.w = (b + j * 6e-8 * b.abs().max(1.0)) as f32;
    row
}

fn row_coq(id: usize, r: &Row, c: bool) -> String {
    let tol = 1e-6f32 * r.w.abs().max(1.0);
    format!(
        "({}%N, {}, {}%nat, {}, {}, {}, {}, {})",
        id, metric_lit(r.m), r.p, vec_lit(&r.q), vec_lit(&r.x), qlit(r.w), qlit(r.w - tol), c
    )
}

fn row_json(r: &Row, c: bool) -> Value {
    json!({"stream": "B", "metric": metric_lit(r.m), "m": r.m, "prefix_dims": r.p, "q": r.q, "x": r.x, "w": r.w,
           "q_bits": r.q.iter().map(|v| v.to_bits()).collect::<Vec<u32>>(),
           "x_bits": r.x.iter().map(|v| v.to_bits()).collect::<Vec<u32>>(),
           "w_bits": r.w.to_bits(), "near": r.near, "code_can_affect": c})
}

fn shard(kind: &str, body: &str) -> String {
    // columns: id, metric, p, q, x, w, w - tol, code.  One pass per row; `if` (not andb) keeps the
    // exact distance comparisons lazy under vm_compute's call-by-value.
    format!(
        "{}Definition rows : list (N * metric * nat * vec * vec * Q * Q * bool) := [\n  {}\n].\n\
Definition evalrow (c : N * metric * nat * vec * vec * Q * Q * bool) : N * bool * bool * bool * bool :=\n\
  match c with (id, m, p, q, x, w, wt, b) =>\n\
    let ca := can_affect m p q x w in\n\
    let le := if b then false else if Nat.eqb (length q) (length x) then dist_le m q x w else false in\n\
    let let_ := if le then dist_le m q x wt else false in\n\
    (id, negb (Bool.eqb ca b), le, let_, negb ca) end.\n\
Definition ev := Eval vm_compute in (map evalrow rows).\n\
Definition differ := map (fun r => match r with (id, _, _, _, _) => id end) (filter (fun r => match r with (_, d, _, _, _) => d end) ev).\n\
Definition unsound := map (fun r => match r with (id, _, _, _, _) => id end) (filter (fun r => match r with (_, _, u, _, _) => u end) ev).\n\
Definition unsound_tol := map (fun r => match r with (id, _, _, _, _) => id end) (filter (fun r => match r with (_, _, _, u, _) => u end) ev).\n\
Definition model_false := length (filter (fun r => match r with (_, _, _, _, f) => f end) ev).\n\
Goal True. idtac \"@@kind {}\". Abort.\n\
Goal True. idtac \"@@differ\". Abort.\nEval vm_compute in differ.\n\
Goal True. idtac \"@@unsound\". Abort.\nEval vm_compute in unsound.\n\
Goal True. idtac \"@@unsoundtol\". Abort.\nEval vm_compute in unsound_tol.\n\
Goal True. idtac \"@@modelfalse\". Abort.\nEval vm_compute in (N.of_nat model_false).\n\
Goal True. idtac \"@@count\". Abort.\nEval vm_compute in (N.of_nat (length rows)).\n",
        HEADER, body, kind
    )
}

pub fn run_stream(n: usize, rng: &mut Rng) -> (Vec<String>, Value, Value) {
    let mut grid: Vec<(Row, bool)> = vec![];
    let mut near: Vec<(Row, bool)> = vec![];
    let mut moved = 0u64;
    let mut hist = std::collections::HashMap::<String, u64>::new();
    for k in 0..n {
        let mut r = rng.fork(k as u64);
        if k % 5 < 3 {
            let mut row = gen_grid(&mut r);
            let (b, sq) = bound_f64(&row);
            if sq && row.q.len() == row.x.len() && b.is_finite() && (b - row.w as f64).abs() < 1e-5 {
                row.near = true; // a sqrt-dependent tie: measured, not required to agree
                moved += 1;
            }
            let c = code(&row);
            *hist.entry(format!("{}_{}_{}", if row.near { "near" } else { "grid" }, metric_lit(row.m), if c { "can" } else { "cannot" })).or_insert(0) += 1;
            if row.near { near.push((row, c)) } else { grid.push((row, c)) }
        } else {
            let row = gen_near(&mut r);
            let c = code(&row);
            *hist.entry(format!("near_{}_{}", metric_lit(row.m), if c { "can" } else { "cannot" })).or_insert(0) += 1;
            near.push((row, c));
        }
    }
    let mut shards = vec![];
    let mut all = vec![];
    let mut id = 0usize;
    for (kind, rows) in [("grid", &grid), ("near", &near)] {
        for chunk in rows.chunks(500) {
            let body: Vec<String> = chunk.iter().map(|(r, c)| {
                let s = row_coq(id, r, *c);
                all.push(row_json(r, *c));
                id += 1;
                s
            }).collect();
            shards.push(shard(kind, &body.join(";\n  ")));
        }
    }
    let s = json!({"grid_rows": grid.len(), "near_rows": near.len(), "grid_ties_moved_to_near": moved, "histogram": hist});
    (shards, s, json!(all))
}

pub fn replay(v: &Value) -> Value {
    let ub = |k: &str| -> Vec<f32> { v[k].as_array().unwrap().iter().map(|x| f32::from_bits(x.as_u64().unwrap() as u32)).collect() };
    let row = Row {
        m: v["m"].as_u64().unwrap() as u8,
        p: v["prefix_dims"].as_u64().unwrap() as usize,
        q: ub("q_bits"),
        x: ub("x_bits"),
        w: f32::from_bits(v["w_bits"].as_u64().unwrap() as u32),
        near: true,
    };
    let c = code(&row);
    json!({"replayed": row_json(&row, c), "code_can_affect": c, "f64_bound": bound_f64(&row).0})
}
