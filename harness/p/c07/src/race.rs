//! Stream R: one searcher thread against one writer on a real TieredEngine WITH persistence and
//! FsyncPolicy::Always (the WAL fsync widens the window between the cold-tier write and the
//! query-cache invalidation).  Clause checked, over observations only: "a result computed before a
//! write is never stored after that write's invalidation" — after the write is acknowledged and
//! the searcher has been joined, a cache-enabled search (twice, to observe a cache hit) must equal a
//! fresh uncached search.  A round that differs is a STALE round (class C07-store-after-invalidate).
//! Schedule dependent: a replay re-runs the whole stream with the same seed and round count.
//!
//! Also the deterministic ORDER tie: an insert that the cold tier refuses (wrong dimension) must
//! leave the invalidation generation untouched — the code invalidates only AFTER the cold write
//! (the model's EInsert: collection first, then invalidate_doc, invalidate_for_insert).
use kvh::rng::Rng;
use kyrodb_engine::config::DistanceMetric;
use kyrodb_engine::{FsyncPolicy, LruCacheStrategy, QueryHashCache, SearchExecutionPath, TieredEngine, TieredEngineConfig};
use serde_json::{json, Value};
use std::collections::HashMap;
use std::sync::atomic::{AtomicBool, AtomicU64, Ordering};
use std::sync::Arc;

#[derive(Clone, Copy, Debug, PartialEq)]
enum Variant {
    InsertExact,     // new id, vector == query
    InsertCloser,    // new id, strictly closer than every document
    OverwriteCloser, // existing far id overwritten with vector == query
    OverwriteAway,   // current nearest id overwritten with a far vector
    Delete,          // current nearest id deleted
}

fn engine(dir: &str, dim: usize, cap: usize) -> (Arc<TieredEngine>, Arc<QueryHashCache>) {
    let qc = Arc::new(QueryHashCache::new(cap, 1.0));
    let e = TieredEngine::new(
        Box::new(LruCacheStrategy::new(16)),
        Arc::clone(&qc),
        vec![],
        vec![],
        TieredEngineConfig {
            hot_tier_max_size: 64,
            hot_tier_hard_limit: 128,
            hnsw_max_elements: 256,
            embedding_dimension: dim,
            hnsw_distance: DistanceMetric::Euclidean,
            data_dir: Some(dir.to_string()),
            fsync_policy: FsyncPolicy::Always,
            ..Default::default()
        },
    )
    .expect("engine with persistence");
    (Arc::new(e), qc)
}

fn l2sq(a: &[f32], b: &[f32]) -> i64 {
    // grid k/8: exact in integers of 1/64
    a.iter().zip(b).map(|(x, y)| { let d = ((x - y) * 8.0) as i64; d * d }).sum()
}

fn meta() -> HashMap<String, String> {
    HashMap::new()
}

struct RoundOut {
    params: Value,
    stale: Option<String>,
    searches: u64,
    hit_observed: bool,
}

fn round(dir: &str, r: &mut Rng, idx: usize) -> RoundOut {
    let dim = r.range(2, 4) as usize;
    let k = r.range(1, 2) as usize;
    let variant = *r.pick(&[Variant::InsertExact, Variant::InsertExact, Variant::InsertCloser, Variant::OverwriteCloser, Variant::OverwriteAway, Variant::Delete]);
    let prewarm = r.chance(2, 3);
    let delay_us = *r.pick(&[0u64, 0, 20, 100, 400]);
    // query and base documents on the grid k/8 with pairwise distinct distances to the query
    let gv = |r: &mut Rng| -> Vec<f32> { (0..dim).map(|_| (r.range(0, 48) as f32 - 24.0) / 8.0).collect() };
    let q = gv(r);
    let mut docs: Vec<(u64, Vec<f32>)> = vec![];
    let mut tries = 0;
    while docs.len() < 4 && tries < 1000 {
        tries += 1;
        let v = gv(r);
        let d = l2sq(&q, &v);
        if d >= 64 && docs.iter().all(|(_, w)| l2sq(&q, w) != d) {
            docs.push((docs.len() as u64 + 1, v));
        }
    }
    docs.sort_by_key(|(_, v)| l2sq(&q, v));
    let nearest = docs[0].0;
    let farthest = docs[docs.len() - 1].0;
    let (wid, wvec): (u64, Option<Vec<f32>>) = match variant {
        Variant::InsertExact => (100, Some(q.clone())),
        Variant::InsertCloser => {
            let mut v = q.clone();
            v[0] += 0.125; // distance 1/8 < 1 <= every base document
            (100, Some(v))
        }
        Variant::OverwriteCloser => (farthest, Some(q.clone())),
        Variant::OverwriteAway => {
            let mut v = q.clone();
            v[0] += 40.0;
            (nearest, Some(v))
        }
        Variant::Delete => (nearest, None),
    };
    let params = json!({"round": idx, "dim": dim, "k": k, "variant": format!("{:?}", variant), "prewarm": prewarm,
                        "writer_delay_us": delay_us, "query": q, "docs": docs, "write_id": wid, "write_vector": wvec});
    let (eng, _qc) = engine(dir, dim, 4);
    for (id, v) in &docs {
        eng.insert(*id, v.clone(), meta()).expect("base insert");
    }
    if prewarm {
        let _ = eng.knn_search_with_ef_detailed_scoped(&q, k, None, 0);
    }
    let stop = Arc::new(AtomicBool::new(false));
    let started = Arc::new(AtomicBool::new(false));
    let count = Arc::new(AtomicU64::new(0));
    let th = {
        let (eng, stop, started, count, q) = (Arc::clone(&eng), Arc::clone(&stop), Arc::clone(&started), Arc::clone(&count), q.clone());
        std::thread::spawn(move || {
            while !stop.load(Ordering::Acquire) {
                let _ = eng.knn_search_with_ef_detailed_scoped(&q, k, None, 0);
                count.fetch_add(1, Ordering::Relaxed);
                started.store(true, Ordering::Release);
            }
        })
    };
    while !started.load(Ordering::Acquire) {
        std::hint::spin_loop();
    }
    if delay_us > 0 {
        std::thread::sleep(std::time::Duration::from_micros(delay_us));
    }
    let acked = match &wvec {
        Some(v) => eng.insert(wid, v.clone(), meta()).is_ok(),
        None => matches!(eng.delete(wid), Ok(true)),
    };
    stop.store(true, Ordering::Release);
    th.join().unwrap();
    let searches = count.load(Ordering::Relaxed);
    let get = |ef: Option<usize>| -> (Vec<(u64, u32)>, SearchExecutionPath) {
        let (res, path) = eng.knn_search_with_ef_detailed_scoped(&q, k, ef, 0).expect("search");
        (res.iter().map(|x| (x.doc_id, x.distance.to_bits())).collect(), path)
    };
    let (f1, p1) = get(None);
    let (f2, p2) = get(None);
    let (fresh, _) = get(Some(512));
    let mut stale = None;
    if !acked {
        stale = Some("the write was not acknowledged".to_string());
    } else if f1 != fresh || f2 != fresh {
        let show = |v: &Vec<(u64, u32)>| -> Vec<(u64, f32)> { v.iter().map(|(i, b)| (*i, f32::from_bits(*b))).collect() };
        stale = Some(format!(
            "after the acknowledged {:?} of id {} the cache-enabled search returned {:?} ({:?}) then {:?} ({:?}) but a fresh uncached search returns {:?}",
            variant, wid, show(&f1), p1, show(&f2), p2, show(&fresh)
        ));
    } else if variant == Variant::Delete && f1.iter().any(|p| p.0 == wid) {
        stale = Some(format!("deleted id {} still served", wid));
    }
    drop(eng);
    RoundOut { params, stale, searches, hit_observed: p2 == SearchExecutionPath::CacheHit }
}

/// deterministic tie of the ORDER "cold write, then invalidate"
fn order_probe(dir: &str) -> Value {
    let (eng, qc) = engine(dir, 2, 4);
    eng.insert(1, vec![1.0, 0.0], meta()).expect("insert");
    let _ = eng.knn_search_with_ef_detailed_scoped(&[0.5, 0.0], 1, None, 0);
    let (g0, l0) = (qc.invalidation_generation(), qc.len());
    let refused = eng.insert(2, vec![0.5, 0.0, 0.0], meta()).is_err(); // wrong dimension: the cold tier refuses before its WAL append
    let (g1, l1) = (qc.invalidation_generation(), qc.len());
    let absent = matches!(eng.delete(77), Ok(false));
    let (g2, l2) = (qc.invalidation_generation(), qc.len());
    let ok_insert = eng.insert(3, vec![0.5, 0.0], meta()).is_ok();
    let (g3, l3) = (qc.invalidation_generation(), qc.len());
    json!({"refused_insert_rejected": refused, "generation_before": g0, "generation_after_refused_insert": g1,
           "delete_of_absent_id_false": absent, "generation_after_absent_delete": g2,
           "generation_after_accepted_insert": g3, "accepted_insert_ok": ok_insert,
           "cache_len": [l0, l1, l2, l3],
           "ok": refused && absent && ok_insert && g1 == g0 && g2 == g0 && l1 == l0 && l2 == l0 && g3 == g0 + 2 && l3 == 0})
}

pub fn run_stream(out: &str, rounds: usize, seed: u64) -> Value {
    let base = format!("{}/race", out);
    let mut rng = Rng::new(seed ^ 0xC07_5707E);
    let mut stale = vec![];
    let (mut total_searches, mut min_searches, mut hits) = (0u64, u64::MAX, 0u64);
    let mut by_variant: HashMap<String, u64> = HashMap::new();
    for i in 0..rounds {
        let dir = format!("{}_{}", base, i);
        let _ = std::fs::remove_dir_all(&dir);
        std::fs::create_dir_all(&dir).unwrap();
        let mut r = rng.fork(i as u64);
        let o = round(&dir, &mut r, i);
        let _ = std::fs::remove_dir_all(&dir);
        total_searches += o.searches;
        min_searches = min_searches.min(o.searches);
        if o.hit_observed {
            hits += 1;
        }
        *by_variant.entry(o.params["variant"].as_str().unwrap().to_string()).or_insert(0) += 1;
        if let Some(w) = o.stale {
            stale.push(json!({"why": w, "round": o.params, "concurrent_searches": o.searches}));
        }
    }
    let dir = format!("{}_order", base);
    let _ = std::fs::remove_dir_all(&dir);
    std::fs::create_dir_all(&dir).unwrap();
    let order = order_probe(&dir);
    let _ = std::fs::remove_dir_all(&dir);
    json!({"rounds": rounds, "seed": seed, "stale_rounds": stale.len(), "stale": stale.iter().take(3).collect::<Vec<_>>(),
           "concurrent_searches_total": total_searches,
           "concurrent_searches_per_round_mean": if rounds > 0 { total_searches / rounds as u64 } else { 0 },
           "concurrent_searches_per_round_min": if rounds > 0 { min_searches } else { 0 },
           "rounds_with_final_cache_hit": hits, "variants": by_variant, "order_probe": order})
}
