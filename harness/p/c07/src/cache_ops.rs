//! Stream A: op sequences directly on the public QueryHashCache, compared with Model/QCache.v.
//! Vectors live on dyadic grids (components k/16, |k| <= 15) so every f32 sum is exact and the
//! rational model must agree exactly; pools whose similarity / boundary comparisons would depend on
//! the rounding of sqrt or of the division ("fragile") are regenerated and counted.
use crate::{metric_lit, metric_of, qlit, results_lit, vec_lit, HEADER};
use kvh::rng::Rng;
use kyrodb_engine::{QueryHashCache, SearchResult};
use serde_json::{json, Value};
use std::collections::HashMap;
use std::fmt::Write as _;

#[derive(Clone, Debug)]
pub enum Op {
    Get { scope: u64, q: Vec<f32>, k: usize },
    Insert { scope: u64, q: Vec<f32>, rs: Vec<(u64, f32)>, kreq: usize },
    InsertIfGen { scope: u64, q: Vec<f32>, rs: Vec<(u64, f32)>, kreq: usize, back: u64 },
    InvDoc(u64),
    InvInsert(Vec<f32>, u8),
    Clear,
    Len,
    Gen,
}

#[derive(Clone, Debug, PartialEq)]
pub enum Obs {
    Get(Option<Vec<(u64, f32)>>),
    /// evicted key, as (one) vector previously inserted with that hash; `Err` = unknown hash
    Evict(Option<Result<Vec<f32>, u64>>),
    Bool(bool),
    Nat(usize),
    Gen(u64),
    Unit,
}

#[derive(Clone, Debug)]
pub struct Case {
    pub cap: usize,
    pub thr: f32,
    pub scan: Option<usize>,
    pub ops: Vec<Op>,
}

fn to_sr(rs: &[(u64, f32)]) -> Vec<SearchResult> {
    rs.iter().map(|(i, d)| SearchResult { doc_id: *i, distance: *d }).collect()
}
fn from_sr(rs: &[SearchResult]) -> Vec<(u64, f32)> {
    rs.iter().map(|r| (r.doc_id, r.distance)).collect()
}

pub fn run_impl(c: &Case) -> Vec<Obs> {
    kvh::panicrec::set_input_debug(c);
    let mut cache = QueryHashCache::new(c.cap, c.thr);
    if let Some(l) = c.scan {
        cache.set_similarity_scan_limit(l);
    }
    let mut by_hash: HashMap<u64, Vec<f32>> = HashMap::new();
    let mut out = vec![];
    for op in &c.ops {
        match op {
            Op::Get { scope, q, k } => out.push(Obs::Get(cache.get_scoped(*scope, q, *k).map(|r| from_sr(&r)))),
            Op::Insert { scope, q, rs, kreq } => {
                by_hash.entry(QueryHashCache::verif_hash_embedding(q)).or_insert_with(|| q.clone());
                let ev = cache.insert_with_k_scoped(*scope, q.clone(), to_sr(rs), *kreq);
                out.push(Obs::Evict(ev.map(|h| by_hash.get(&h).cloned().ok_or(h))));
            }
            Op::InsertIfGen { scope, q, rs, kreq, back } => {
                by_hash.entry(QueryHashCache::verif_hash_embedding(q)).or_insert_with(|| q.clone());
                let g = cache.invalidation_generation().saturating_sub(*back);
                out.push(Obs::Bool(cache.insert_with_k_scoped_if_generation(*scope, q.clone(), to_sr(rs), *kreq, g)));
            }
            Op::InvDoc(id) => out.push(Obs::Nat(cache.invalidate_doc(*id))),
            Op::InvInsert(x, m) => out.push(Obs::Nat(cache.invalidate_for_insert(x, metric_of(*m)))),
            Op::Clear => {
                cache.clear();
                out.push(Obs::Unit)
            }
            Op::Len => out.push(Obs::Nat(cache.len())),
            Op::Gen => out.push(Obs::Gen(cache.invalidation_generation())),
        }
    }
    out
}

// ---------------------------------------------------------------------------------------------
// direct property oracle over implementation observations only
// ---------------------------------------------------------------------------------------------

fn f64dist(q: &[f32], x: &[f32], m: u8) -> f64 {
    let dot: f64 = q.iter().zip(x).map(|(a, b)| *a as f64 * *b as f64).sum();
    match m {
        0 => q.iter().zip(x).map(|(a, b)| (*a as f64 - *b as f64).powi(2)).sum::<f64>().sqrt(),
        1 => {
            let na: f64 = q.iter().map(|a| (*a as f64).powi(2)).sum();
            let nb: f64 = x.iter().map(|a| (*a as f64).powi(2)).sum();
            if na <= 0.0 || nb <= 0.0 {
                1.0
            } else {
                1.0 - dot / (na.sqrt() * nb.sqrt())
            }
        }
        _ => 1.0 - dot,
    }
}

/// What was stored and not yet invalidated, according to the harness' own log.
struct Stored {
    scope: u64,
    q: Vec<f32>,
    rs: Vec<(u64, f32)>,
    kreq: usize,
    /// ids invalidated (invalidate_doc) after this store
    dead_ids: Vec<u64>,
    /// inserts (vector, metric) announced after this store
    later_inserts: Vec<(Vec<f32>, u8)>,
    cleared: bool,
}

pub fn oracle(c: &Case, obs: &[Obs]) -> Option<String> {
    let mut log: Vec<Stored> = vec![];
    let mut gen_count = 0u64; // number of invalidation calls so far = invalidation_generation
    for (i, (op, ob)) in c.ops.iter().zip(obs.iter()).enumerate() {
        if matches!(op, Op::InvDoc(_) | Op::InvInsert(..) | Op::Clear) {
            gen_count += 1;
        }
        match (op, ob) {
            (Op::InsertIfGen { scope, q, rs, kreq, back }, Obs::Bool(true)) if *back > 0 && gen_count == 0 => {
                log.push(Stored { scope: *scope, q: q.clone(), rs: rs.clone(), kreq: (*kreq).max(rs.len()), dead_ids: vec![], later_inserts: vec![], cleared: false });
            }
            (Op::Insert { scope, q, rs, kreq }, _) | (Op::InsertIfGen { scope, q, rs, kreq, back: 0 }, Obs::Bool(true)) => {
                log.push(Stored { scope: *scope, q: q.clone(), rs: rs.clone(), kreq: (*kreq).max(rs.len()), dead_ids: vec![], later_inserts: vec![], cleared: false });
            }
            (Op::InsertIfGen { back, .. }, Obs::Bool(true)) if *back > 0 && gen_count > 0 => {
                return Some(format!("op {}: conditional store with a stale generation (current-{}) was accepted", i, back));
            }
            (Op::InvDoc(id), _) => {
                for s in log.iter_mut() {
                    s.dead_ids.push(*id)
                }
            }
            (Op::InvInsert(x, m), _) => {
                for s in log.iter_mut() {
                    s.later_inserts.push((x.clone(), *m))
                }
            }
            (Op::Clear, _) => {
                for s in log.iter_mut() {
                    s.cleared = true
                }
            }
            (Op::Len, Obs::Nat(n)) => {
                if c.cap >= 1 && *n > c.cap {
                    return Some(format!("op {}: len {} exceeds capacity {}", i, n, c.cap));
                }
            }
            (Op::Get { scope, q, k }, Obs::Get(Some(r))) => {
                // (1) scope and k: the served list is the k-prefix of something stored under the
                //     same scope with requested_k >= k
                let cands: Vec<&Stored> = log
                    .iter()
                    .filter(|s| s.scope == *scope && s.kreq >= *k && s.rs[..(*k).min(s.rs.len())] == r[..])
                    .collect();
                if cands.is_empty() {
                    let foreign = log.iter().any(|s| s.scope != *scope && s.rs[..(*k).min(s.rs.len())] == r[..]);
                    return Some(format!(
                        "op {}: get_scoped(scope {}, k {}) served {:?}, which is not the k-prefix of any entry stored under that scope with requested_k >= k{}",
                        i, scope, k, r, if foreign { " (it matches an entry of ANOTHER scope)" } else { "" }
                    ));
                }
                // (2) staleness: every candidate source must be un-invalidated
                let fresh = cands.iter().any(|s| {
                    !s.cleared
                        && !s.rs.iter().any(|(id, _)| s.dead_ids.contains(id))
                        && !s.later_inserts.iter().any(|(x, m)| {
                            if x.len() != s.q.len() || s.rs.len() < s.kreq || s.rs.is_empty() {
                                return true;
                            }
                            let worst = s.rs.iter().map(|p| p.1).fold(f32::NEG_INFINITY, f32::max) as f64;
                            f64dist(&s.q, x, *m) < worst - 1e-6
                        })
                });
                if !fresh {
                    return Some(format!(
                        "op {}: get_scoped(scope {}, q {:?}, k {}) served {:?} although every stored source of that list was invalidated (deleted id, closer insert, short list at insert, or clear) before",
                        i, scope, q, k, r
                    ));
                }
            }
            _ => {}
        }
    }
    None
}

/// delta-debugging on the op list: smallest prefix-closed subsequence that still fails the oracle
pub fn shrink(c: &Case) -> Case {
    let mut cur = c.clone();
    loop {
        let mut improved = false;
        let mut i = 0;
        while i < cur.ops.len() {
            let mut t = cur.clone();
            t.ops.remove(i);
            let o = run_impl(&t);
            if oracle(&t, &o).is_some() {
                cur = t;
                improved = true;
            } else {
                i += 1;
            }
        }
        if !improved {
            return cur;
        }
    }
}

// ---------------------------------------------------------------------------------------------
// JSON
// ---------------------------------------------------------------------------------------------

fn bits(v: &[f32]) -> Value {
    json!(v.iter().map(|x| x.to_bits()).collect::<Vec<u32>>())
}
fn unbits(v: &Value) -> Vec<f32> {
    v.as_array().unwrap().iter().map(|x| f32::from_bits(x.as_u64().unwrap() as u32)).collect()
}
fn rs_json(rs: &[(u64, f32)]) -> Value {
    json!(rs.iter().map(|(i, d)| json!([i, d.to_bits()])).collect::<Vec<_>>())
}
fn rs_unjson(v: &Value) -> Vec<(u64, f32)> {
    v.as_array().unwrap().iter().map(|p| (p[0].as_u64().unwrap(), f32::from_bits(p[1].as_u64().unwrap() as u32))).collect()
}

pub fn case_json(c: &Case, obs: &[Obs]) -> Value {
    let ops: Vec<Value> = c.ops.iter().map(|o| match o {
        Op::Get { scope, q, k } => json!({"op": "get_scoped", "scope": scope, "q": q, "q_bits": bits(q), "k": k}),
        Op::Insert { scope, q, rs, kreq } => json!({"op": "insert_with_k_scoped", "scope": scope, "q": q, "q_bits": bits(q), "results": rs_json(rs), "results_h": rs, "kreq": kreq}),
        Op::InsertIfGen { scope, q, rs, kreq, back } => json!({"op": "insert_with_k_scoped_if_generation", "scope": scope, "q": q, "q_bits": bits(q), "results": rs_json(rs), "results_h": rs, "kreq": kreq, "generation_back": back}),
        Op::InvDoc(id) => json!({"op": "invalidate_doc", "id": id}),
        Op::InvInsert(x, m) => json!({"op": "invalidate_for_insert", "x": x, "x_bits": bits(x), "metric": metric_lit(*m), "m": m}),
        Op::Clear => json!({"op": "clear"}),
        Op::Len => json!({"op": "len"}),
        Op::Gen => json!({"op": "invalidation_generation"}),
    }).collect();
    let ob: Vec<Value> = obs.iter().map(|o| match o {
        Obs::Get(r) => json!({"get": r}),
        Obs::Evict(e) => json!({"evicted": match e { None => Value::Null, Some(Ok(v)) => json!(v), Some(Err(h)) => json!(format!("unknown hash {}", h)) }}),
        Obs::Bool(b) => json!(b),
        Obs::Nat(n) => json!(n),
        Obs::Gen(g) => json!({"generation": g}),
        Obs::Unit => Value::Null,
    }).collect();
    json!({"stream": "A", "capacity": c.cap, "threshold": c.thr, "threshold_bits": c.thr.to_bits(), "scan_limit": c.scan, "ops": ops, "obs": ob})
}

pub fn case_from_json(v: &Value) -> Case {
    let ops = v["ops"].as_array().unwrap().iter().map(|o| {
        match o["op"].as_str().unwrap() {
            "get_scoped" => Op::Get { scope: o["scope"].as_u64().unwrap(), q: unbits(&o["q_bits"]), k: o["k"].as_u64().unwrap() as usize },
            "insert_with_k_scoped" => Op::Insert { scope: o["scope"].as_u64().unwrap(), q: unbits(&o["q_bits"]), rs: rs_unjson(&o["results"]), kreq: o["kreq"].as_u64().unwrap() as usize },
            "insert_with_k_scoped_if_generation" => Op::InsertIfGen { scope: o["scope"].as_u64().unwrap(), q: unbits(&o["q_bits"]), rs: rs_unjson(&o["results"]), kreq: o["kreq"].as_u64().unwrap() as usize, back: o["generation_back"].as_u64().unwrap() },
            "invalidate_doc" => Op::InvDoc(o["id"].as_u64().unwrap()),
            "invalidate_for_insert" => Op::InvInsert(unbits(&o["x_bits"]), o["m"].as_u64().unwrap() as u8),
            "clear" => Op::Clear,
            "len" => Op::Len,
            _ => Op::Gen,
        }
    }).collect();
    Case {
        cap: v["capacity"].as_u64().unwrap() as usize,
        thr: f32::from_bits(v["threshold_bits"].as_u64().unwrap() as u32),
        scan: v["scan_limit"].as_u64().map(|x| x as usize),
        ops,
    }
}

// ---------------------------------------------------------------------------------------------
// generation
// ---------------------------------------------------------------------------------------------

const GRID: f32 = 16.0;

fn grid_vec(r: &mut Rng, dim: usize) -> Vec<i32> {
    match r.below(8) {
        0 => {
            // axis vector
            let mut v = vec![0i32; dim];
            v[r.below(dim as u64) as usize] = *r.pick(&[1, 4, 8, 15, -8]);
            v
        }
        1 => vec![0i32; dim], // zero vector (degenerate norms)
        _ => (0..dim).map(|_| r.range(0, 30) as i32 - 15).collect(),
    }
}
/// grid vector k * scale / 16 (scale 1: inside the unit box; scale 8: components up to 7.5)
fn to_f32(v: &[i32], scale: i32) -> Vec<f32> {
    v.iter().map(|k| (*k * scale) as f32 / GRID).collect()
}

fn sim_f64(q: &[f32], a: &[f32]) -> f64 {
    1.0 - f64dist(q, a, 1)
}
/// replica of simd::cosine_similarity_f32 for inputs whose dot / squared norms are exact in f32
fn sim_f32(q: &[f32], a: &[f32]) -> f32 {
    let (mut d, mut na, mut nb) = (0f32, 0f32, 0f32);
    for (x, y) in q.iter().zip(a) {
        d += x * y;
        na += x * x;
        nb += y * y;
    }
    if na <= 0.0 || nb <= 0.0 {
        return 0.0;
    }
    (d / (na.sqrt() * nb.sqrt())).clamp(-1.0, 1.0)
}
fn exact_sim_equal(q: &[i32], a: &[i32], b: &[i32]) -> bool {
    let dot = |x: &[i32], y: &[i32]| -> i128 { x.iter().zip(y).map(|(p, q)| *p as i128 * *q as i128).sum() };
    let (da, db, na, nb) = (dot(q, a), dot(q, b), dot(a, a), dot(b, b));
    if na == 0 || nb == 0 {
        return (na == 0 || da == 0) && (nb == 0 || db == 0);
    }
    da.signum() == db.signum() && da * da * nb == db * db * na
}

/// true when some comparison the cache could make on this pool depends on float rounding.
/// `pool`: grid vectors (all f32 sums exact); `inexact`: off-grid / large-component vectors whose
/// f32 sums round (wide margin, no exact-tie escape).
fn fragile(pool: &[Vec<i32>], scale: i32, inexact: &[Vec<f32>], thr: f32, palette: &[f32], metrics: &[u8]) -> bool {
    let pf: Vec<Vec<f32>> = pool.iter().map(|v| to_f32(v, scale)).collect();
    let n = pf.len();
    let all: Vec<&Vec<f32>> = pf.iter().chain(inexact.iter()).collect();
    let ex = |i: usize| i < n;
    // similarity path
    for (qi, q) in all.iter().enumerate() {
        for (ai, a) in all.iter().enumerate() {
            if q.len() != a.len() {
                continue;
            }
            let s = sim_f64(q, a);
            let exact2 = ex(qi) && ex(ai);
            let m2 = if exact2 { 1e-5 } else { 1e-3 };
            if thr < 1.0 && (s - thr as f64).abs() < m2 {
                let exact_zero = exact2 && thr == 0.0 && pool[qi].iter().zip(&pool[ai]).map(|(x, y)| x * y).sum::<i32>() == 0;
                if !exact_zero {
                    return true;
                }
            }
            for (bi, b) in all.iter().enumerate().skip(ai + 1) {
                if q.len() != b.len() {
                    continue;
                }
                let t = sim_f64(q, b);
                let exact3 = exact2 && ex(bi);
                if (s - t).abs() < (if exact3 { 1e-5 } else { 1e-3 }) {
                    if !(exact3 && exact_sim_equal(&pool[qi], &pool[ai], &pool[bi]) && sim_f32(q, a) == sim_f32(q, b)) {
                        return true;
                    }
                }
            }
        }
    }
    // boundary invalidation: cached query q (any vector), inserted x (grid only)
    for &m in metrics {
        for (qi, q) in all.iter().enumerate() {
            for x in &pf {
                if q.len() != x.len() {
                    continue;
                }
                let p = 32.min(x.len());
                for &w in palette {
                    let t = 1.0 - w as f64;
                    let pd: f64 = q[..p].iter().zip(&x[..p]).map(|(a, b)| *a as f64 * *b as f64).sum();
                    let tq: f64 = q[p..].iter().map(|a| (*a as f64).powi(2)).sum::<f64>().sqrt();
                    let tx: f64 = x[p..].iter().map(|a| (*a as f64).powi(2)).sum::<f64>().sqrt();
                    if m == 0 {
                        // exact for grid queries (sqrt-free prefilter, sqrt cannot round across w on the grid)
                        if !ex(qi) {
                            let l2p: f64 = q[..p].iter().zip(&x[..p]).map(|(a, b)| (*a as f64 - *b as f64).powi(2)).sum();
                            let r2 = (w.max(0.0) as f64).powi(2);
                            if (l2p - r2).abs() < 1e-3 * r2.max(1.0) || (f64dist(q, x, 0) - w as f64).abs() < 1e-3 {
                                return true;
                            }
                        }
                    } else if m == 2 {
                        let mg = if ex(qi) { 1e-5 } else { 1e-3 * (1.0 + pd.abs()) };
                        if (p < q.len() || !ex(qi)) && (pd + tq * tx - t).abs() < mg {
                            return true;
                        }
                        if !ex(qi) && (f64dist(q, x, 2) - w as f64).abs() < mg {
                            return true;
                        }
                    } else {
                        let nq: f64 = q.iter().map(|a| (*a as f64).powi(2)).sum::<f64>().sqrt();
                        let nx: f64 = x.iter().map(|a| (*a as f64).powi(2)).sum::<f64>().sqrt();
                        if nq == 0.0 || nx == 0.0 || t <= -1.0 {
                            continue;
                        }
                        let mg = if ex(qi) { 1e-5 } else { 1e-3 };
                        let u = ((pd + tq * tx) / (nq * nx)).clamp(-1.0, 1.0);
                        if (u - t).abs() < mg || (f64dist(q, x, 1) - w as f64).abs() < mg {
                            return true;
                        }
                    }
                }
            }
        }
    }
    false
}

pub struct GenStats {
    pub fragile_regenerated: u64,
}

pub fn gen_case(r: &mut Rng, st: &mut GenStats) -> Case {
    let cap = *r.pick(&[1usize, 2, 2, 4, 4, 12]);
    let thr = *r.pick(&[1.0f32, 1.0, 0.9, 0.9, 0.5, 0.0]);
    let scan = if cap == 12 && r.chance(2, 3) { Some(10) } else { None };
    let dim = if r.chance(1, 6) { r.range(33, 40) as usize } else { r.range(1, 8) as usize };
    let palette_all = [-0.25f32, 0.0, 0.125, 0.25, 0.375, 0.5, 0.75, 1.0, 1.25, 1.5, 2.0];
    // components well outside [-1, 1): the key no longer saturates there (/repo 6ba2bfe)
    let scale: i32 = *r.pick(&[1, 1, 8]);
    let wild_vals = [5.0f32, 3.0, 2.0, 7.0, -4.0, 1e6, -1e6, 100.5, 0.25, 32767.0, 40000.0];
    let mut tries = 0;
    let (pool, near, palette, metrics) = loop {
        let npool = r.range(4, 9) as usize;
        let mut pool: Vec<Vec<i32>> = (0..npool).map(|_| grid_vec(r, dim)).collect();
        // positive multiples and duplicates force exact similarity ties / exact-hit on a different vector
        if r.chance(1, 2) {
            let b = pool[0].clone();
            if b.iter().all(|x| x.abs() <= 7) {
                pool.push(b.iter().map(|x| x * 2).collect());
            }
        }
        if r.chance(1, 3) {
            let other = if dim > 1 { dim - 1 } else { dim + 1 };
            pool.push(grid_vec(r, other)); // a vector of another dimension
        }
        // off-grid vectors in the quantisation cell of pool[0] / pool[1] (exact-key hit for a different vector)
        let mut near = vec![];
        for b in pool.iter().take(2) {
            if b.len() == dim && scale == 1 && r.chance(1, 2) {
                let mut v = to_f32(b, scale);
                let j = r.below(dim as u64) as usize;
                v[j] += if r.chance(1, 2) { 1.0 / 131072.0 } else { -1.0 / 131072.0 };
                near.push(v);
            }
        }
        // large-component vectors (queries / cached queries only, never the inserted vector)
        if dim <= 8 && r.chance(1, 2) {
            if dim == 2 && r.chance(1, 2) {
                near.push(vec![5.0, 3.0]);
                near.push(vec![2.0, 7.0]);
            }
            for _ in 0..r.range(1, 2) {
                near.push((0..dim).map(|_| *r.pick(&wild_vals)).collect());
            }
        }
        let palette: Vec<f32> = (0..3).map(|_| *r.pick(&palette_all)).collect();
        let metrics: Vec<u8> = if r.chance(1, 2) { vec![r.below(3) as u8] } else { vec![r.below(3) as u8, r.below(3) as u8] };
        tries += 1;
        if tries > 40 {
            // give up on rounding-dependent ingredients for this case: grid vectors only, Euclidean only
            if !fragile(&pool, scale, &[], thr, &palette, &[0u8]) || tries > 200 {
                break (pool, vec![], palette, vec![0u8]);
            }
        } else if !fragile(&pool, scale, &near, thr, &palette, &metrics) {
            break (pool, near, palette, metrics);
        }
        st.fragile_regenerated += 1;
    };
    let pf: Vec<Vec<f32>> = pool.iter().map(|v| to_f32(v, scale)).collect();
    let nscope = r.range(1, 3);
    let nops = r.range(6, 40) as usize;
    let mut ops = vec![];
    let gen_rs = |r: &mut Rng| -> Vec<(u64, f32)> {
        let n = *r.pick(&[0usize, 1, 1, 2, 2, 3, 3, 4]);
        let mut rs: Vec<(u64, f32)> = (0..n).map(|_| (r.range(1, 6), *r.pick(&palette))).collect();
        if r.chance(3, 4) {
            rs.sort_by(|a, b| a.1.partial_cmp(&b.1).unwrap());
        }
        rs
    };
    for _ in 0..nops {
        let scope = r.below(nscope);
        match r.below(20) {
            0..=6 => {
                let q = if !near.is_empty() && r.chance(1, 5) { r.pick(&near).clone() } else { r.pick(&pf).clone() };
                ops.push(Op::Get { scope, q, k: r.range(0, 4) as usize });
            }
            7..=11 => {
                let rs = gen_rs(r);
                let kreq = match r.below(4) {
                    0 => rs.len(),
                    1 => rs.len() + 1,
                    2 => r.range(0, 4) as usize,
                    _ => rs.len().max(1),
                };
                let q = if !near.is_empty() && r.chance(1, 4) { r.pick(&near).clone() } else { r.pick(&pf).clone() };
                ops.push(Op::Insert { scope, q, rs, kreq });
            }
            12..=13 => {
                let rs = gen_rs(r);
                let kreq = rs.len().max(1);
                let back = if r.chance(2, 3) { 0 } else { r.range(1, 2) };
                ops.push(Op::InsertIfGen { scope, q: r.pick(&pf).clone(), rs, kreq, back });
            }
            14..=15 => ops.push(Op::InvDoc(r.range(1, 7))),
            16..=17 => ops.push(Op::InvInsert(r.pick(&pf).clone(), *r.pick(&metrics))),
            18 => ops.push(if r.chance(1, 3) { Op::Clear } else { Op::Gen }),
            _ => ops.push(Op::Len),
        }
    }
    ops.push(Op::Len);
    Case { cap, thr, scan, ops }
}

// ---------------------------------------------------------------------------------------------
// Gallina
// ---------------------------------------------------------------------------------------------

fn coq_case(id: usize, c: &Case, obs: &[Obs]) -> String {
    let ops: Vec<String> = c.ops.iter().map(|o| match o {
        Op::Get { scope, q, k } => format!("OGet {}%N {} {}%nat", scope, vec_lit(q), k),
        Op::Insert { scope, q, rs, kreq } => format!("OInsert {}%N {} {} {}%nat", scope, vec_lit(q), results_lit(rs), kreq),
        Op::InsertIfGen { scope, q, rs, kreq, back } => format!("OInsertIfGen {}%N {} {} {}%nat {}%N", scope, vec_lit(q), results_lit(rs), kreq, back),
        Op::InvDoc(id) => format!("OInvDoc {}%N", id),
        Op::InvInsert(x, m) => format!("OInvInsert {} {}", vec_lit(x), metric_lit(*m)),
        Op::Clear => "OClear".into(),
        Op::Len => "OLen".into(),
        Op::Gen => "OGen".into(),
    }).collect();
    let ob: Vec<String> = obs.iter().map(|o| match o {
        Obs::Get(None) => "BGet None".into(),
        Obs::Get(Some(r)) => format!("BGet (Some {})", results_lit(r)),
        Obs::Evict(None) => "BEvict None".into(),
        Obs::Evict(Some(Ok(v))) => format!("BEvict (Some (quantise {}))", vec_lit(v)),
        Obs::Evict(Some(Err(_))) => "BEvict (Some [123456789%Z])".into(),
        Obs::Bool(b) => format!("BBool {}", b),
        Obs::Nat(n) => format!("BNat {}%nat", n),
        Obs::Gen(g) => format!("BGenDelta {}%N", g),
        Obs::Unit => "BUnit".into(),
    }).collect();
    format!(
        "({}%N, mkCfg {}%nat {} {}%nat, [{}], [{}])",
        id, c.cap, qlit(c.thr.clamp(0.0, 1.0)), c.scan.map(|l| l.clamp(10, 10000)).unwrap_or(2000), ops.join("; "), ob.join("; ")
    )
}

pub fn shard_text(body: &str) -> String {
    format!(
        "{}Definition cases : list (N * config * list op * list obs) := [\n  {}\n].\nDefinition bad : list N := map (fun c => match c with (id, _, _, _) => id end) (filter (fun c => match c with (_, cfg, ops, ob) => negb (obs_list_eqb (run cfg empty ops) ob) end) cases).\nGoal True. idtac \"@@bad\". Abort.\nEval vm_compute in bad.\nGoal True. idtac \"@@count\". Abort.\nEval vm_compute in (N.of_nat (length cases)).\n",
        HEADER, body
    )
}

pub fn run_stream(corpus: Vec<Case>, n: usize, rng: &mut Rng) -> (Vec<String>, Value, Value) {
    let mut st = GenStats { fragile_regenerated: 0 };
    let mut cases = corpus;
    let ncorpus = cases.len();
    for k in 0..n {
        let mut r = rng.fork(k as u64);
        cases.push(gen_case(&mut r, &mut st));
    }
    let mut hist: HashMap<&'static str, u64> = HashMap::new();
    let mut bump = |k: &'static str| *hist.entry(k).or_insert(0) += 1;
    let mut oracle_fail = vec![];
    let mut samples = vec![];
    let mut all = vec![];
    let mut distinct = std::collections::HashSet::new();
    let mut nontrivial = 0u64;
    let mut shards = vec![];
    let mut cur = String::new();
    for (id, c) in cases.iter().enumerate() {
        let obs = run_impl(c);
        // histogram + non-triviality: a hit after an intervening invalidation/write op
        let mut wrote_since_store = false;
        let mut stored = false;
        let mut hit_after_write = false;
        for (o, b) in c.ops.iter().zip(obs.iter()) {
            match (o, b) {
                (Op::Get { .. }, Obs::Get(Some(_))) => {
                    bump("get_hit");
                    if stored && wrote_since_store {
                        hit_after_write = true
                    }
                }
                (Op::Get { .. }, _) => bump("get_miss"),
                (Op::Insert { .. }, Obs::Evict(Some(_))) => {
                    bump("insert_evicting");
                    stored = true
                }
                (Op::Insert { .. }, _) => {
                    bump("insert");
                    stored = true
                }
                (Op::InsertIfGen { .. }, Obs::Bool(true)) => {
                    bump("insert_if_gen_stored");
                    stored = true
                }
                (Op::InsertIfGen { .. }, _) => bump("insert_if_gen_skipped"),
                (Op::InvDoc(_), Obs::Nat(0)) => {
                    bump("invalidate_doc_0");
                    wrote_since_store = true
                }
                (Op::InvDoc(_), _) => {
                    bump("invalidate_doc_removing");
                    wrote_since_store = true
                }
                (Op::InvInsert(..), Obs::Nat(0)) => {
                    bump("invalidate_for_insert_0");
                    wrote_since_store = true
                }
                (Op::InvInsert(..), _) => {
                    bump("invalidate_for_insert_removing");
                    wrote_since_store = true
                }
                (Op::Clear, _) => bump("clear"),
                (Op::Len, _) => bump("len"),
                (Op::Gen, _) => bump("generation"),
            }
        }
        if distinct.insert(format!("{:?}{:?}", c, obs)) && hit_after_write {
            nontrivial += 1;
        }
        if let Some(why) = oracle(c, &obs) {
            let s = shrink(c);
            let so = run_impl(&s);
            oracle_fail.push(json!({"id": id, "why": oracle(&s, &so).unwrap_or(why), "case": case_json(&s, &so), "unshrunk_ops": c.ops.len()}));
        }
        if samples.len() < 2 && id >= ncorpus {
            samples.push(case_json(c, &obs));
        }
        all.push(case_json(c, &obs));
        if id % 60 == 0 && !cur.is_empty() {
            shards.push(shard_text(&std::mem::take(&mut cur)));
        }
        if !cur.is_empty() {
            cur.push_str(";\n  ");
        }
        let _ = write!(cur, "{}", coq_case(id, c, &obs));
    }
    if !cur.is_empty() {
        shards.push(shard_text(&cur));
    }
    let summary = json!({
        "cases": cases.len(), "corpus": ncorpus, "distinct": distinct.len(), "nontrivial": nontrivial,
        "oracle_failures": oracle_fail, "histogram": hist, "samples": samples,
        "fragile_pools_regenerated": st.fragile_regenerated,
    });
    (shards, summary, json!(all))
}

// ---------------------------------------------------------------------------------------------
// H: hash key differential through verif_hash_embedding
// ---------------------------------------------------------------------------------------------

pub fn hash_stream(n: usize, r: &mut Rng) -> (String, Value) {
    let specials: Vec<f32> = vec![
        0.0, -0.0, 1.0, -1.0, 0.99996948, 0.9999847, 0.99998474, -0.99998474, 1.00001526, -1.00001526, 2.0, 5.0, 3.0, 7.0,
        -7.0, 1e9, -1e9, 0.5 / 32768.0, -0.5 / 32768.0, 1.5 / 32768.0, -1.5 / 32768.0, 2.5 / 32768.0, 0.49 / 32768.0,
        32766.5 / 32768.0, 32767.5 / 32768.0, -32767.5 / 32768.0, -32768.5 / 32768.0, 1e-30, 3.0517578e-5, 0.25, 0.250015,
        1e6, -1e6, 40000.0, 3.0e38, -3.0e38, 2.0e34, 1.0e34, 1.0384594e34, 1.329228e36, 4.056482e31, 1.0e33,
    ];
    let mut rows = vec![];
    let mut eq_count = 0u64;
    let mut sat_pairs = 0u64;
    for _ in 0..n {
        let dim = r.range(1, 4) as usize;
        let a: Vec<f32> = (0..dim)
            .map(|_| if r.chance(2, 3) { *r.pick(&specials) } else { (r.range(0, 131072) as f32 - 65536.0) / 65536.0 })
            .collect();
        let b: Vec<f32> = match r.below(5) {
            0 => a.clone(),
            1 => a.iter().map(|x| x + if r.chance(1, 2) { 1.0 / 131072.0 } else { -1.0 / 131072.0 }).collect(),
            2 => a.iter().map(|x| if x.abs() >= 1.0 { *r.pick(&[2.0f32, 5.0, 1.5, -3.0, 1.0]) * x.signum() } else { *x }).collect(),
            3 => {
                let mut v = a.clone();
                if r.chance(1, 2) {
                    v.push(0.0)
                } else {
                    let j = r.below(dim as u64) as usize;
                    v[j] = *r.pick(&specials);
                }
                v
            }
            _ => (0..dim).map(|_| *r.pick(&specials)).collect(),
        };
        let eq = QueryHashCache::verif_hash_embedding(&a) == QueryHashCache::verif_hash_embedding(&b);
        if eq {
            eq_count += 1;
            if a != b && a.iter().chain(b.iter()).any(|x| x.abs() > 1.0) {
                sat_pairs += 1;
            }
        }
        rows.push(format!("({}%N, {}, {}, {})", rows.len(), vec_lit(&a), vec_lit(&b), eq));
    }
    let text = format!(
        "{}Definition rows : list (N * vec * vec * bool) := [\n  {}\n].\nDefinition bad : list N := map (fun c => match c with (id, _, _, _) => id end) (filter (fun c => match c with (_, a, b, e) => negb (Bool.eqb (zlist_eqb (quantise a) (quantise b)) e) end) rows).\nGoal True. idtac \"@@bad\". Abort.\nEval vm_compute in bad.\nGoal True. idtac \"@@count\". Abort.\nEval vm_compute in (N.of_nat (length rows)).\n",
        HEADER,
        rows.join(";\n  ")
    );
    (text, json!({"pairs": n, "equal_hash_pairs": eq_count, "equal_hash_pairs_of_different_vectors_with_a_component_outside_unit_box": sat_pairs}))
}

// ---------------------------------------------------------------------------------------------
// directed regression probe for the repaired defect C07-quantised-key-saturation: expected a MISS
// ---------------------------------------------------------------------------------------------

pub fn saturation_probe() -> (String, Value) {
    let c = Case {
        cap: 4,
        thr: 1.0,
        scan: None,
        ops: vec![
            Op::Insert { scope: 0, q: vec![5.0, 3.0], rs: vec![(1, 0.0)], kreq: 1 },
            Op::Get { scope: 0, q: vec![2.0, 7.0], k: 1 },
        ],
    };
    let obs = run_impl(&c);
    let hit = matches!(obs[1], Obs::Get(Some(_)));
    let text = shard_text(&coq_case(0, &c, &obs));
    (
        text,
        json!({"hit": hit, "case": case_json(&c, &obs),
               "what": "QueryHashCache::new(4, 1.0); insert_with_k_scoped(0, [5.0,3.0], [(doc 1, 0.0)], 1); get_scoped(0, [2.0,7.0], 1)",
               "cosine_of_the_two_queries": sim_f64(&[2.0, 7.0], &[5.0, 3.0])}),
    )
}
