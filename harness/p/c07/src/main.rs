//! C07 driver: QueryHashCache op-sequence correspondence (A), prefilter differential through the
//! H5 hook (B), hash-key differential (H), engine-level histories with a fresh-search oracle (E),
//! and the saturation probe.
//! usage: c07 --out DIR --n N [--replay FILE]
mod cache_ops;
mod engine_hist;
mod prefilter;
mod race;

use kvh::rng::Rng;
use serde_json::json;

pub fn qlit(v: f32) -> String {
    kvh::coqfmt::f64_q(v as f64)
}
/// (mantissa, exponent) with v = mantissa * 2^exponent, mantissa odd or zero
fn decompose(v: f32) -> (i128, i32) {
    assert!(v.is_finite());
    if v == 0.0 {
        return (0, 0);
    }
    let bits = v.to_bits();
    let sign = if (bits >> 31) != 0 { -1i128 } else { 1i128 };
    let exp = ((bits >> 23) & 0xff) as i32;
    let frac = (bits & 0x7f_ffff) as i128;
    let (mut m, mut e) = if exp == 0 { (frac, -149) } else { (frac | (1 << 23), exp - 150) };
    while m % 2 == 0 {
        m /= 2;
        e += 1;
    }
    (sign * m, e)
}
/// Gallina literal of a vector of f32 as exact rationals.  Compact form `vz E [ints]`
/// (value ints_i / 2^E, `vz` is defined in HEADER) because coqc elaborates a Z numeral about
/// twice as fast as a `(a # b)` literal; falls back to per-component literals for wide ranges.
pub fn vec_lit(v: &[f32]) -> String {
    let d: Vec<(i128, i32)> = v.iter().map(|x| decompose(*x)).collect();
    let emin = d.iter().filter(|p| p.0 != 0).map(|p| p.1).min().unwrap_or(0).min(0);
    let emax = d.iter().filter(|p| p.0 != 0).map(|p| p.1).max().unwrap_or(0);
    if emax - emin > 60 || -emin > 200 {
        let p: Vec<String> = v.iter().map(|x| qlit(*x)).collect();
        return format!("[{}]", p.join("; "));
    }
    let ints: Vec<String> = d.iter().map(|(m, e)| (m << ((e - emin) as u32)).to_string()).collect();
    format!("(vz {} [{}]%Z)", -emin, ints.join("; "))
}
pub fn results_lit(rs: &[(u64, f32)]) -> String {
    let p: Vec<String> = rs.iter().map(|(i, d)| format!("({}%N, {})", i, qlit(*d))).collect();
    format!("[{}]", p.join("; "))
}
pub fn metric_lit(m: u8) -> &'static str {
    match m {
        0 => "Euclidean",
        1 => "Cosine",
        _ => "InnerProduct",
    }
}
pub fn metric_of(m: u8) -> kyrodb_engine::config::DistanceMetric {
    use kyrodb_engine::config::DistanceMetric as D;
    match m {
        0 => D::Euclidean,
        1 => D::Cosine,
        _ => D::InnerProduct,
    }
}

pub const HEADER: &str = "From Coq Require Import QArith List NArith ZArith Bool Arith.\nFrom Kyro Require Import Model.QCache.\nImport ListNotations.\nOpen Scope Q_scope.\nDefinition vz (e : nat) (l : list Z) : vec := map (fun m => Qmake m (Pos.shiftl_nat 1 e)) l.\n";

fn main() {
    kvh::panicrec::install();
    let args: Vec<String> = std::env::args().collect();
    let mut out = String::from("/verif/.cache/run/C07");
    let mut n = 500usize;
    let mut replay: Option<String> = None;
    let mut i = 1;
    while i < args.len() {
        match args[i].as_str() {
            "--out" => {
                out = args[i + 1].clone();
                i += 1
            }
            "--n" => {
                n = args[i + 1].parse().unwrap();
                i += 1
            }
            "--replay" => {
                replay = Some(args[i + 1].clone());
                i += 1
            }
            _ => {}
        }
        i += 1;
    }
    std::fs::create_dir_all(&out).unwrap();
    let mut shards: Vec<(String, String)> = vec![]; // (kind, text)
    let mut summary = serde_json::Map::new();
    let mut all_cases = serde_json::Map::new();

    if let Some(p) = &replay {
        let v: serde_json::Value = serde_json::from_str(&std::fs::read_to_string(p).unwrap()).unwrap();
        let cv = if v.get("case").is_some() { v["case"].clone() } else { v };
        let stream = cv["stream"].as_str().unwrap_or("A").to_string();
        match stream.as_str() {
            "E" => {
                let r = engine_hist::replay(&cv);
                summary.insert("E".into(), r);
            }
            "R" => {
                // schedule dependent: re-run the whole stream with the recorded seed and round count
                let rounds = cv["rounds"].as_u64().unwrap_or(50) as usize;
                let seed = cv["seed"].as_u64().unwrap_or(1);
                summary.insert("R".into(), race::run_stream(&out, rounds.max(50) * 4, seed));
            }
            "B" => {
                let r = prefilter::replay(&cv);
                summary.insert("B".into(), r);
            }
            _ => {
                let (sh, s, all) = cache_ops::run_stream(vec![cache_ops::case_from_json(&cv)], 0, &mut Rng::new(1));
                for t in sh {
                    shards.push(("A".into(), t));
                }
                summary.insert("A".into(), s);
                all_cases.insert("A".into(), all);
            }
        }
    } else {
        let mut rng = Rng::from_env();
        // A: cache op sequences (corpus first)
        let mut corpus = vec![];
        if let Ok(rd) = std::fs::read_dir("/verif/corpus/C07") {
            let mut ps: Vec<_> = rd.filter_map(|e| e.ok()).map(|e| e.path()).collect();
            ps.sort();
            for p in ps {
                if let Ok(s) = std::fs::read_to_string(&p) {
                    if let Ok(v) = serde_json::from_str::<serde_json::Value>(&s) {
                        let cv = if v.get("case").is_some() { v["case"].clone() } else { v };
                        if cv["stream"].as_str().unwrap_or("A") == "A" {
                            corpus.push(cache_ops::case_from_json(&cv));
                        }
                    }
                }
            }
        }
        let mut ra = rng.fork(1);
        let (sh, s, all) = cache_ops::run_stream(corpus, n, &mut ra);
        for t in sh {
            shards.push(("A".into(), t));
        }
        summary.insert("A".into(), s);
        all_cases.insert("A".into(), all);
        // B: prefilter differential (30 pairs per op sequence of the budget)
        let mut rb = rng.fork(2);
        let (sh, s, all) = prefilter::run_stream(n * 30, &mut rb);
        for t in sh {
            shards.push(("B".into(), t));
        }
        summary.insert("B".into(), s);
        all_cases.insert("B".into(), all);
        // H: hash key differential
        let mut rh = rng.fork(3);
        let (t, s) = cache_ops::hash_stream(n * 4, &mut rh);
        shards.push(("H".into(), t));
        summary.insert("H".into(), s);
        // E: engine-level histories
        let mut re = rng.fork(4);
        let s = engine_hist::run_stream((n / 2).max(200), &mut re);
        summary.insert("E".into(), s);
        // R: searcher thread vs writer on a persistent engine (store-after-invalidate clause)
        let seed = std::env::var("VERIF_SEED").ok().and_then(|s| s.parse::<u64>().ok()).unwrap_or(1);
        summary.insert("R".into(), race::run_stream(&out, (n / 10).max(50), seed));
        // saturation probe
        let (t, s) = cache_ops::saturation_probe();
        shards.push(("P".into(), t));
        let mut s = s;
        s["engine_level"] = engine_hist::saturation_probe_engine();
        summary.insert("probe".into(), s);
    }
    let mut kinds = vec![];
    for (k, (kind, text)) in shards.iter().enumerate() {
        std::fs::write(format!("{}/cases_{}.v", out, k), text).unwrap();
        kinds.push(kind.clone());
    }
    summary.insert("shards".into(), json!(shards.len()));
    summary.insert("shard_kinds".into(), json!(kinds));
    std::fs::write(format!("{}/summary.json", out), serde_json::to_string_pretty(&serde_json::Value::Object(summary)).unwrap()).unwrap();
    std::fs::write(format!("{}/all_cases.json", out), serde_json::to_string(&serde_json::Value::Object(all_cases)).unwrap()).unwrap();
    println!("c07: {} shards written to {}", shards.len(), out);
}
