//! kvh-srv — shared driver for the REAL `kyrodb_server` binary (used by the C10, C14, C15 … harnesses).
//!
//! README
//! ======
//! What it does: spawns the server binary as a child process on a free loopback port pair with a
//! generated production-type TOML config and an API-key YAML file inside a scratch directory
//! `/verif/.cache/run/<prop>/<name>/`, waits until the gRPC port accepts connections, and offers
//! blocking, typed, *canonicalised* helpers for every RPC plus a plain HTTP/1.1 GET for the
//! observability endpoints. Nothing here links server logic: the engine crate is used only for the
//! generated protobuf/tonic client (`kyrodb_engine::proto`).
//!
//! Quick start
//! ```ignore
//! use kvh_srv::*;
//! let mut opts = ServerOpts::new("C14", "case0");          // scratch: /verif/.cache/run/C14/case0
//! opts.tenants = vec![TenantSpec::new("acme"), TenantSpec::new("bolt").max_vectors(3)];
//! let mut s = Server::start(opts)?;                         // fresh data dir (wiped)
//! let ka = s.key("acme");                                   // the API key string of tenant "acme"
//! let r = s.insert(Some(&ka), 1, &[0.5, 0.25], &[("color", "red")], "");   // Rpc<InsertOut>
//! let q = s.query(Some(&ka), 1, true, "");                  // Rpc<QueryOut>
//! let u = s.usage(Some(&ka), None);                         // HttpOut + parsed tenants
//! s.stop_graceful()?;  s.restart()?;                        // same data dir, same config
//! s.kill();                                                 // SIGKILL (also done on Drop)
//! ```
//!
//! Conventions
//! * every RPC helper takes `key: Option<&str>` (`None` = no `x-api-key` header) and returns
//!   `Rpc<T> = Result<T, RpcErr>`; `RpcErr.code` is the small enum [`Code`] (status *class*), the
//!   message text is kept only for diagnostics and must never be compared.
//! * canonical forms: f32 as bit patterns (`u32`), metadata as key-sorted `Vec<(String,String)>`,
//!   ids as `u64`; timestamps / latencies / memory figures are dropped; `search_path`/`served_from`
//!   are kept as raw enum numbers but are diagnostic (they depend on cache/tier state).
//! * streaming RPCs (BulkInsert, BulkLoadHnsw, BulkSearch) take a slice of items and stream them.
//! * tenant index assignment of the server (needed by models): on a fresh data dir the ENABLED
//!   tenants are sorted by tenant_id and numbered 0,1,2…; [`Server::tenant_index`] returns that.
//! * several API keys for one tenant (key rotation): list several `TenantSpec`s with the same
//!   `tenant_id` and different keys (`TenantSpec::new("acme").key(&make_key("acme", 1))`);
//!   `Server::key(t)` returns the first, `Server::keys_of(t)` all of them.
//! * changing the key file between runs: `s.stop_graceful()?; s.add_tenant(spec); s.restart()?`
//!   (or edit `s.opts.tenants` directly) — `restart` rewrites the YAML from `opts.tenants` and starts
//!   the binary on the SAME data dir. `Server::tenant_map()` reads the persisted `tenants.json`.
//! * `Server::raw_client()` + `Server::runtime()` + [`with_key`] give direct access to the tonic
//!   client for concurrent call patterns (C14 races); `Server::env` lets callers add environment
//!   variables (e.g. LD_PRELOAD of the fs shim).
//! * binary: `ServerOpts.bin`, else env `KVH_SERVER_BIN`, else
//!   `/verif/.cache/target-server/debug/kyrodb_server` (built by `vlib.server_build()`).
use kyrodb_engine::proto as pb;
use kyrodb_engine::proto::kyro_db_service_client::KyroDbServiceClient;
use std::collections::{BTreeMap, HashMap};
use std::io::{Read, Write};
use std::net::{TcpListener, TcpStream};
use std::path::{Path, PathBuf};
use std::process::{Child, Command, Stdio};
use std::time::{Duration, Instant};
use tonic::transport::{Channel, Endpoint};

pub use kyrodb_engine::proto;

pub const DEFAULT_BIN: &str = "/verif/.cache/target-server/debug/kyrodb_server";
pub const RUN_ROOT: &str = "/verif/.cache/run";

// ------------------------------------------------------------------------------------------
// canonical outcome types
// ------------------------------------------------------------------------------------------

/// gRPC status class (canonical; messages are never compared).
#[derive(Clone, Copy, Debug, PartialEq, Eq, Hash, PartialOrd, Ord)]
pub enum Code {
    InvalidArgument,
    Unauthenticated,
    PermissionDenied,
    ResourceExhausted,
    FailedPrecondition,
    NotFound,
    DeadlineExceeded,
    Unavailable,
    Internal,
    Transport,
    Other(i32),
}
impl Code {
    pub fn from_tonic(c: tonic::Code) -> Code {
        use tonic::Code as T;
        match c {
            T::InvalidArgument => Code::InvalidArgument,
            T::Unauthenticated => Code::Unauthenticated,
            T::PermissionDenied => Code::PermissionDenied,
            T::ResourceExhausted => Code::ResourceExhausted,
            T::FailedPrecondition => Code::FailedPrecondition,
            T::NotFound => Code::NotFound,
            T::DeadlineExceeded => Code::DeadlineExceeded,
            T::Unavailable => Code::Unavailable,
            T::Internal => Code::Internal,
            other => Code::Other(other as i32),
        }
    }
    pub fn name(&self) -> String {
        match self {
            Code::Other(n) => format!("Other{}", n),
            c => format!("{:?}", c),
        }
    }
}
#[derive(Clone, Debug, PartialEq, Eq)]
pub struct RpcErr {
    pub code: Code,
    pub message: String,
}
pub type Rpc<T> = Result<T, RpcErr>;

pub type Meta = Vec<(String, String)>;

#[derive(Clone, Debug, PartialEq, Eq)]
pub struct InsertOut {
    pub success: bool,
    pub total_inserted: u64,
    pub total_failed: u64,
    pub error: String,
}
#[derive(Clone, Debug, PartialEq, Eq)]
pub struct BulkLoadOut {
    pub success: bool,
    pub total_loaded: u64,
    pub total_failed: u64,
    pub error: String,
}
#[derive(Clone, Debug, PartialEq, Eq)]
pub struct QueryOut {
    pub found: bool,
    pub doc_id: u64,
    pub embedding: Vec<u32>,
    pub metadata: Meta,
    pub served_from: i32,
    pub error: String,
}
#[derive(Clone, Debug, PartialEq, Eq)]
pub struct BulkQueryOut {
    pub results: Vec<QueryOut>,
    pub total_found: u32,
    pub total_requested: u32,
    pub error: String,
}
#[derive(Clone, Debug, PartialEq, Eq)]
pub struct SearchHit {
    pub doc_id: u64,
    pub score_bits: u32,
    pub embedding: Vec<u32>,
    pub metadata: Meta,
}
#[derive(Clone, Debug, PartialEq, Eq)]
pub struct SearchOut {
    pub hits: Vec<SearchHit>,
    pub total_found: u32,
    pub search_path: i32,
    pub error: String,
}
#[derive(Clone, Debug, PartialEq, Eq)]
pub struct ExistedOut {
    pub success: bool,
    pub existed: bool,
    pub error: String,
}
#[derive(Clone, Debug, PartialEq, Eq)]
pub struct BatchDeleteOut {
    pub success: bool,
    pub deleted_count: u64,
    pub error: String,
}
#[derive(Clone, Debug, PartialEq, Eq)]
pub struct FlushOut {
    pub success: bool,
    pub documents_flushed: u64,
    pub error: String,
}
#[derive(Clone, Debug, PartialEq, Eq)]
pub struct SnapshotOut {
    pub success: bool,
    pub documents_snapshotted: u64,
    pub snapshot_size_bytes: u64,
    pub snapshot_path: String,
    pub error: String,
}
#[derive(Clone, Debug, PartialEq, Eq)]
pub struct HttpOut {
    pub status: u16,
    pub body: String,
}
/// One tenant row of GET /usage (floating-point storage_mb/gb and generated_at are dropped).
#[derive(Clone, Debug, PartialEq, Eq)]
pub struct UsageRow {
    pub tenant_id: String,
    pub query_count: u64,
    pub insert_count: u64,
    pub delete_count: u64,
    pub vector_count: u64,
    pub storage_bytes: u64,
    pub billable_events: u64,
}
#[derive(Clone, Debug, PartialEq, Eq)]
pub struct UsageOut {
    pub status: u16,
    pub tenants: Vec<UsageRow>, // sorted by tenant_id (the server sorts; we sort again)
    pub body: String,
}

/// One item of Insert / BulkInsert / BulkLoadHnsw.
#[derive(Clone, Debug, PartialEq)]
pub struct Item {
    pub doc_id: u64,
    pub embedding: Vec<f32>,
    pub metadata: Meta,
    pub namespace: String,
}
/// One Search / BulkSearch request.
#[derive(Clone, Debug, PartialEq)]
pub struct SearchReq {
    pub query: Vec<f32>,
    pub k: u32,
    pub min_score: f32,
    pub namespace: String,
    pub include_embeddings: bool,
    pub ef_search: u32,
    pub filter: Option<pb::MetadataFilter>,
    pub legacy_filters: Meta,
}
impl SearchReq {
    pub fn new(query: &[f32], k: u32) -> Self {
        SearchReq {
            query: query.to_vec(),
            k,
            min_score: 0.0,
            namespace: String::new(),
            include_embeddings: false,
            ef_search: 0,
            filter: None,
            legacy_filters: vec![],
        }
    }
    pub fn to_pb(&self) -> pb::SearchRequest {
        #[allow(deprecated)]
        pb::SearchRequest {
            query_embedding: self.query.clone(),
            k: self.k,
            min_score: self.min_score,
            namespace: self.namespace.clone(),
            include_embeddings: self.include_embeddings,
            ef_search: self.ef_search,
            filter: self.filter.clone(),
            metadata_filters: self.legacy_filters.iter().cloned().collect(),
        }
    }
}

// ---- filter constructors
pub fn f_exact(k: &str, v: &str) -> pb::MetadataFilter {
    pb::MetadataFilter {
        filter_type: Some(pb::metadata_filter::FilterType::Exact(pb::ExactMatch { key: k.into(), value: v.into() })),
    }
}
pub fn f_in(k: &str, vs: &[&str]) -> pb::MetadataFilter {
    pb::MetadataFilter {
        filter_type: Some(pb::metadata_filter::FilterType::InMatch(pb::InMatch {
            key: k.into(),
            values: vs.iter().map(|s| s.to_string()).collect(),
        })),
    }
}
pub fn f_and(fs: Vec<pb::MetadataFilter>) -> pb::MetadataFilter {
    pb::MetadataFilter { filter_type: Some(pb::metadata_filter::FilterType::AndFilter(pb::AndFilter { filters: fs })) }
}
pub fn f_or(fs: Vec<pb::MetadataFilter>) -> pb::MetadataFilter {
    pb::MetadataFilter { filter_type: Some(pb::metadata_filter::FilterType::OrFilter(pb::OrFilter { filters: fs })) }
}
pub fn f_not(f: pb::MetadataFilter) -> pb::MetadataFilter {
    pb::MetadataFilter {
        filter_type: Some(pb::metadata_filter::FilterType::NotFilter(Box::new(pb::NotFilter { filter: Some(Box::new(f)) }))),
    }
}
/// op ∈ {"gte","lte","gt","lt"}
pub fn f_range(k: &str, op: &str, v: &str) -> pb::MetadataFilter {
    use pb::range_match::Bound;
    let b = match op {
        "gte" => Bound::Gte(v.into()),
        "lte" => Bound::Lte(v.into()),
        "gt" => Bound::Gt(v.into()),
        _ => Bound::Lt(v.into()),
    };
    pb::MetadataFilter {
        filter_type: Some(pb::metadata_filter::FilterType::Range(pb::RangeMatch { key: k.into(), bound: Some(b) })),
    }
}
/// A filter message with no variant set (`filter_type: None`).
pub fn f_empty() -> pb::MetadataFilter {
    pb::MetadataFilter { filter_type: None }
}

pub fn sort_meta(m: HashMap<String, String>) -> Meta {
    let mut v: Meta = m.into_iter().collect();
    v.sort();
    v
}
pub fn bits(v: &[f32]) -> Vec<u32> {
    v.iter().map(|x| x.to_bits()).collect()
}
fn meta_map(m: &[(String, String)]) -> HashMap<String, String> {
    m.iter().cloned().collect()
}
pub fn meta_of(pairs: &[(&str, &str)]) -> Meta {
    pairs.iter().map(|(a, b)| (a.to_string(), b.to_string())).collect()
}

// ------------------------------------------------------------------------------------------
// server options
// ------------------------------------------------------------------------------------------

#[derive(Clone, Debug)]
pub struct TenantSpec {
    pub tenant_id: String,
    pub key: String,
    pub enabled: bool,
    pub is_admin: bool,
    pub max_qps: u32,
    pub max_vectors: u64,
}
impl TenantSpec {
    /// key = `kyro_<tenant>_<32 alnum chars derived from the tenant id>`; enabled; generous limits.
    pub fn new(tenant_id: &str) -> Self {
        TenantSpec {
            tenant_id: tenant_id.to_string(),
            key: make_key(tenant_id, 0),
            enabled: true,
            is_admin: false,
            max_qps: 1_000_000,
            max_vectors: 1_000_000,
        }
    }
    pub fn disabled(mut self) -> Self {
        self.enabled = false;
        self
    }
    pub fn admin(mut self) -> Self {
        self.is_admin = true;
        self
    }
    pub fn max_vectors(mut self, n: u64) -> Self {
        self.max_vectors = n;
        self
    }
    pub fn max_qps(mut self, n: u32) -> Self {
        self.max_qps = n;
        self
    }
    pub fn key(mut self, k: &str) -> Self {
        self.key = k.to_string();
        self
    }
}
/// Well-formed API key for a tenant (`variant` gives distinct secrets for the same tenant).
pub fn make_key(tenant_id: &str, variant: u32) -> String {
    let mut h: u64 = 0xcbf2_9ce4_8422_2325 ^ (variant as u64).wrapping_mul(0x9E37_79B9_7F4A_7C15);
    for b in tenant_id.bytes() {
        h = (h ^ b as u64).wrapping_mul(0x0000_0100_0000_01B3);
    }
    let mut s = String::new();
    let mut x = h;
    while s.len() < 32 {
        x = x.wrapping_mul(6364136223846793005).wrapping_add(1442695040888963407);
        let d = ((x >> 33) % 36) as u8;
        s.push(if d < 10 { (b'0' + d) as char } else { (b'a' + d - 10) as char });
    }
    format!("kyro_{}_{}", tenant_id, s)
}

#[derive(Clone, Debug)]
pub struct ServerOpts {
    pub prop: String,
    pub name: String,
    pub tenants: Vec<TenantSpec>,
    pub dimension: usize,
    pub distance: String,
    /// extra `key = value` lines per TOML section, appended after the defaults (later wins is NOT
    /// guaranteed by TOML — do not repeat keys already emitted: see `config_text`).
    pub extra: BTreeMap<String, Vec<String>>,
    /// overrides for the default lines of a section: section -> key -> value text
    pub set: BTreeMap<String, BTreeMap<String, String>>,
    pub bin: Option<PathBuf>,
    pub env: Vec<(String, String)>,
    pub auth_enabled: bool,
    pub start_timeout: Duration,
}
impl ServerOpts {
    pub fn new(prop: &str, name: &str) -> Self {
        ServerOpts {
            prop: prop.to_string(),
            name: name.to_string(),
            tenants: vec![],
            dimension: 2,
            distance: "euclidean".into(),
            extra: BTreeMap::new(),
            set: BTreeMap::new(),
            bin: None,
            env: vec![],
            auth_enabled: true,
            start_timeout: Duration::from_secs(20),
        }
    }
    /// Override one config value, e.g. `opts.set("cache", "capacity", "4")`.
    pub fn set(&mut self, section: &str, key: &str, value: &str) -> &mut Self {
        self.set.entry(section.into()).or_default().insert(key.into(), value.into());
        self
    }
}

/// A port that is free right now, taken from 15000..31000 (below the kernel's ephemeral range, so
/// client sockets of concurrently running harnesses cannot occupy it between the test and the
/// server's own bind). The remaining race (two servers picking the same port in the same ~100 ms)
/// is caught by the identity check in `spawn_once`.
fn free_port() -> u16 {
    use std::sync::atomic::{AtomicU64, Ordering};
    static CTR: AtomicU64 = AtomicU64::new(0);
    let nanos = std::time::SystemTime::now().duration_since(std::time::UNIX_EPOCH).map(|d| d.as_nanos() as u64).unwrap_or(0);
    let mut x = nanos ^ ((std::process::id() as u64) << 32) ^ CTR.fetch_add(1, Ordering::Relaxed).wrapping_mul(0x9E37_79B9_7F4A_7C15);
    for _ in 0..200 {
        x = x.wrapping_mul(6364136223846793005).wrapping_add(1442695040888963407);
        let p = 15000 + ((x >> 33) % 16000) as u16;
        if let Ok(l) = TcpListener::bind(("127.0.0.1", p)) {
            drop(l);
            return p;
        }
    }
    let l = TcpListener::bind("127.0.0.1:0").expect("bind 127.0.0.1:0");
    l.local_addr().unwrap().port()
}

// ------------------------------------------------------------------------------------------
// the server handle
// ------------------------------------------------------------------------------------------

pub struct Server {
    pub opts: ServerOpts,
    pub dir: PathBuf,
    pub data_dir: PathBuf,
    pub grpc_port: u16,
    pub http_port: u16,
    pub startup: Duration,
    child: Option<Child>,
    rt: tokio::runtime::Runtime,
    channel: Option<Channel>,
}

/// Attach (or not) the `x-api-key` header to a request.
pub fn with_key<T>(msg: T, key: Option<&str>) -> tonic::Request<T> {
    let mut r = tonic::Request::new(msg);
    if let Some(k) = key {
        if let Ok(v) = k.parse() {
            r.metadata_mut().insert("x-api-key", v);
        }
    }
    r
}
fn err(s: tonic::Status) -> RpcErr {
    RpcErr { code: Code::from_tonic(s.code()), message: s.message().to_string() }
}

impl Server {
    /// Scratch dir is wiped; a fresh data dir, config and key file are written; the binary is spawned.
    pub fn start(opts: ServerOpts) -> Result<Server, String> {
        let dir = Path::new(RUN_ROOT).join(&opts.prop).join(&opts.name);
        let _ = std::fs::remove_dir_all(&dir);
        std::fs::create_dir_all(dir.join("data")).map_err(|e| format!("mkdir {}: {}", dir.display(), e))?;
        let rt = tokio::runtime::Builder::new_multi_thread()
            .worker_threads(2)
            .enable_all()
            .build()
            .map_err(|e| e.to_string())?;
        let mut s = Server {
            data_dir: dir.join("data"),
            dir,
            opts,
            grpc_port: 0,
            http_port: 0,
            startup: Duration::ZERO,
            child: None,
            rt,
            channel: None,
        };
        s.write_keys()?;
        s.spawn_with_retry()?;
        Ok(s)
    }

    pub fn keys_path(&self) -> PathBuf {
        self.dir.join("api_keys.yaml")
    }
    pub fn config_path(&self) -> PathBuf {
        self.dir.join("config.toml")
    }
    pub fn log_path(&self) -> PathBuf {
        self.dir.join("server.log")
    }
    /// API key of a tenant declared in the options (panics when unknown).
    pub fn key(&self, tenant_id: &str) -> String {
        self.opts.tenants.iter().find(|t| t.tenant_id == tenant_id).map(|t| t.key.clone()).expect("unknown tenant")
    }
    /// All API keys declared for a tenant (in declaration order).
    pub fn keys_of(&self, tenant_id: &str) -> Vec<String> {
        self.opts.tenants.iter().filter(|t| t.tenant_id == tenant_id).map(|t| t.key.clone()).collect()
    }
    /// Declare another key-file entry; takes effect at the next `restart()`.
    pub fn add_tenant(&mut self, spec: TenantSpec) {
        self.opts.tenants.push(spec);
    }
    /// The persisted tenant-id -> tenant-index map (`<data_dir>/tenants.json`), if present.
    pub fn tenant_map(&self) -> Option<BTreeMap<String, u32>> {
        let bytes = std::fs::read(self.data_dir.join("tenants.json")).ok()?;
        let v: serde_json::Value = serde_json::from_slice(&bytes).ok()?;
        Some(v.as_object()?.iter().filter_map(|(k, x)| x.as_u64().map(|i| (k.clone(), i as u32))).collect())
    }
    /// Index the server assigns on a fresh data dir: enabled tenants sorted by id, numbered from 0
    /// (`TenantIdMapper::load_or_create`). `None` for a tenant without an enabled key.
    pub fn tenant_index(&self, tenant_id: &str) -> Option<u32> {
        let mut ids: Vec<&str> = self.opts.tenants.iter().filter(|t| t.enabled).map(|t| t.tenant_id.as_str()).collect();
        ids.sort();
        ids.dedup();
        ids.iter().position(|t| *t == tenant_id).map(|p| p as u32)
    }

    fn write_keys(&self) -> Result<(), String> {
        let mut y = String::from("api_keys:\n");
        for t in &self.opts.tenants {
            y.push_str(&format!(
                "  - key: {}\n    tenant_id: {}\n    tenant_name: \"Tenant {}\"\n    max_qps: {}\n    max_vectors: {}\n    is_admin: {}\n    enabled: {}\n",
                t.key, t.tenant_id, t.tenant_id, t.max_qps, t.max_vectors, t.is_admin, t.enabled
            ));
        }
        if self.opts.tenants.is_empty() {
            y = "api_keys: []\n".into();
        }
        std::fs::write(self.keys_path(), y).map_err(|e| e.to_string())
    }

    /// The generated TOML (defaults below, then `opts.set` overrides, then `opts.extra` lines).
    pub fn config_text(&self) -> String {
        let mut sections: Vec<(&str, Vec<(String, String)>)> = vec![
            ("server", vec![
                ("host".into(), "\"127.0.0.1\"".into()),
                ("port".into(), self.grpc_port.to_string()),
                ("http_port".into(), self.http_port.to_string()),
            ]),
            ("cache", vec![
                ("capacity".into(), "100".into()),
                ("min_training_samples".into(), "10".into()),
                ("enable_training_task".into(), "false".into()),
                // exact-match query cache only: similarity hits need cosine > threshold
                ("query_cache_similarity_threshold".into(), "1.0".into()),
                ("hot_tier_max_age_secs".into(), "86400".into()),
            ]),
            ("hnsw", vec![
                ("dimension".into(), self.opts.dimension.to_string()),
                ("distance".into(), format!("\"{}\"", self.opts.distance)),
            ]),
            ("persistence", vec![
                ("data_dir".into(), format!("\"{}\"", self.data_dir.display())),
                ("fsync_policy".into(), "\"full\"".into()),
            ]),
            ("logging", vec![
                ("level".into(), "\"warn\"".into()),
                ("file".into(), format!("\"{}\"", self.log_path().display())),
            ]),
            ("auth", if self.opts.auth_enabled {
                vec![("enabled".into(), "true".into()), ("api_keys_file".into(), format!("\"{}\"", self.keys_path().display()))]
            } else {
                vec![("enabled".into(), "false".into())]
            }),
            ("environment", vec![("type".into(), "\"production\"".into())]),
        ];
        let mut out = String::new();
        let mut seen: Vec<String> = vec![];
        for (name, kvs) in sections.iter_mut() {
            if let Some(ov) = self.opts.set.get(*name) {
                for (k, v) in ov {
                    if let Some(e) = kvs.iter_mut().find(|(kk, _)| kk == k) {
                        e.1 = v.clone();
                    } else {
                        kvs.push((k.clone(), v.clone()));
                    }
                }
            }
            out.push_str(&format!("[{}]\n", name));
            for (k, v) in kvs.iter() {
                out.push_str(&format!("{} = {}\n", k, v));
            }
            if let Some(lines) = self.opts.extra.get(*name) {
                for l in lines {
                    out.push_str(l);
                    out.push('\n');
                }
            }
            out.push('\n');
            seen.push(name.to_string());
        }
        for (name, ov) in &self.opts.set {
            if !seen.contains(name) {
                out.push_str(&format!("[{}]\n", name));
                for (k, v) in ov {
                    out.push_str(&format!("{} = {}\n", k, v));
                }
                if let Some(lines) = self.opts.extra.get(name) {
                    for l in lines {
                        out.push_str(l);
                        out.push('\n');
                    }
                }
                out.push('\n');
                seen.push(name.clone());
            }
        }
        for (name, lines) in &self.opts.extra {
            if !seen.contains(name) {
                out.push_str(&format!("[{}]\n{}\n\n", name, lines.join("\n")));
            }
        }
        out
    }

    fn bin(&self) -> PathBuf {
        if let Some(b) = &self.opts.bin {
            return b.clone();
        }
        if let Ok(b) = std::env::var("KVH_SERVER_BIN") {
            if !b.is_empty() {
                return PathBuf::from(b);
            }
        }
        PathBuf::from(DEFAULT_BIN)
    }

    fn spawn_with_retry(&mut self) -> Result<(), String> {
        let mut last = String::new();
        for _attempt in 0..4 {
            self.grpc_port = free_port();
            self.http_port = free_port();
            if self.http_port == self.grpc_port {
                continue;
            }
            match self.spawn_once() {
                Ok(()) => return Ok(()),
                Err(e) => {
                    last = e;
                    self.kill();
                }
            }
        }
        Err(format!("server did not start: {}", last))
    }

    fn spawn_once(&mut self) -> Result<(), String> {
        std::fs::write(self.config_path(), self.config_text()).map_err(|e| e.to_string())?;
        let _ = std::fs::remove_file(self.log_path()); // the bind-failure scan below must see this attempt only
        let t0 = Instant::now();
        let stderr = std::fs::OpenOptions::new()
            .create(true)
            .append(true)
            .open(self.dir.join("stderr.log"))
            .map_err(|e| e.to_string())?;
        let stdout = stderr.try_clone().map_err(|e| e.to_string())?;
        let mut cmd = Command::new(self.bin());
        cmd.arg("--config").arg(self.config_path()).stdin(Stdio::null()).stdout(stdout).stderr(stderr);
        // never inherit overrides from the environment of the check
        for k in ["KYRODB_CONFIG", "KYRODB_PORT", "KYRODB_DATA_DIR", "RUST_LOG"] {
            cmd.env_remove(k);
        }
        for (k, v) in &self.opts.env {
            cmd.env(k, v);
        }
        let child = cmd.spawn().map_err(|e| format!("spawn {}: {}", self.bin().display(), e))?;
        self.child = Some(child);
        // readiness: gRPC port accepts a connection (the HTTP listener binds ~100 ms earlier)
        let deadline = Instant::now() + self.opts.start_timeout;
        loop {
            if let Some(c) = self.child.as_mut() {
                if let Ok(Some(st)) = c.try_wait() {
                    let tail = std::fs::read_to_string(self.dir.join("stderr.log")).unwrap_or_default();
                    let tail: String = tail.chars().rev().take(600).collect::<String>().chars().rev().collect();
                    return Err(format!("server exited during start-up ({}): {}", st, tail));
                }
            }
            if TcpStream::connect_timeout(&format!("127.0.0.1:{}", self.grpc_port).parse().unwrap(), Duration::from_millis(200)).is_ok() {
                break;
            }
            if Instant::now() > deadline {
                return Err("timeout waiting for the gRPC port".into());
            }
            std::thread::sleep(Duration::from_millis(20));
        }
        let uri = format!("http://127.0.0.1:{}", self.grpc_port);
        let ch = self
            .rt
            .block_on(async { Endpoint::from_shared(uri).unwrap().connect_timeout(Duration::from_secs(5)).connect().await })
            .map_err(|e| format!("connect: {}", e))?;
        self.channel = Some(ch);
        // identity: the process behind the port must be OUR child (another harness may have raced us
        // to the port, in which case our child fails to bind and exits ~0.6 s later)
        let key = self.opts.tenants.iter().find(|t| t.enabled).map(|t| t.key.clone());
        let key = if self.opts.auth_enabled { key } else { None };
        if !self.opts.auth_enabled || key.is_some() {
            match self.get_config_rpc(key.as_deref()) {
                Ok(c) if Path::new(&c.data_dir) == self.data_dir.as_path() => {}
                Ok(c) => return Err(format!("port {} answers for another data dir ({})", self.grpc_port, c.data_dir)),
                Err(e) => return Err(format!("identity check failed: {:?}", e)),
            }
        }
        // the HTTP listener binds before the gRPC one; a failed bind is only logged by the server
        match self.http_get("/health", None) {
            Ok(h) if h.status == 200 || h.status == 503 => {}
            other => return Err(format!("HTTP port {} not serving: {:?}", self.http_port, other.map(|h| h.status))),
        }
        let log = std::fs::read_to_string(self.log_path()).unwrap_or_default();
        if log.contains("Failed to bind HTTP") {
            return Err("server could not bind its HTTP port".into());
        }
        if !self.is_running() {
            return Err("server exited right after start-up".into());
        }
        self.startup = t0.elapsed();
        Ok(())
    }

    pub fn is_running(&mut self) -> bool {
        match self.child.as_mut() {
            Some(c) => matches!(c.try_wait(), Ok(None)),
            None => false,
        }
    }
    pub fn pid(&self) -> Option<u32> {
        self.child.as_ref().map(|c| c.id())
    }

    /// SIGTERM, wait for the process to leave (graceful shutdown flushes the hot tier and persists
    /// usage state; takes ~0.6 s), SIGKILL after `8 s`. Returns true when the exit was clean.
    pub fn stop_graceful(&mut self) -> Result<bool, String> {
        self.channel = None;
        let Some(mut c) = self.child.take() else { return Ok(true) };
        unsafe {
            libc::kill(c.id() as i32, libc::SIGTERM);
        }
        let deadline = Instant::now() + Duration::from_secs(8);
        loop {
            match c.try_wait() {
                Ok(Some(st)) => return Ok(st.success()),
                Ok(None) => {}
                Err(e) => return Err(e.to_string()),
            }
            if Instant::now() > deadline {
                let _ = c.kill();
                let _ = c.wait();
                return Ok(false);
            }
            std::thread::sleep(Duration::from_millis(20));
        }
    }
    /// SIGKILL (crash). Data dir is left as it is.
    pub fn kill(&mut self) {
        self.channel = None;
        if let Some(mut c) = self.child.take() {
            let _ = c.kill();
            let _ = c.wait();
        }
    }
    /// Start the binary again on the same data dir / key file (new ports). Call after stop/kill.
    pub fn restart(&mut self) -> Result<(), String> {
        if self.child.is_some() {
            self.kill();
        }
        self.write_keys()?;
        self.spawn_with_retry()
    }

    pub fn runtime(&self) -> &tokio::runtime::Runtime {
        &self.rt
    }
    pub fn raw_client(&self) -> KyroDbServiceClient<Channel> {
        KyroDbServiceClient::new(self.channel.clone().expect("server not running"))
    }

    // ---------------------------------------------------------------- RPC helpers (blocking)
    fn item_pb(it: &Item) -> pb::InsertRequest {
        pb::InsertRequest {
            doc_id: it.doc_id,
            embedding: it.embedding.clone(),
            metadata: meta_map(&it.metadata),
            namespace: it.namespace.clone(),
        }
    }
    fn insert_out(r: pb::InsertResponse) -> InsertOut {
        InsertOut { success: r.success, total_inserted: r.total_inserted, total_failed: r.total_failed, error: r.error }
    }
    fn query_out(r: pb::QueryResponse) -> QueryOut {
        QueryOut {
            found: r.found,
            doc_id: r.doc_id,
            embedding: bits(&r.embedding),
            metadata: sort_meta(r.metadata),
            served_from: r.served_from,
            error: r.error,
        }
    }
    fn search_out(r: pb::SearchResponse) -> SearchOut {
        SearchOut {
            hits: r
                .results
                .into_iter()
                .map(|h| SearchHit { doc_id: h.doc_id, score_bits: h.score.to_bits(), embedding: bits(&h.embedding), metadata: sort_meta(h.metadata) })
                .collect(),
            total_found: r.total_found,
            search_path: r.search_path,
            error: r.error,
        }
    }

    pub fn insert_item(&self, key: Option<&str>, it: &Item) -> Rpc<InsertOut> {
        let mut c = self.raw_client();
        let req = with_key(Self::item_pb(it), key);
        self.rt.block_on(async move { c.insert(req).await }).map(|r| Self::insert_out(r.into_inner())).map_err(err)
    }
    pub fn insert(&self, key: Option<&str>, doc_id: u64, embedding: &[f32], metadata: &[(&str, &str)], namespace: &str) -> Rpc<InsertOut> {
        self.insert_item(key, &Item { doc_id, embedding: embedding.to_vec(), metadata: meta_of(metadata), namespace: namespace.into() })
    }
    /// Client-streaming BulkInsert.
    pub fn bulk_insert(&self, key: Option<&str>, items: &[Item]) -> Rpc<InsertOut> {
        let mut c = self.raw_client();
        let msgs: Vec<pb::InsertRequest> = items.iter().map(Self::item_pb).collect();
        let req = with_key(tokio_stream::iter(msgs), key);
        self.rt.block_on(async move { c.bulk_insert(req).await }).map(|r| Self::insert_out(r.into_inner())).map_err(err)
    }
    /// Client-streaming BulkLoadHnsw (cold tier only).
    pub fn bulk_load_hnsw(&self, key: Option<&str>, items: &[Item]) -> Rpc<BulkLoadOut> {
        let mut c = self.raw_client();
        let msgs: Vec<pb::InsertRequest> = items.iter().map(Self::item_pb).collect();
        let req = with_key(tokio_stream::iter(msgs), key);
        self.rt
            .block_on(async move { c.bulk_load_hnsw(req).await })
            .map(|r| {
                let r = r.into_inner();
                BulkLoadOut { success: r.success, total_loaded: r.total_loaded, total_failed: r.total_failed, error: r.error }
            })
            .map_err(err)
    }
    pub fn query(&self, key: Option<&str>, doc_id: u64, include_embedding: bool, namespace: &str) -> Rpc<QueryOut> {
        let mut c = self.raw_client();
        let req = with_key(pb::QueryRequest { doc_id, include_embedding, namespace: namespace.into() }, key);
        self.rt.block_on(async move { c.query(req).await }).map(|r| Self::query_out(r.into_inner())).map_err(err)
    }
    pub fn bulk_query(&self, key: Option<&str>, doc_ids: &[u64], include_embeddings: bool, namespace: &str) -> Rpc<BulkQueryOut> {
        let mut c = self.raw_client();
        let req = with_key(pb::BulkQueryRequest { doc_ids: doc_ids.to_vec(), include_embeddings, namespace: namespace.into() }, key);
        self.rt
            .block_on(async move { c.bulk_query(req).await })
            .map(|r| {
                let r = r.into_inner();
                BulkQueryOut {
                    results: r.results.into_iter().map(Self::query_out).collect(),
                    total_found: r.total_found,
                    total_requested: r.total_requested,
                    error: r.error,
                }
            })
            .map_err(err)
    }
    pub fn search(&self, key: Option<&str>, s: &SearchReq) -> Rpc<SearchOut> {
        let mut c = self.raw_client();
        let req = with_key(s.to_pb(), key);
        self.rt.block_on(async move { c.search(req).await }).map(|r| Self::search_out(r.into_inner())).map_err(err)
    }
    /// Bidirectional BulkSearch: all requests are streamed, then the response stream is drained.
    /// Outer Err = the call itself was refused; inner items are per-request outcomes in order.
    pub fn bulk_search(&self, key: Option<&str>, reqs: &[SearchReq]) -> Rpc<Vec<Rpc<SearchOut>>> {
        let mut c = self.raw_client();
        let msgs: Vec<pb::SearchRequest> = reqs.iter().map(|s| s.to_pb()).collect();
        let req = with_key(tokio_stream::iter(msgs), key);
        self.rt.block_on(async move {
            let resp = c.bulk_search(req).await.map_err(err)?;
            let mut st = resp.into_inner();
            let mut out = vec![];
            loop {
                match st.message().await {
                    Ok(Some(m)) => out.push(Ok(Self::search_out(m))),
                    Ok(None) => break,
                    Err(e) => {
                        out.push(Err(err(e)));
                        break;
                    }
                }
            }
            Ok(out)
        })
    }
    pub fn update_metadata(&self, key: Option<&str>, doc_id: u64, metadata: &[(String, String)], merge: bool, namespace: &str) -> Rpc<ExistedOut> {
        let mut c = self.raw_client();
        let req = with_key(pb::UpdateMetadataRequest { doc_id, metadata: meta_map(metadata), merge, namespace: namespace.into() }, key);
        self.rt
            .block_on(async move { c.update_metadata(req).await })
            .map(|r| {
                let r = r.into_inner();
                ExistedOut { success: r.success, existed: r.existed, error: r.error }
            })
            .map_err(err)
    }
    pub fn delete(&self, key: Option<&str>, doc_id: u64, namespace: &str) -> Rpc<ExistedOut> {
        let mut c = self.raw_client();
        let req = with_key(pb::DeleteRequest { doc_id, namespace: namespace.into() }, key);
        self.rt
            .block_on(async move { c.delete(req).await })
            .map(|r| {
                let r = r.into_inner();
                ExistedOut { success: r.success, existed: r.existed, error: r.error }
            })
            .map_err(err)
    }
    fn batch_delete_raw(&self, key: Option<&str>, crit: Option<pb::batch_delete_request::DeleteCriteria>, namespace: &str) -> Rpc<BatchDeleteOut> {
        let mut c = self.raw_client();
        let req = with_key(pb::BatchDeleteRequest { delete_criteria: crit, namespace: namespace.into() }, key);
        self.rt
            .block_on(async move { c.batch_delete(req).await })
            .map(|r| {
                let r = r.into_inner();
                BatchDeleteOut { success: r.success, deleted_count: r.deleted_count, error: r.error }
            })
            .map_err(err)
    }
    pub fn batch_delete_ids(&self, key: Option<&str>, doc_ids: &[u64], namespace: &str) -> Rpc<BatchDeleteOut> {
        self.batch_delete_raw(key, Some(pb::batch_delete_request::DeleteCriteria::Ids(pb::IdList { doc_ids: doc_ids.to_vec() })), namespace)
    }
    pub fn batch_delete_filter(&self, key: Option<&str>, filter: pb::MetadataFilter, namespace: &str) -> Rpc<BatchDeleteOut> {
        self.batch_delete_raw(key, Some(pb::batch_delete_request::DeleteCriteria::Filter(filter)), namespace)
    }
    /// BatchDelete with no criteria set (the server answers INVALID_ARGUMENT).
    pub fn batch_delete_none(&self, key: Option<&str>, namespace: &str) -> Rpc<BatchDeleteOut> {
        self.batch_delete_raw(key, None, namespace)
    }
    pub fn flush_hot_tier(&self, key: Option<&str>, force: bool) -> Rpc<FlushOut> {
        let mut c = self.raw_client();
        let req = with_key(pb::FlushRequest { force }, key);
        self.rt
            .block_on(async move { c.flush_hot_tier(req).await })
            .map(|r| {
                let r = r.into_inner();
                FlushOut { success: r.success, documents_flushed: r.documents_flushed, error: r.error }
            })
            .map_err(err)
    }
    pub fn create_snapshot(&self, key: Option<&str>, path: &str) -> Rpc<SnapshotOut> {
        let mut c = self.raw_client();
        let req = with_key(pb::SnapshotRequest { path: path.into() }, key);
        self.rt
            .block_on(async move { c.create_snapshot(req).await })
            .map(|r| {
                let r = r.into_inner();
                SnapshotOut {
                    success: r.success,
                    documents_snapshotted: r.documents_snapshotted,
                    snapshot_size_bytes: r.snapshot_size_bytes,
                    snapshot_path: r.snapshot_path,
                    error: r.error,
                }
            })
            .map_err(err)
    }
    /// gRPC Health: returns the status enum number.
    pub fn health_rpc(&self, key: Option<&str>) -> Rpc<i32> {
        let mut c = self.raw_client();
        let req = with_key(pb::HealthRequest { component: String::new() }, key);
        self.rt.block_on(async move { c.health(req).await }).map(|r| r.into_inner().status).map_err(err)
    }
    /// gRPC Metrics: (cold_tier_size, hot_tier_size, total_inserts, total_queries).
    pub fn metrics_rpc(&self, key: Option<&str>) -> Rpc<(u64, u64, u64, u64)> {
        let mut c = self.raw_client();
        let req = with_key(pb::MetricsRequest { categories: vec![] }, key);
        self.rt
            .block_on(async move { c.metrics(req).await })
            .map(|r| {
                let r = r.into_inner();
                (r.cold_tier_size, r.hot_tier_size, r.total_inserts, r.total_queries)
            })
            .map_err(err)
    }
    pub fn get_config_rpc(&self, key: Option<&str>) -> Rpc<pb::ConfigResponse> {
        let mut c = self.raw_client();
        let req = with_key(pb::ConfigRequest {}, key);
        self.rt.block_on(async move { c.get_config(req).await }).map(|r| r.into_inner()).map_err(err)
    }

    // ---------------------------------------------------------------- HTTP
    /// Plain HTTP/1.1 GET against the observability port. `key` is sent as `x-api-key`;
    /// `bearer` (if given) as `Authorization: Bearer …`.
    pub fn http_get_full(&self, path: &str, key: Option<&str>, bearer: Option<&str>) -> Result<HttpOut, String> {
        let mut s = TcpStream::connect(("127.0.0.1", self.http_port)).map_err(|e| e.to_string())?;
        s.set_read_timeout(Some(Duration::from_secs(10))).ok();
        let mut req = format!("GET {} HTTP/1.1\r\nHost: 127.0.0.1:{}\r\nConnection: close\r\nAccept: */*\r\n", path, self.http_port);
        if let Some(k) = key {
            req.push_str(&format!("x-api-key: {}\r\n", k));
        }
        if let Some(b) = bearer {
            req.push_str(&format!("Authorization: Bearer {}\r\n", b));
        }
        req.push_str("\r\n");
        s.write_all(req.as_bytes()).map_err(|e| e.to_string())?;
        let mut buf = Vec::new();
        let _ = s.read_to_end(&mut buf);
        let text = String::from_utf8_lossy(&buf).to_string();
        let (head, body) = match text.find("\r\n\r\n") {
            Some(p) => (text[..p].to_string(), text[p + 4..].to_string()),
            None => (text.clone(), String::new()),
        };
        let status: u16 = head.split_whitespace().nth(1).and_then(|x| x.parse().ok()).ok_or_else(|| format!("bad HTTP response: {:?}", head))?;
        let chunked = head.to_ascii_lowercase().contains("transfer-encoding: chunked");
        let body = if chunked { dechunk(&body) } else { body };
        Ok(HttpOut { status, body })
    }
    pub fn http_get(&self, path: &str, key: Option<&str>) -> Result<HttpOut, String> {
        self.http_get_full(path, key, None)
    }
    /// GET /usage[?scope=…] parsed into rows (empty rows on a non-200 answer).
    pub fn usage(&self, key: Option<&str>, scope: Option<&str>) -> Result<UsageOut, String> {
        let path = match scope {
            Some(s) => format!("/usage?scope={}", s),
            None => "/usage".to_string(),
        };
        let h = self.http_get(&path, key)?;
        let mut rows = vec![];
        if h.status == 200 {
            if let Ok(v) = serde_json::from_str::<serde_json::Value>(&h.body) {
                if let Some(ts) = v["tenants"].as_array() {
                    for t in ts {
                        let g = |k: &str| t[k].as_u64().unwrap_or(0);
                        rows.push(UsageRow {
                            tenant_id: t["tenant_id"].as_str().unwrap_or("").to_string(),
                            query_count: g("query_count"),
                            insert_count: g("insert_count"),
                            delete_count: g("delete_count"),
                            vector_count: g("vector_count"),
                            storage_bytes: g("storage_bytes"),
                            billable_events: g("billable_events"),
                        });
                    }
                }
            }
        }
        rows.sort_by(|a, b| a.tenant_id.cmp(&b.tenant_id));
        Ok(UsageOut { status: h.status, tenants: rows, body: h.body })
    }
}

fn dechunk(body: &str) -> String {
    let mut out = String::new();
    let mut rest = body;
    loop {
        let Some(p) = rest.find("\r\n") else { break };
        let n = usize::from_str_radix(rest[..p].trim(), 16).unwrap_or(0);
        if n == 0 {
            break;
        }
        let start = p + 2;
        if start + n > rest.len() {
            out.push_str(&rest[start..]);
            break;
        }
        out.push_str(&rest[start..start + n]);
        rest = &rest[(start + n).min(rest.len())..];
        rest = rest.strip_prefix("\r\n").unwrap_or(rest);
    }
    out
}

impl Drop for Server {
    fn drop(&mut self) {
        self.kill();
    }
}
