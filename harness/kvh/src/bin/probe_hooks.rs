fn main() {
    use kyrodb_engine::rate_limiter::{verif_clock, TokenBucket};
    let mut b = TokenBucket::new(2);
    assert!(b.try_consume());
    assert!(b.try_consume());
    assert!(!b.try_consume());
    verif_clock::advance_nanos(500_000_000);
    assert!(b.try_consume());
    assert!(!b.try_consume());
    println!("search_k {}", kyrodb_engine::hnsw_backend::verif_compute_search_k(5, 10, 100));
    println!("hash {}", kyrodb_engine::query_hash_cache::QueryHashCache::verif_hash_embedding(&[0.5, 0.25]));
    println!("hooks ok");
}
