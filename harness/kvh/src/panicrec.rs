//! Panic recorder: a driver registers the input (case / history / plan) it is about to run on the
//! current thread; if that thread panics (typically inside the engine), the hook writes the input,
//! the panic location and message to the file named by KVH_PANIC_FILE, so that the check can report
//! the panic with a concrete failing input instead of "harness crashed".
use std::cell::RefCell;
use std::io::Write;

thread_local! {
    static CURRENT: RefCell<Option<String>> = const { RefCell::new(None) };
}

/// Register the input the calling thread is about to run (any printable form; JSON preferred).
pub fn set_input(s: String) {
    CURRENT.with(|c| *c.borrow_mut() = Some(s));
}

pub fn set_input_debug<T: std::fmt::Debug>(t: &T) {
    set_input(format!("{:?}", t));
}

pub fn clear_input() {
    CURRENT.with(|c| *c.borrow_mut() = None);
}

/// Install the hook (idempotent enough: chains to the previous hook).
pub fn install() {
    let prev = std::panic::take_hook();
    std::panic::set_hook(Box::new(move |info| {
        if let Ok(path) = std::env::var("KVH_PANIC_FILE") {
            let input = CURRENT.with(|c| c.try_borrow().ok().and_then(|x| x.clone()));
            if input.is_none() {
                // threads that registered no input (joins, deliberate catch_unwind probes) are not recorded
                prev(info);
                return;
            }
            let loc = info
                .location()
                .map(|l| format!("{}:{}:{}", l.file(), l.line(), l.column()))
                .unwrap_or_default();
            let msg = if let Some(s) = info.payload().downcast_ref::<&str>() {
                s.to_string()
            } else if let Some(s) = info.payload().downcast_ref::<String>() {
                s.clone()
            } else {
                "<non-string panic payload>".to_string()
            };
            let rec = serde_json::json!({
                "panic_location": loc,
                "panic_message": msg,
                "input": input,
                "thread": std::thread::current().name().unwrap_or("").to_string(),
            });
            // first panic wins (later ones are usually consequences: poisoned locks, joins)
            if let Ok(mut f) = std::fs::OpenOptions::new().write(true).create_new(true).open(&path) {
                let _ = writeln!(f, "{}", rec);
            }
        }
        prev(info);
    }));
}
