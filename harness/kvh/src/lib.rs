//! Shared helpers for the verification harness binaries (one binary per property).
pub mod rng;
pub mod coqfmt;
pub mod panicrec;
