//! splitmix64: every random choice of a harness run derives from one state seeded by VERIF_SEED.
#[derive(Clone, Debug)]
pub struct Rng(pub u64);

impl Rng {
    pub fn new(seed: u64) -> Self {
        Rng(seed ^ 0x9E37_79B9_7F4A_7C15)
    }
    pub fn from_env() -> Self {
        let seed = std::env::var("VERIF_SEED")
            .ok()
            .and_then(|s| s.parse::<u64>().ok())
            .unwrap_or(1);
        Self::new(seed)
    }
    pub fn fork(&mut self, tag: u64) -> Rng {
        let a = self.next_u64();
        Rng(a ^ tag.wrapping_mul(0xD6E8_FEB8_6659_FD93))
    }
    pub fn next_u64(&mut self) -> u64 {
        self.0 = self.0.wrapping_add(0x9E37_79B9_7F4A_7C15);
        let mut z = self.0;
        z = (z ^ (z >> 30)).wrapping_mul(0xBF58_476D_1CE4_E5B9);
        z = (z ^ (z >> 27)).wrapping_mul(0x94D0_49BB_1331_11EB);
        z ^ (z >> 31)
    }
    /// uniform in 0..n (n > 0)
    pub fn below(&mut self, n: u64) -> u64 {
        self.next_u64() % n
    }
    pub fn range(&mut self, lo: u64, hi_incl: u64) -> u64 {
        lo + self.below(hi_incl - lo + 1)
    }
    pub fn chance(&mut self, num: u64, den: u64) -> bool {
        self.below(den) < num
    }
    pub fn pick<'a, T>(&mut self, xs: &'a [T]) -> &'a T {
        &xs[self.below(xs.len() as u64) as usize]
    }
}
