//! Tiny printers for Gallina literals (N, Z, bool, lists, options) used when writing cases.v files.
pub fn n(x: u64) -> String {
    format!("{}%N", x)
}
pub fn z(x: i128) -> String {
    if x < 0 {
        format!("({})%Z", x)
    } else {
        format!("{}%Z", x)
    }
}
pub fn b(x: bool) -> &'static str {
    if x {
        "true"
    } else {
        "false"
    }
}
pub fn list<T, F: Fn(&T) -> String>(xs: &[T], f: F) -> String {
    let parts: Vec<String> = xs.iter().map(|x| f(x)).collect();
    format!("[{}]", parts.join("; "))
}
pub fn opt<T, F: Fn(&T) -> String>(x: &Option<T>, f: F) -> String {
    match x {
        None => "None".to_string(),
        Some(v) => format!("(Some {})", f(v)),
    }
}
pub fn f32_bits(v: f32) -> String {
    z(v.to_bits() as i128)
}

/// Exact rational value of a finite f64 as a Gallina Q literal `(num # den)` (den a power of two).
pub fn f64_q(v: f64) -> String {
    assert!(v.is_finite());
    if v == 0.0 {
        return "(0 # 1)".to_string();
    }
    let bits = v.to_bits();
    let sign = if (bits >> 63) != 0 { -1i128 } else { 1i128 };
    let exp = ((bits >> 52) & 0x7ff) as i32;
    let frac = (bits & ((1u64 << 52) - 1)) as i128;
    let (mut mant, mut e) = if exp == 0 {
        (frac, -1074)
    } else {
        (frac | (1i128 << 52), exp - 1075)
    };
    while mant % 2 == 0 && e < 0 {
        mant /= 2;
        e += 1;
    }
    if e >= 0 {
        // integers up to 2^(53+e): use a big-number string via repeated doubling
        let mut num = BigU::from_u128(mant as u128);
        for _ in 0..e {
            num.double();
        }
        format!("({}{} # 1)", if sign < 0 { "-" } else { "" }, num.to_string())
    } else {
        let mut den = BigU::from_u128(1);
        for _ in 0..(-e) {
            den.double();
        }
        format!("({}{} # {})", if sign < 0 { "-" } else { "" }, mant, den.to_string())
    }
}

/// Minimal unsigned big integer (decimal digits) — enough for powers of two in Q literals.
pub struct BigU(Vec<u8>);
impl BigU {
    pub fn from_u128(mut x: u128) -> Self {
        let mut d = vec![];
        if x == 0 {
            d.push(0);
        }
        while x > 0 {
            d.push((x % 10) as u8);
            x /= 10;
        }
        BigU(d)
    }
    pub fn double(&mut self) {
        let mut carry = 0u8;
        for d in self.0.iter_mut() {
            let v = *d * 2 + carry;
            *d = v % 10;
            carry = v / 10;
        }
        if carry > 0 {
            self.0.push(carry);
        }
    }
    pub fn to_string(&self) -> String {
        self.0.iter().rev().map(|d| (b'0' + d) as char).collect()
    }
}
