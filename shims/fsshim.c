/* fsshim: LD_PRELOAD interposer used by the C01/C03/C12/C13 checks.
 *
 * Traces, and optionally fails or "crashes at", every file-system EFFECT issued under one
 * directory prefix:  open(O_CREAT) / write / pwrite / writev / fsync / fdatasync / ftruncate /
 * rename / unlink / mkdir.   Reads are never touched.
 *
 *   FSSHIM_PREFIX   absolute path prefix to watch (required; otherwise the shim is inert)
 *   FSSHIM_LOG      log file (appended; one line per effect and per marker)
 *   FSSHIM_CRASH    "k[:torn]"  at the k-th effect (1-based, counted since the last reset) the
 *                   process _exit(137)s BEFORE performing it; with :torn and a write effect, the
 *                   first `torn` bytes are written first (torn prefix of the last write)
 *   FSSHIM_FAULT    comma list of "kind:n:ERRNO[:partial]"; the n-th effect of that kind (write,
 *                   fsync, fdatasync, ftruncate, rename, unlink, open; 1-based since last reset)
 *                   fails with ERRNO (ENOSPC EIO EDQUOT EINTR EACCES); for write with :partial the
 *                   first `partial` bytes are written and a short count is returned instead
 *
 * The harness can re-arm at run time through exported functions (found with dlsym):
 *   fsshim_reset(), fsshim_set_crash(k, torn), fsshim_set_fault(spec), fsshim_mark(text),
 *   fsshim_count()
 *
 * Log line:  E <idx> <kind> <path> off=<offset> len=<n> ret=<r> errno=<e> [-> <path2>]
 *            M <text>
 */
#define _GNU_SOURCE
#include <dlfcn.h>
#include <errno.h>
#include <fcntl.h>
#include <pthread.h>
#include <stdarg.h>
#include <stdio.h>
#include <stdlib.h>
#include <string.h>
#include <sys/stat.h>
#include <sys/types.h>
#include <sys/uio.h>
#include <unistd.h>

#define MAXFD 4096
#define MAXFAULT 32

static char *fd_path[MAXFD];
static pthread_mutex_t mu = PTHREAD_MUTEX_INITIALIZER;
static const char *prefix = NULL;
static size_t prefix_len = 0;
static int log_fd = -1;
static int data_fd = -1;
static long data_off = 0;
static long eff_count = 0;
static long crash_at = 0, crash_torn = -1;
static int inited = 0;

struct fault { char kind[16]; long n; int err; long partial; int used; };
static struct fault faults[MAXFAULT];
static int nfaults = 0;
static long kind_count[8];
static const char *kinds[8] = {"open", "write", "fsync", "fdatasync", "ftruncate", "rename", "unlink", "mkdir"};

static int (*real_open)(const char *, int, ...);
static int (*real_open64)(const char *, int, ...);
static int (*real_openat)(int, const char *, int, ...);
static int (*real_openat64)(int, const char *, int, ...);
static ssize_t (*real_write)(int, const void *, size_t);
static ssize_t (*real_pwrite64)(int, const void *, size_t, off_t);
static ssize_t (*real_writev)(int, const struct iovec *, int);
static int (*real_fsync)(int);
static int (*real_fdatasync)(int);
static int (*real_ftruncate64)(int, off_t);
static int (*real_ftruncate)(int, off_t);
static int (*real_rename)(const char *, const char *);
static int (*real_unlink)(const char *);
static int (*real_unlinkat)(int, const char *, int);
static int (*real_mkdir)(const char *, mode_t);
static int (*real_close)(int);

static int errno_of(const char *s) {
  if (!strcmp(s, "ENOSPC")) return ENOSPC;
  if (!strcmp(s, "EIO")) return EIO;
  if (!strcmp(s, "EDQUOT")) return EDQUOT;
  if (!strcmp(s, "EINTR")) return EINTR;
  if (!strcmp(s, "EACCES")) return EACCES;
  return atoi(s);
}

static void parse_faults(const char *spec) {
  nfaults = 0;
  if (!spec) return;
  char buf[2048];
  strncpy(buf, spec, sizeof buf - 1);
  buf[sizeof buf - 1] = 0;
  char *save = NULL;
  for (char *tok = strtok_r(buf, ",", &save); tok && nfaults < MAXFAULT; tok = strtok_r(NULL, ",", &save)) {
    char k[16], e[16];
    long n = 0, partial = -1;
    int got = sscanf(tok, "%15[^:]:%ld:%15[^:]:%ld", k, &n, e, &partial);
    if (got >= 3) {
      struct fault *f = &faults[nfaults++];
      strcpy(f->kind, k);
      f->n = n;
      f->err = errno_of(e);
      f->partial = got >= 4 ? partial : -1;
      f->used = 0;
    }
  }
}

static void init(void) {
  if (inited) return;
  inited = 1;
  real_open = dlsym(RTLD_NEXT, "open");
  real_open64 = dlsym(RTLD_NEXT, "open64");
  real_openat = dlsym(RTLD_NEXT, "openat");
  real_openat64 = dlsym(RTLD_NEXT, "openat64");
  real_write = dlsym(RTLD_NEXT, "write");
  real_pwrite64 = dlsym(RTLD_NEXT, "pwrite64");
  real_writev = dlsym(RTLD_NEXT, "writev");
  real_fsync = dlsym(RTLD_NEXT, "fsync");
  real_fdatasync = dlsym(RTLD_NEXT, "fdatasync");
  real_ftruncate64 = dlsym(RTLD_NEXT, "ftruncate64");
  real_ftruncate = dlsym(RTLD_NEXT, "ftruncate");
  real_rename = dlsym(RTLD_NEXT, "rename");
  real_unlink = dlsym(RTLD_NEXT, "unlink");
  real_unlinkat = dlsym(RTLD_NEXT, "unlinkat");
  real_mkdir = dlsym(RTLD_NEXT, "mkdir");
  real_close = dlsym(RTLD_NEXT, "close");
  prefix = getenv("FSSHIM_PREFIX");
  if (prefix && *prefix) prefix_len = strlen(prefix); else prefix = NULL;
  const char *lg = getenv("FSSHIM_LOG");
  if (prefix && lg) {
    log_fd = real_open(lg, O_WRONLY | O_CREAT | O_APPEND | O_CLOEXEC, 0644);
    if (getenv("FSSHIM_LOGDATA")) {
      char dp[1024];
      snprintf(dp, sizeof dp, "%s.data", lg);
      data_fd = real_open(dp, O_WRONLY | O_CREAT | O_APPEND | O_CLOEXEC, 0644);
      struct stat st;
      if (data_fd >= 0 && fstat(data_fd, &st) == 0) data_off = st.st_size;
    }
  }
  const char *cr = getenv("FSSHIM_CRASH");
  if (cr) {
    long k = 0, t = -1;
    int got = sscanf(cr, "%ld:%ld", &k, &t);
    if (got >= 1) crash_at = k;
    if (got >= 2) crash_torn = t;
  }
  parse_faults(getenv("FSSHIM_FAULT"));
}

static int watched(const char *p) { return prefix && p && strncmp(p, prefix, prefix_len) == 0; }

static void logf_(const char *fmt, ...) {
  if (log_fd < 0) return;
  char buf[1400];
  va_list ap;
  va_start(ap, fmt);
  int n = vsnprintf(buf, sizeof buf - 1, fmt, ap);
  va_end(ap);
  if (n < 0) return;
  if (n > (int)sizeof buf - 2) n = sizeof buf - 2;
  buf[n++] = '\n';
  real_write(log_fd, buf, n);
}

static const char *path_of(int fd) {
  if (fd < 0 || fd >= MAXFD) return NULL;
  return fd_path[fd];
}

static void remember(int fd, const char *p) {
  if (fd < 0 || fd >= MAXFD) return;
  pthread_mutex_lock(&mu);
  free(fd_path[fd]);
  fd_path[fd] = p ? strdup(p) : NULL;
  pthread_mutex_unlock(&mu);
}

/* Registers one effect: returns its index, decides crash / fault.
 * *fail_errno = 0 or errno to fail with; *partial = -1 or bytes to write before failing/short. */
static long effect(int kind, int *fail_errno, long *partial) {
  *fail_errno = 0;
  *partial = -1;
  pthread_mutex_lock(&mu);
  long idx = ++eff_count;
  long kc = ++kind_count[kind];
  for (int i = 0; i < nfaults; i++) {
    struct fault *f = &faults[i];
    if (!f->used && !strcmp(f->kind, kinds[kind]) && f->n == kc) {
      f->used = 1;
      *fail_errno = f->err;
      *partial = f->partial;
    }
  }
  pthread_mutex_unlock(&mu);
  return idx;
}

static void maybe_crash(long idx, int fd, const void *buf, size_t len) {
  if (crash_at > 0 && idx == crash_at) {
    if (crash_torn >= 0 && buf && fd >= 0) {
      size_t t = (size_t)crash_torn < len ? (size_t)crash_torn : len;
      if (t > 0) real_write(fd, buf, t);
      logf_("M CRASH at %ld torn=%zu", idx, t);
    } else {
      logf_("M CRASH at %ld", idx);
    }
    _exit(137);
  }
}

static off_t cur_size(int fd) {
  struct stat st;
  if (fstat(fd, &st) == 0) return st.st_size;
  return -1;
}

/* appends the written bytes to <log>.data and returns their offset there (-1 when off) */
static long save_data(const void *buf, size_t len) {
  if (data_fd < 0 || !buf || len == 0) return -1;
  pthread_mutex_lock(&mu);
  long o = data_off;
  ssize_t r = real_write(data_fd, buf, len);
  if (r > 0) data_off += r;
  pthread_mutex_unlock(&mu);
  return o;
}

/* ---------------- exported control ---------------- */
void fsshim_reset(void) {
  init();
  pthread_mutex_lock(&mu);
  eff_count = 0;
  memset(kind_count, 0, sizeof kind_count);
  for (int i = 0; i < nfaults; i++) faults[i].used = 0;
  pthread_mutex_unlock(&mu);
}
void fsshim_set_crash(long k, long torn) { init(); crash_at = k; crash_torn = torn; }
void fsshim_set_fault(const char *spec) { init(); pthread_mutex_lock(&mu); parse_faults(spec); pthread_mutex_unlock(&mu); }
void fsshim_mark(const char *text) { init(); logf_("M %s", text); }
long fsshim_count(void) { return eff_count; }

/* ---------------- interposed calls ---------------- */
static int open_common(int which, int dirfd, const char *path, int flags, mode_t mode) {
  init();
  int w = watched(path) && (flags & O_CREAT);
  int existed = 0;
  if (w) { struct stat st; existed = (stat(path, &st) == 0); }
  int fe = 0; long partial; long idx = 0;
  if (w && (!existed || (flags & O_TRUNC))) {
    idx = effect(0, &fe, &partial);
    maybe_crash(idx, -1, NULL, 0);
    if (fe) { logf_("E %ld open %s off=0 len=0 ret=-1 errno=%d", idx, path, fe); errno = fe; return -1; }
  }
  int fd;
  switch (which) {
    case 0: fd = real_open(path, flags, mode); break;
    case 1: fd = (real_open64 ? real_open64 : real_open)(path, flags, mode); break;
    case 2: fd = real_openat(dirfd, path, flags, mode); break;
    default: fd = (real_openat64 ? real_openat64 : real_openat)(dirfd, path, flags, mode); break;
  }
  if (fd >= 0 && watched(path)) remember(fd, path);
  else if (fd >= 0) remember(fd, NULL);
  if (idx) logf_("E %ld open %s off=0 len=0 ret=%d errno=%d flags=%s%s", idx, path, fd, fd < 0 ? errno : 0,
                 existed ? "" : "create", (flags & O_TRUNC) ? "+trunc" : "");
  return fd;
}

int open(const char *path, int flags, ...) {
  mode_t mode = 0;
  if (flags & (O_CREAT | O_TMPFILE)) { va_list ap; va_start(ap, flags); mode = va_arg(ap, mode_t); va_end(ap); }
  return open_common(0, AT_FDCWD, path, flags, mode);
}
int open64(const char *path, int flags, ...) {
  mode_t mode = 0;
  if (flags & (O_CREAT | O_TMPFILE)) { va_list ap; va_start(ap, flags); mode = va_arg(ap, mode_t); va_end(ap); }
  return open_common(1, AT_FDCWD, path, flags, mode);
}
int openat(int dirfd, const char *path, int flags, ...) {
  mode_t mode = 0;
  if (flags & (O_CREAT | O_TMPFILE)) { va_list ap; va_start(ap, flags); mode = va_arg(ap, mode_t); va_end(ap); }
  return open_common(2, dirfd, path, flags, mode);
}
int openat64(int dirfd, const char *path, int flags, ...) {
  mode_t mode = 0;
  if (flags & (O_CREAT | O_TMPFILE)) { va_list ap; va_start(ap, flags); mode = va_arg(ap, mode_t); va_end(ap); }
  return open_common(3, dirfd, path, flags, mode);
}

int close(int fd) {
  init();
  if (fd >= 0 && fd < MAXFD && fd_path[fd]) remember(fd, NULL);
  return real_close(fd);
}

ssize_t write(int fd, const void *buf, size_t len) {
  init();
  const char *p = path_of(fd);
  if (!p || fd == log_fd) return real_write(fd, buf, len);
  int fe; long partial;
  long idx = effect(1, &fe, &partial);
  off_t off = cur_size(fd);
  maybe_crash(idx, fd, buf, len);
  if (fe) {
    if (partial >= 0) {
      size_t t = (size_t)partial < len ? (size_t)partial : len;
      ssize_t r = t ? real_write(fd, buf, t) : 0;
      long doff = r > 0 ? save_data(buf, (size_t)r) : -1;
      logf_("E %ld write %s off=%ld len=%zu ret=%zd errno=0 doff=%ld short", idx, p, (long)off, len, r, doff);
      if (r > 0) return r;
    }
    logf_("E %ld write %s off=%ld len=%zu ret=-1 errno=%d", idx, p, (long)off, len, fe);
    errno = fe;
    return -1;
  }
  ssize_t r = real_write(fd, buf, len);
  int e = errno;
  long doff = r > 0 ? save_data(buf, (size_t)r) : -1;
  logf_("E %ld write %s off=%ld len=%zu ret=%zd errno=%d doff=%ld", idx, p, (long)off, len, r, r < 0 ? e : 0, doff);
  errno = e;
  return r;
}

ssize_t pwrite64(int fd, const void *buf, size_t len, off_t off) {
  init();
  const char *p = path_of(fd);
  if (!p) return real_pwrite64(fd, buf, len, off);
  int fe; long partial;
  long idx = effect(1, &fe, &partial);
  maybe_crash(idx, -1, NULL, 0);
  if (fe) { logf_("E %ld write %s off=%ld len=%zu ret=-1 errno=%d", idx, p, (long)off, len, fe); errno = fe; return -1; }
  ssize_t r = real_pwrite64(fd, buf, len, off);
  int e = errno;
  long doff = r > 0 ? save_data(buf, (size_t)r) : -1;
  logf_("E %ld write %s off=%ld len=%zu ret=%zd errno=%d doff=%ld", idx, p, (long)off, len, r, r < 0 ? e : 0, doff);
  errno = e;
  return r;
}
ssize_t pwrite(int fd, const void *buf, size_t len, off_t off) { return pwrite64(fd, buf, len, off); }

ssize_t writev(int fd, const struct iovec *iov, int n) {
  init();
  const char *p = path_of(fd);
  if (!p) return real_writev(fd, iov, n);
  size_t len = 0;
  for (int i = 0; i < n; i++) len += iov[i].iov_len;
  int fe; long partial;
  long idx = effect(1, &fe, &partial);
  off_t off = cur_size(fd);
  maybe_crash(idx, -1, NULL, 0);
  if (fe) { logf_("E %ld write %s off=%ld len=%zu ret=-1 errno=%d", idx, p, (long)off, len, fe); errno = fe; return -1; }
  ssize_t r = real_writev(fd, iov, n);
  int e = errno;
  long doff = -1;
  if (r > 0) {
    size_t left = (size_t)r;
    for (int i = 0; i < n && left > 0; i++) {
      size_t t = iov[i].iov_len < left ? iov[i].iov_len : left;
      long o = save_data(iov[i].iov_base, t);
      if (doff < 0) doff = o;
      left -= t;
    }
  }
  logf_("E %ld write %s off=%ld len=%zu ret=%zd errno=%d doff=%ld", idx, p, (long)off, len, r, r < 0 ? e : 0, doff);
  errno = e;
  return r;
}

static int sync_common(int kind, int fd) {
  init();
  const char *p = path_of(fd);
  int (*real)(int) = kind == 2 ? real_fsync : real_fdatasync;
  if (!p) return real(fd);
  int fe; long partial;
  long idx = effect(kind, &fe, &partial);
  maybe_crash(idx, -1, NULL, 0);
  if (fe) { logf_("E %ld %s %s off=0 len=0 ret=-1 errno=%d", idx, kinds[kind], p, fe); errno = fe; return -1; }
  int r = real(fd);
  logf_("E %ld %s %s off=%ld len=0 ret=%d errno=%d", idx, kinds[kind], p, (long)cur_size(fd), r, r < 0 ? errno : 0);
  return r;
}
int fsync(int fd) { return sync_common(2, fd); }
int fdatasync(int fd) { return sync_common(3, fd); }

static int trunc_common(int fd, off_t len) {
  init();
  const char *p = path_of(fd);
  int (*real)(int, off_t) = real_ftruncate64 ? real_ftruncate64 : real_ftruncate;
  if (!p) return real(fd, len);
  int fe; long partial;
  long idx = effect(4, &fe, &partial);
  maybe_crash(idx, -1, NULL, 0);
  if (fe) { logf_("E %ld ftruncate %s off=%ld len=0 ret=-1 errno=%d", idx, p, (long)len, fe); errno = fe; return -1; }
  int r = real(fd, len);
  logf_("E %ld ftruncate %s off=%ld len=0 ret=%d errno=%d", idx, p, (long)len, r, r < 0 ? errno : 0);
  return r;
}
int ftruncate64(int fd, off_t len) { return trunc_common(fd, len); }
int ftruncate(int fd, off_t len) { return trunc_common(fd, len); }

int rename(const char *a, const char *b) {
  init();
  if (!watched(a) && !watched(b)) return real_rename(a, b);
  int fe; long partial;
  long idx = effect(5, &fe, &partial);
  maybe_crash(idx, -1, NULL, 0);
  if (fe) { logf_("E %ld rename %s off=0 len=0 ret=-1 errno=%d -> %s", idx, a, fe, b); errno = fe; return -1; }
  int r = real_rename(a, b);
  logf_("E %ld rename %s off=0 len=0 ret=%d errno=%d -> %s", idx, a, r, r < 0 ? errno : 0, b);
  return r;
}

int unlink(const char *a) {
  init();
  if (!watched(a)) return real_unlink(a);
  int fe; long partial;
  long idx = effect(6, &fe, &partial);
  maybe_crash(idx, -1, NULL, 0);
  if (fe) { logf_("E %ld unlink %s off=0 len=0 ret=-1 errno=%d", idx, a, fe); errno = fe; return -1; }
  int r = real_unlink(a);
  logf_("E %ld unlink %s off=0 len=0 ret=%d errno=%d", idx, a, r, r < 0 ? errno : 0);
  return r;
}

int unlinkat(int dirfd, const char *a, int flags) {
  init();
  if (!watched(a)) return real_unlinkat(dirfd, a, flags);
  int fe; long partial;
  long idx = effect(6, &fe, &partial);
  maybe_crash(idx, -1, NULL, 0);
  if (fe) { logf_("E %ld unlink %s off=0 len=0 ret=-1 errno=%d", idx, a, fe); errno = fe; return -1; }
  int r = real_unlinkat(dirfd, a, flags);
  logf_("E %ld unlink %s off=0 len=0 ret=%d errno=%d", idx, a, r, r < 0 ? errno : 0);
  return r;
}

int mkdir(const char *a, mode_t m) {
  init();
  if (!watched(a)) return real_mkdir(a, m);
  int fe; long partial;
  long idx = effect(7, &fe, &partial);
  maybe_crash(idx, -1, NULL, 0);
  int r = real_mkdir(a, m);
  logf_("E %ld mkdir %s off=0 len=0 ret=%d errno=%d", idx, a, r, r < 0 ? errno : 0);
  return r;
}
