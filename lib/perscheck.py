"""Helpers shared by the persistence checks (C01, C03, C13, C12): run a kvh driver that writes
summary.json + failures.json, and turn failures into KNOWN-FINDING / VIOLATION reports."""
import json
import os
import vlib


def run_driver(ctx, binary, extra_args, timeout=2400):
    out = os.path.join(vlib.CACHE, "run", ctx.prop)
    os.makedirs(out, exist_ok=True)
    for f in ("summary.json", "failures.json"):
        try:
            os.remove(os.path.join(out, f))
        except FileNotFoundError:
            pass
    args = [vlib.bin_path(binary), "--out", out, "--tier", ctx.tier] + list(extra_args)
    if ctx.replay:
        args += ["--replay", ctx.replay]
    rc, o = vlib.sh(args, env={"VERIF_SEED": str(ctx.seed), "RUST_LOG": "off"}, timeout=timeout)
    ctx.log("driver_%s.log" % binary, o)
    if rc != 0 or not os.path.exists(os.path.join(out, "summary.json")):
        ctx.violation({"property": ctx.prop, "kind": "harness-crashed", "driver": binary, "rc": rc,
                       "log_tail": o[-3000:]}, no_input=True)
        return None, None
    summ = json.load(open(os.path.join(out, "summary.json")))
    fails = json.load(open(os.path.join(out, "failures.json")))
    return summ, fails


def report_failures(ctx, fails, describe):
    """Known classes (matched on the SPECIFIC input class recorded in known_findings.json) become
    KNOWN-FINDING lines; the first failure of any other class is the violation replay."""
    unknown = []
    for f in fails:
        cls = f.get("class")
        kf = ctx.classify_known(cls) if cls else None
        if kf:
            ctx.known_hit(kf, describe(f))
        else:
            unknown.append(f)
    if unknown:
        f = unknown[0]
        f = dict(f)
        f["property"] = ctx.prop
        f["other_unlisted_failures"] = len(unknown) - 1
        ctx.violation(f)
    return len(unknown)
