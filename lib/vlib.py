"""Shared machinery for the per-property checks (see DESIGN.md §1.2, §2).

Every check is a python module checks/cXX.py with a function run(ctx) that uses the helpers here:
  * coq_make / coq_assumptions / forbidden_grep  -> the proof obligations, re-checked every run
  * cargo_build / run_bin                         -> the harness built against /repo's working tree
  * coq_eval                                      -> cases.v evaluated by coqc (vm_compute) in shards
  * Ctx.violation / Ctx.known / Ctx.finish        -> VIOLATION / KNOWN-FINDING lines and evidence
"""
import fcntl
import glob
import hashlib
import json
import os
import re
import subprocess
import sys
import time
from concurrent.futures import ThreadPoolExecutor

VERIF = "/verif"
REPO = "/repo"
COQ = os.path.join(VERIF, "coq")
CACHE = os.path.join(VERIF, ".cache")
HARNESS = os.path.join(VERIF, "harness")
TARGET = os.path.join(CACHE, "target")
LOGICAL = "Kyro"

BASE_TRUSTED = [
    "Coq 8.16.1 kernel including the vm_compute reduction machine (no native_compute)",
    "no axioms declared by this development; Print Assumptions of every property theorem is compared with a per-property allowlist on every run",
    "the correspondence harness (harness/kvh): generators, canonicalisers and the decoding of implementation observations into Gallina literals",
]

FORBIDDEN = re.compile(
    r"\b(Admitted|admit|Axiom|Axioms|Parameter|Parameters|Conjecture|Conjectures|Admit Obligations|bypass_check|Unset Guard Checking|Unset Positivity Checking|Unset Universe Checking|type-in-type|impredicative-set|native_compute)\b"
)


def sh(cmd, cwd=None, env=None, timeout=None, inp=None):
    """Run a command, return (rc, combined output). rc = 124 on timeout."""
    e = dict(os.environ)
    e.setdefault("CARGO_NET_OFFLINE", "true")
    if env:
        e.update(env)
    try:
        p = subprocess.run(
            cmd,
            cwd=cwd,
            env=e,
            input=inp,
            stdout=subprocess.PIPE,
            stderr=subprocess.STDOUT,
            timeout=timeout,
            shell=isinstance(cmd, str),
            text=True,
            errors="replace",
        )
        return p.returncode, p.stdout
    except subprocess.TimeoutExpired as ex:
        out = ex.stdout or ""
        if isinstance(out, bytes):
            out = out.decode(errors="replace")
        return 124, out + "\n[timeout after %ss]" % timeout


class FileLock:
    def __init__(self, name):
        os.makedirs(CACHE, exist_ok=True)
        self.path = os.path.join(CACHE, name + ".lock")

    def __enter__(self):
        self.f = open(self.path, "w")
        fcntl.flock(self.f, fcntl.LOCK_EX)
        return self

    def __exit__(self, *a):
        fcntl.flock(self.f, fcntl.LOCK_UN)
        self.f.close()


def write_if_changed(path, text):
    os.makedirs(os.path.dirname(path), exist_ok=True)
    try:
        if open(path).read() == text:
            return False
    except FileNotFoundError:
        pass
    with open(path, "w") as f:
        f.write(text)
    return True


# --------------------------------------------------------------------------------------------
# Coq
# --------------------------------------------------------------------------------------------

def coq_sources():
    out = []
    for sub in ("Model", "gen", "Proofs", "Properties"):
        out += sorted(glob.glob(os.path.join(COQ, sub, "*.v")))
    return [os.path.relpath(p, COQ) for p in out]


def coq_project():
    """(Re)write _CoqProject and the coq_makefile Makefile when the file list changed."""
    files = coq_sources()
    text = "-Q . %s\n-arg -w -arg -notation-overridden,-deprecated-hint-without-locality,-deprecated-instance-without-locality\n" % LOGICAL + "\n".join(files) + "\n"
    changed = write_if_changed(os.path.join(COQ, "_CoqProject"), text)
    mk = os.path.join(COQ, "Makefile")
    if changed or not os.path.exists(mk) or not os.path.exists(mk + ".conf"):
        rc, out = sh(["coq_makefile", "-f", "_CoqProject", "-o", "Makefile"], cwd=COQ, timeout=60)
        if rc != 0:
            raise RuntimeError("coq_makefile failed: " + out)


def coq_make(targets, timeout=1500, jobs=16):
    """Full .vo build of the given targets (paths relative to coq/, e.g. Properties/C19.vo).
    Returns (ok, log). Uses a lock so concurrent checks do not race on shared .vo files."""
    with FileLock("coqmake"):
        coq_project()
        rc, out = sh(["make", "-j%d" % jobs, "-k"] + list(targets), cwd=COQ, timeout=timeout)
    return rc == 0, out


def coq_failed_files(log):
    """File names coqc reported an error in."""
    bad = []
    for m in re.finditer(r'File "\./([^"]+)", line (\d+), characters [^\n]*\n(?:(?!File ")[^\n]*\n)*?Error', log):
        bad.append((m.group(1), int(m.group(2))))
    for m in re.finditer(r"make[^\n]*\*\*\* \[[^\]]*?([\w/]+\.vo)", log):
        bad.append((m.group(1), 0))
    return bad


def coq_script(text, name, timeout=600):
    """Run a throw-away script against the compiled development; returns (rc, output)."""
    d = os.path.join(CACHE, "scripts")
    os.makedirs(d, exist_ok=True)
    path = os.path.join(d, name + ".v")
    with open(path, "w") as f:
        f.write(text)
    rc, out = sh(["coqc", "-noglob", "-Q", COQ, LOGICAL, path], cwd=d, timeout=timeout)
    for ext in (".vo", ".vok", ".vos", ".glob"):
        try:
            os.remove(path[:-2] + ext)
        except FileNotFoundError:
            pass
    return rc, out


def coq_assumptions(module, theorems, tag):
    """Print Assumptions for each theorem of Kyro.<module>. Returns {name: [axioms]} (empty list =
    closed under the global context) or None for a theorem that does not exist / does not check."""
    res = {}
    lines = ["Require Import %s.%s." % (LOGICAL, module)]
    for t in theorems:
        lines.append('Goal True. idtac "@@BEGIN %s". Abort.' % t)
        lines.append("Print Assumptions %s." % t)
        lines.append('Goal True. idtac "@@END %s". Abort.' % t)
    rc, out = coq_script("\n".join(lines) + "\n", "assum_" + tag)
    for t in theorems:
        m = re.search(r"@@BEGIN %s\n(.*?)@@END %s" % (re.escape(t), re.escape(t)), out, re.S)
        if not m:
            res[t] = None
            continue
        body = m.group(1).strip()
        if body.startswith("Closed under the global context"):
            res[t] = []
        elif body.startswith("Axioms:"):
            axs = re.findall(r"^([A-Za-z_][\w.']*)\s*:", body[len("Axioms:"):], re.M)
            res[t] = axs
        else:
            res[t] = None
    if rc != 0:
        for t in theorems:
            if res.get(t) is None:
                res[t] = None
    return res, out


def coq_check_statements(module, pins, tag):
    """pins: {name: statement-text}. Verifies `Check (name : statement).` for each. Returns list of
    names whose pinned statement no longer type-checks."""
    bad = []
    lines = ["Require Import %s.%s." % (LOGICAL, module)]
    pins = dict(pins)
    pre = pins.pop("_preamble", None)
    if pre:
        lines.append(pre)
    for n, st in pins.items():
        lines.append('Goal True. idtac "@@PIN %s". Abort.' % n)
        lines.append("Check (%s : %s)." % (n, st))
    rc, out = coq_script("\n".join(lines) + "\n", "pin_" + tag)
    if rc != 0:
        # find the last pin marker reached
        seen = re.findall(r"@@PIN (\S+)", out)
        bad.append(seen[-1] if seen else "?")
    return bad, out


def forbidden_grep(paths=None):
    """Scan the Coq development for declarations the brief forbids. Comments are stripped."""
    hits = []
    files = paths or [os.path.join(COQ, f) for f in coq_sources()]
    for p in files:
        try:
            src = open(p).read()
        except FileNotFoundError:
            continue
        # strip (nested) comments
        out, depth, i = [], 0, 0
        while i < len(src):
            if src.startswith("(*", i):
                depth += 1
                i += 2
            elif src.startswith("*)", i) and depth > 0:
                depth -= 1
                i += 2
            else:
                if depth == 0:
                    out.append(src[i])
                elif src[i] == "\n":
                    out.append("\n")
                i += 1
        code = "".join(out)
        stack = []
        for ln, line in enumerate(code.split("\n"), 1):
            m = FORBIDDEN.search(line)
            if m:
                hits.append("%s:%d:%s" % (os.path.relpath(p, VERIF), ln, m.group(1)))
            if re.match(r"\s*Section\s+\w+\s*\.", line):
                stack.append("S")
            elif re.match(r"\s*Module\s+(Type\s+)?\w+[^:=]*\.\s*$", line) and ":=" not in line:
                stack.append("M")
            elif re.match(r"\s*End\s+\w+\s*\.", line) and stack:
                stack.pop()
            if re.match(r"\s*(Variable|Variables|Hypothesis|Hypotheses|Context)\b", line):
                # allowed only inside a Section
                if "S" not in stack:
                    hits.append("%s:%d:Variable-outside-section" % (os.path.relpath(p, VERIF), ln))
    return hits


def coq_eval(prop, shards, timeout=900, preamble=None):
    """Evaluate cases files with coqc, in parallel. `shards` is a list of .v texts. Returns a list of
    (rc, output) in order. Files live in .cache/cases/<prop>/."""
    d = os.path.join(CACHE, "cases", prop)
    os.makedirs(d, exist_ok=True)
    for old in glob.glob(os.path.join(d, "cases_*")):
        os.remove(old)
    paths = []
    for i, text in enumerate(shards):
        p = os.path.join(d, "cases_%d.v" % i)
        with open(p, "w") as f:
            f.write(text)
        paths.append(p)

    def one(p):
        return sh(["coqc", "-noglob", "-Q", COQ, LOGICAL, p], cwd=d, timeout=timeout)

    with ThreadPoolExecutor(max_workers=16) as ex:
        return list(ex.map(one, paths))


def parse_tagged(output):
    """Harness-written cases files print results as `@@tag <payload>` lines through idtac, or as
    `Eval vm_compute` results following a `@@tag` marker. Returns {tag: joined text}."""
    res = {}
    cur = None
    for line in output.split("\n"):
        m = re.match(r"@@(\S+)\s*(.*)", line)
        if m:
            cur = m.group(1)
            res.setdefault(cur, "")
            res[cur] += m.group(2)
        elif cur is not None:
            res[cur] += " " + line.strip()
    return res


def parse_numbers(text):
    return [int(x) for x in re.findall(r"-?\d+", text)]


# --------------------------------------------------------------------------------------------
# Rust harness
# --------------------------------------------------------------------------------------------

def cargo_build(bins, release=False, package=None, timeout=3000):
    """Incremental offline build of harness binaries against /repo's working tree with hooks on.
    Returns (ok, log)."""
    cmd = ["cargo", "build", "--offline"]
    if release:
        cmd.append("--release")
    if package:
        cmd += ["-p", package]
        for b in bins:
            cmd += ["--bin", b]
    else:
        # convention: binary cxx lives in workspace package kvh-cxx (harness/p/cxx)
        for b in bins:
            cmd += ["-p", "kvh-" + b]
    with FileLock("cargo"):
        # keep the lockfile in step with /repo's (copied, never generated)
        try:
            src = open(os.path.join(REPO, "Cargo.lock")).read()
            lock = os.path.join(HARNESS, "Cargo.lock")
            if not os.path.exists(lock):
                open(lock, "w").write(src)
        except FileNotFoundError:
            pass
        sh([os.path.join(VERIF, "tools", "sync_workspace.py")], timeout=60)
        rc, out = sh(cmd, cwd=HARNESS, timeout=timeout)
        tries = 0
        while rc != 0 and "failed to load manifest for workspace member" in out and tries < 5:
            # another crate of the workspace is being created right now; transient
            time.sleep(20)
            tries += 1
            rc, out = sh(cmd, cwd=HARNESS, timeout=timeout)
    return rc == 0, out


def bin_path(name, release=False):
    return os.path.join(TARGET, "release" if release else "debug", name)


def server_build(timeout=3000):
    """Build the real kyrodb_server binary from /repo's working tree into .cache (hooks off: the
    server is driven as shipped)."""
    tdir = os.path.join(CACHE, "target-server")
    with FileLock("cargo-server"):
        rc, out = sh(
            ["cargo", "build", "--offline", "--manifest-path", os.path.join(REPO, "Cargo.toml"),
             "--target-dir", tdir, "--bin", "kyrodb_server", "-p", "kyrodb-engine"],
            cwd=VERIF, timeout=timeout, env={"CARGO_NET_OFFLINE": "true"})
    return rc == 0, out, os.path.join(tdir, "debug", "kyrodb_server")


# --------------------------------------------------------------------------------------------
# Check context: evidence, violations, known findings
# --------------------------------------------------------------------------------------------

def load_known():
    try:
        return json.load(open(os.path.join(VERIF, "known_findings.json")))
    except FileNotFoundError:
        return {"findings": [], "fixed": []}


class Ctx:
    def __init__(self, prop, tier, seed, replay=None):
        self.prop = prop
        self.tier = tier
        self.seed = seed
        self.replay = replay
        self.t0 = time.time()
        self.level = "proof"
        self.obligations = 0
        self.discharged = 0
        self.obligation_names = []
        self.failed_obligations = []
        self.checker_cmd = ""
        self.trusted = list(BASE_TRUSTED)
        self.assumptions = []
        self.cov = {}
        self.violations = []          # list of (replay_path, no_input)
        self.known_hits = {}          # finding id -> text
        self.known = [f for f in load_known().get("findings", []) if f.get("property") == prop]
        self.notes = []
        self.logdir = os.path.join(CACHE, "logs", prop)
        os.makedirs(self.logdir, exist_ok=True)
        # a driver thread that panics while running a registered input writes it here (kvh::panicrec)
        self.panic_file = os.path.join(self.logdir, "panic_input.json")
        try:
            os.remove(self.panic_file)
        except FileNotFoundError:
            pass
        os.environ["KVH_PANIC_FILE"] = self.panic_file

    # ---- logging
    def log(self, name, text):
        with open(os.path.join(self.logdir, name), "w") as f:
            f.write(text)

    def say(self, msg):
        print("[%s %5.1fs] %s" % (self.prop, time.time() - self.t0, msg), flush=True)

    # ---- proof phase
    def proof_phase(self, targets, module_theorems, allow_axioms=(), pins=None, extra_forbidden_paths=None):
        """Builds the Coq targets, checks assumptions of the listed theorems against the allowlist,
        greps for forbidden declarations. Returns True when every obligation is discharged.
        module_theorems: {"Properties.C19": ["C19_tenant_bound", ...]}"""
        self.checker_cmd = "make -C /verif/coq -j16 %s  (coqc 8.16.1, full .vo build) + Print Assumptions per theorem + forbidden-declaration scan" % " ".join(targets)
        names = [m + "." + t for m, ts in module_theorems.items() for t in ts]
        self.obligations += len(names)
        self.obligation_names += names
        ok, log = coq_make(targets)
        self.log("coq_make.log", log)
        failed = []
        if not ok:
            self.say("coq build failed: %s" % coq_failed_files(log)[:4])
        hits = forbidden_grep()
        if hits:
            self.say("forbidden declarations: %s" % hits[:5])
            failed.append("forbidden-declarations:" + ",".join(hits[:5]))
        for module, ts in module_theorems.items():
            vo = os.path.join(COQ, module.replace(".", "/") + ".vo")
            if not os.path.exists(vo):
                failed += [module + "." + t for t in ts]
                continue
            res, out = coq_assumptions(module, ts, self.prop + "_" + module.replace(".", "_"))
            self.log("assumptions_%s.log" % module, out)
            for t in ts:
                ax = res.get(t)
                if ax is None:
                    failed.append(module + "." + t)
                    continue
                extra = [a for a in ax if a not in allow_axioms]
                if extra:
                    failed.append(module + "." + t + ":unexpected-axioms:" + ",".join(extra))
                else:
                    self.discharged += 1
                if ax:
                    self.assumptions.append("%s depends on library axioms %s" % (t, ", ".join(ax)))
        if pins:
            for module, p in pins.items():
                bad, out = coq_check_statements(module, p, self.prop)
                self.log("pins_%s.log" % module, out)
                for b in bad:
                    failed.append(module + "." + b + ":statement-pin")
        if self.tier == "thorough" and not failed:
            # independent re-check of the compiled files and everything they depend on
            mods = ["%s.%s" % (LOGICAL, m) for m in module_theorems]
            rc, out = sh(["coqchk", "-silent", "-o", "-Q", COQ, LOGICAL] + mods, cwd=COQ, timeout=3000)
            self.log("coqchk.log", out)
            m = re.search(r"\* Axioms:\s*(.*?)\n\s*\n", out, re.S)
            axioms = m.group(1).strip() if m else "?"
            ok = rc == 0 and "type-in-type: <none>" in out and "unsafe (co)fixpoints: <none>" in out and "positivity is assumed: <none>" in out
            listed = [] if axioms == "<none>" else [a.strip() for a in axioms.split("\n") if a.strip()]
            extra = [a for a in listed if not any(a.startswith(x) or x in a for x in allow_axioms)]
            self.cov["coqchk"] = {"modules": mods, "rc": rc, "axioms": axioms, "ok": ok and not extra}
            if not ok or extra:
                failed.append("coqchk:" + (",".join(extra) if extra else "rc=%d" % rc))
        self.failed_obligations += failed
        return not failed

    # ---- violations
    def classify_known(self, key):
        """key: a finding id produced by the check's own classifier for a concrete failing input."""
        for f in self.known:
            if f.get("id") == key:
                return f
        return None

    def known_hit(self, finding, detail=""):
        self.known_hits[finding["id"]] = finding.get("what", "") + ((" — " + detail) if detail else "")

    def violation(self, replay_obj, no_input=False):
        os.makedirs(os.path.join(VERIF, "replays"), exist_ok=True)
        if no_input and "crashed" in str(replay_obj.get("kind", "")) and os.path.exists(self.panic_file):
            # the driver died in a panic while running a registered input: that input is the replay
            try:
                rec = json.loads(open(self.panic_file).read().strip() or "{}")
            except ValueError:
                rec = {}
            try:
                os.remove(self.panic_file)
            except FileNotFoundError:
                pass
            if rec.get("input") is not None:
                replay_obj = dict(replay_obj)
                replay_obj["kind"] = "panic-on-input"
                replay_obj["panic_location"] = rec.get("panic_location")
                replay_obj["panic_message"] = rec.get("panic_message")
                try:
                    replay_obj["input"] = json.loads(rec["input"])
                except (ValueError, TypeError):
                    replay_obj["input"] = rec["input"]
                # a panic inside the engine on an ordinary API input is a concrete failing input;
                # a panic inside the harness names the input but leaves the diagnosis open
                no_input = not str(rec.get("panic_location", "")).startswith("/repo/")
        blob = json.dumps(replay_obj, sort_keys=True, default=str)
        h = hashlib.sha1(blob.encode()).hexdigest()[:10]
        path = os.path.join(VERIF, "replays", "%s-%s.json" % (self.prop, h))
        with open(path, "w") as f:
            json.dump(replay_obj, f, indent=1, sort_keys=True, default=str)
        self.violations.append((path, no_input))

    # ---- finish
    def finish(self):
        cov = dict(self.cov)
        cov.setdefault("obligations", self.obligations)
        cov.setdefault("discharged", self.discharged)
        cov.setdefault("checker_cmd", self.checker_cmd or "n/a")
        cov.setdefault("trusted_base", self.trusted)
        cov.setdefault("obligation_names", self.obligation_names)
        if self.failed_obligations:
            cov["failed_obligations"] = self.failed_obligations
        if self.known_hits:
            cov["known_findings_seen"] = sorted(self.known_hits)
        if self.notes:
            cov["notes"] = self.notes
        ev = {
            "property_id": self.prop,
            "tier": self.tier,
            "seed": self.seed,
            "level": self.level,
            "coverage": cov,
            "assumptions": self.assumptions,
            "wall_s": round(time.time() - self.t0, 2),
            "violations": len(self.violations),
        }
        os.makedirs(os.path.join(VERIF, "evidence"), exist_ok=True)
        with open(os.path.join(VERIF, "evidence", self.prop + ".json"), "w") as f:
            json.dump(ev, f, indent=1, default=str)
        for fid, text in sorted(self.known_hits.items()):
            print("KNOWN-FINDING: property=%s %s [%s]" % (self.prop, text, fid), flush=True)
        for path, no_input in self.violations[:3]:
            print("VIOLATION property=%s replay=%s%s" % (self.prop, path, " no-failing-input-found" if no_input else ""), flush=True)
        if self.violations:
            return 1
        self.say("OK (%d/%d obligations, %s evaluations)" % (self.discharged, self.obligations, cov.get("evaluations", "-")))
        return 0
